// Package c28: selectors implement lookback, staleness and range windows (reference monitor).
package c28

import (
	"fmt"
	"math"
	"math/rand/v2"
	"sort"
	"strings"
	"time"

	"github.com/prometheus/prometheus/model/labels"
	"github.com/prometheus/prometheus/promql/parser"

	"verif/internal/core"
	"verif/internal/gen"
	ref "verif/internal/promqlref"
)

func init() {
	core.Register(&core.Prop{
		ID:        "C28",
		Title:     "Selectors implement lookback, staleness and range windows",
		Level:     "exploration",
		Technique: "reference-model runtime monitor: real promql.Engine on a real tsdb.DB vs a direct computation on the generated samples",
		LevelText: "Generated series (float, histogram, mixed; staleness markers; timestamps on and 1 ms around a small set of instants) are loaded into a tsdb.DB; generated instant and range queries (sel, timestamp(sel), count/last/first/min/max_over_time(sel[r]), last_over_time((sel)[r:s]), count/min/max_over_time((timestamp(sel))[r:s]), count/min/max_over_time(vector(time())[r:s])) with generated lookback, ranges, offsets (incl. negative), @ (numbers, start(), end()) whose window edges coincide with sample timestamps are run on the real engine and compared with a direct computation on the samples: latest sample in (t-lookback,t] unless stale; non-stale samples in (t-r,t]; offset/@ shift/fix the time; subquery steps are the multiples of the step in (t-r,t]. Series sets exact, values bitwise (all results are selected input values, counts, or T/1000). Held on the observed queries only.",
		LevelNote: "Trusted: labels.Matcher for series selection, tsdb as sample store (a self-check verifies the stored samples equal the dataset before querying). The metric name of function results is not compared (name handling is not part of the statement); min/max_over_time on windows containing NaN or both zeros accept every outcome consistent with 'a minimum/maximum of the float samples'. Thorough tier also uses small negative epochs.",
		DesignRef: "DESIGN.md §5 C28",
		Rule:      "case = one dataset (1-5 series) in a fresh TSDB with 10 (quick) / 14 (thorough) generated queries; a query is non-trivial iff its expected result is non-empty and (a sample timestamp coincides with a window edge or a staleness marker lies in a window); the case is non-trivial iff it has such a query; distinct by dataset+query text",
		Cases: func(variant string, tier core.Tier) int {
			if variant != "default" {
				return 0
			}
			if tier == core.Thorough {
				return 6000
			}
			return 450
		},
		Run:            run,
		MinNontrivial:  func(t core.Tier) int { return 200 },
		CaseTimeoutSec: 120,
	})
}

// ---------------------------------------------------------------- dataset

type world struct {
	r   *rand.Rand
	P   []int64 // interesting instants
	ds  *ref.Dataset
	lbD []int64 // candidate durations (differences of instants)
}

func genWorld(r *rand.Rand, tier core.Tier) *world {
	w := &world{r: r}
	base := int64(0)
	if tier == core.Thorough && r.IntN(4) == 0 {
		base = -int64(r.IntN(400000))
	}
	incs := []int64{1, 2, 5, 10, 100, 1000, 1000, 15000, 15000, 60000}
	n := 6 + r.IntN(9)
	t := base + int64(r.IntN(5000))
	for i := 0; i < n; i++ {
		w.P = append(w.P, t)
		inc := incs[r.IntN(len(incs))]
		if r.IntN(4) == 0 {
			inc = 1 + int64(r.IntN(100000))
		}
		t += inc
	}
	for i := range w.P {
		for j := 0; j < i; j++ {
			w.lbD = append(w.lbD, w.P[i]-w.P[j])
		}
	}
	ns := 1 + r.IntN(5)
	w.ds = &ref.Dataset{}
	for si := 0; si < ns; si++ {
		name := []string{"m", "m", "metric_a"}[r.IntN(3)]
		ls := labels.FromStrings("__name__", name, "s", fmt.Sprint(si), "a", []string{"x", "y"}[r.IntN(2)])
		ser := &ref.Series{Labels: ls}
		mode := r.IntN(20) // <12 float, <15 hist, else mixed
		var ah *gen.AbsHist
		seen := map[int64]bool{}
		var ts []int64
		for _, p := range w.P {
			if r.IntN(10) < 4 {
				continue
			}
			tt := p
			switch r.IntN(10) {
			case 0, 1:
				tt = p + 1
			case 2:
				tt = p - 1
			}
			if !seen[tt] {
				seen[tt] = true
				ts = append(ts, tt)
			}
			if r.IntN(8) == 0 && !seen[tt+1] { // adjacent pair
				seen[tt+1] = true
				ts = append(ts, tt+1)
			}
		}
		sort.Slice(ts, func(i, j int) bool { return ts[i] < ts[j] })
		for idx, tt := range ts {
			hist := mode >= 12 && (mode < 15 || r.IntN(2) == 0)
			stale := r.IntN(7) == 0
			x := ref.Smp{T: tt}
			switch {
			case hist && stale:
				if r.IntN(2) == 0 {
					x.H = gen.StaleHist()
				} else {
					x.FH = gen.StaleFloatHist()
				}
			case hist:
				if ah == nil {
					ah = gen.NewAbsHist(r, true)
				} else {
					ah = ah.Mutate(r)
				}
				if r.IntN(4) == 0 {
					x.FH = ah.Float(r)
				} else {
					x.H = ah.Int(r)
				}
			case stale:
				x.F = gen.Float(r, true)
				for !x.Stale() {
					x.F = gen.Float(r, true)
				}
			default:
				if r.IntN(10) < 7 {
					x.F = float64(si*1000 + idx)
				} else {
					x.F = gen.Float(r, false)
				}
			}
			ser.Samples = append(ser.Samples, x)
		}
		w.ds.Series = append(w.ds.Series, ser)
	}
	return w
}

func (w *world) instant() int64 {
	p := w.P[w.r.IntN(len(w.P))]
	switch w.r.IntN(8) {
	case 0:
		return p + 1
	case 1:
		return p - 1
	case 2:
		return p + int64(w.r.IntN(20000)) - 5000
	}
	return p
}

// durTo returns a positive duration d such that te-d is (near) an interesting instant, capped.
func (w *world) durTo(te int64, maxD int64) int64 {
	r := w.r
	for tries := 0; tries < 6; tries++ {
		p := w.P[r.IntN(len(w.P))]
		d := te - p
		switch r.IntN(6) {
		case 0:
			d++
		case 1:
			d--
		}
		if d >= 1 && d <= maxD {
			return d
		}
	}
	if len(w.lbD) > 0 && r.IntN(2) == 0 {
		d := w.lbD[r.IntN(len(w.lbD))]
		if d >= 1 && d <= maxD {
			return d
		}
	}
	return 1 + r.Int64N(min(maxD, 120000))
}

func (w *world) offset() int64 {
	r := w.r
	var d int64
	switch r.IntN(4) {
	case 0:
		d = 1 + int64(r.IntN(3))
	case 1:
		if len(w.lbD) > 0 {
			d = w.lbD[r.IntN(len(w.lbD))]
		} else {
			d = 1000
		}
	default:
		d = 1 + int64(r.IntN(200000))
	}
	if r.IntN(5) < 2 {
		d = -d
	}
	return d
}

// genMod draws modifiers and returns them with the evaluation time t that makes the selector
// look at te.
func (w *world) genMod(te int64) (ref.Mod, int64) {
	r := w.r
	m := ref.Mod{AtFirst: r.IntN(2) == 0}
	t := te
	k := r.IntN(20)
	if k >= 8 && k < 13 || k >= 16 {
		m.Offset = w.offset()
	}
	if k >= 13 {
		m.HasAt = true
		switch r.IntN(6) {
		case 0:
			m.AtStart = true
			t = te + m.Offset
		case 1:
			m.AtEnd = true
			t = te + m.Offset
		default:
			m.At = te + m.Offset
			t = w.instant()
		}
	} else {
		t = te + m.Offset
	}
	return m, t
}

var selTexts = []string{`m`, `m`, `metric_a`, `{__name__=~"m.*"}`, `{__name__=~"m.*"}`, `m{a="x"}`, `{s=~".+"}`, `{a!="x",s=~".+"}`, `{__name__=~"m.*",s="0"}`, `{__name__=~"m.*",s="1"}`, `{__name__=~".+",nolabel=""}`}

// ---------------------------------------------------------------- query model

type query struct {
	form    string // sel ts count last first min max sq_last sq_tscount sq_tsmin sq_tsmax sq_timecount sq_timemin sq_timemax
	selText string
	ms      []*labels.Matcher
	inner   ref.Mod // modifiers of the selector
	r       int64   // range (range selector or subquery)
	step    int64   // subquery step; 0 = default step
	outer   ref.Mod // modifiers of the subquery
	text    string
}

func (q *query) render(defStep int64) {
	sel := q.selText
	stepTxt := ""
	if q.step != 0 {
		stepTxt = ref.Dur(q.step)
	}
	switch q.form {
	case "sel":
		q.text = sel + q.inner.String()
	case "ts":
		q.text = "timestamp(" + sel + q.inner.String() + ")"
	case "count", "last", "first", "min", "max":
		q.text = fmt.Sprintf("%s_over_time(%s[%s]%s)", q.form, sel, ref.Dur(q.r), q.inner.String())
	case "sq_last":
		q.text = fmt.Sprintf("last_over_time((%s%s)[%s:%s]%s)", sel, q.inner.String(), ref.Dur(q.r), stepTxt, q.outer.String())
	case "sq_tscount", "sq_tsmin", "sq_tsmax":
		q.text = fmt.Sprintf("%s_over_time((timestamp(%s%s))[%s:%s]%s)", strings.TrimPrefix(q.form, "sq_ts"), sel, q.inner.String(), ref.Dur(q.r), stepTxt, q.outer.String())
	case "sq_timecount", "sq_timemin", "sq_timemax":
		q.text = fmt.Sprintf("%s_over_time(vector(time())[%s:%s]%s)", strings.TrimPrefix(q.form, "sq_time"), ref.Dur(q.r), stepTxt, q.outer.String())
	}
}

// stats about what a reference evaluation touched
type touch struct {
	edge  bool
	stale bool
	fatal bool // a difference other than the known timestamp()/@/offset finding was recorded
}

// expect computes the reference result of q at evaluation time t.
// The returned vector is keyed by the label set WITHOUT the metric name for function forms and
// by the full label set for the bare selector.
func expect(ds *ref.Dataset, q *query, t, qs, qe, lookback, defStep int64, tc *touch) ref.Vec {
	out := ref.Vec{}
	noteInstant := func(s *ref.Series, te int64) {
		for _, x := range s.Samples {
			if x.T == te || x.T == te-lookback {
				tc.edge = true
			}
			if x.Stale() && x.T > te-lookback && x.T <= te {
				tc.stale = true
			}
		}
	}
	noteWindow := func(s *ref.Series, lo, hi int64) {
		for _, x := range s.Samples {
			if x.T == lo || x.T == hi {
				tc.edge = true
			}
			if x.Stale() && x.T > lo && x.T <= hi {
				tc.stale = true
			}
		}
	}
	reduce := func(form string, pts []ref.Val) (ref.Val, bool) {
		if len(pts) == 0 {
			return ref.Val{}, false
		}
		switch form {
		case "count":
			return ref.Val{F: float64(len(pts))}, true
		case "last":
			return pts[len(pts)-1], true
		case "first":
			return pts[0], true
		}
		// min / max: floats only; handled by the caller (needs the whole float set)
		return ref.Val{}, false
	}
	switch q.form {
	case "sel", "ts":
		te := q.inner.Eff(t, qs, qe)
		for _, s := range ds.Select(q.ms) {
			noteInstant(s, te)
			x, ok := ref.InstantAt(s, te, lookback)
			if !ok {
				continue
			}
			if q.form == "sel" {
				out[s.Labels.String()] = x.Val()
			} else {
				out[ref.DropName(s.Labels).String()] = ref.Val{F: float64(x.T) / 1000}
			}
		}
	case "count", "last", "first":
		te := q.inner.Eff(t, qs, qe)
		for _, s := range ds.Select(q.ms) {
			noteWindow(s, te-q.r, te)
			var pts []ref.Val
			for _, x := range ref.Window(s, te-q.r, te) {
				pts = append(pts, x.Val())
			}
			if v, ok := reduce(q.form, pts); ok {
				out[ref.DropName(s.Labels).String()] = v
			}
		}
	case "sq_last":
		step := q.step
		if step == 0 {
			step = defStep
		}
		te := q.outer.Eff(t, qs, qe)
		steps := ref.SubqSteps(te, q.r, step)
		for _, s := range ds.Select(q.ms) {
			var pts []ref.Val
			for _, u := range steps {
				ie := q.inner.Eff(u, qs, qe)
				noteInstant(s, ie)
				if x, ok := ref.InstantAt(s, ie, lookback); ok {
					pts = append(pts, x.Val())
				}
			}
			if v, ok := reduce("last", pts); ok {
				out[ref.DropName(s.Labels).String()] = v
			}
		}
	}
	return out
}

// floatSets returns, per output series (name dropped), the multiset of float inputs that a
// min/max/count form reduces; used for forms whose reference is a predicate, not a single value.
func floatSets(ds *ref.Dataset, q *query, t, qs, qe, lookback, defStep int64, tc *touch) map[string][]float64 {
	out := map[string][]float64{}
	step := q.step
	if step == 0 {
		step = defStep
	}
	switch q.form {
	case "min", "max":
		te := q.inner.Eff(t, qs, qe)
		for _, s := range ds.Select(q.ms) {
			var fs []float64
			for _, x := range s.Samples {
				if x.T == te-q.r || x.T == te {
					tc.edge = true
				}
			}
			for _, x := range ref.Window(s, te-q.r, te) {
				if !x.IsHist() {
					fs = append(fs, x.F)
				}
			}
			if len(fs) > 0 {
				out[ref.DropName(s.Labels).String()] = fs
			}
		}
	case "sq_tscount", "sq_tsmin", "sq_tsmax":
		te := q.outer.Eff(t, qs, qe)
		steps := ref.SubqSteps(te, q.r, step)
		for _, s := range ds.Select(q.ms) {
			var fs []float64
			for _, u := range steps {
				ie := q.inner.Eff(u, qs, qe)
				for _, x := range s.Samples {
					if x.T == ie || x.T == ie-lookback {
						tc.edge = true
					}
					if x.Stale() && x.T > ie-lookback && x.T <= ie {
						tc.stale = true
					}
				}
				if x, ok := ref.InstantAt(s, ie, lookback); ok {
					fs = append(fs, float64(x.T)/1000)
				}
			}
			if len(fs) > 0 {
				out[ref.DropName(s.Labels).String()] = fs
			}
		}
	case "sq_timecount", "sq_timemin", "sq_timemax":
		te := q.outer.Eff(t, qs, qe)
		steps := ref.SubqSteps(te, q.r, step)
		var fs []float64
		for _, u := range steps {
			fs = append(fs, float64(u)/1000)
		}
		if len(steps) > 0 {
			if steps[0]-step == te-q.r || steps[len(steps)-1] == te {
				tc.edge = true
			}
			out[labels.EmptyLabels().String()] = fs
		}
	}
	return out
}

// okMinMax: got must be a minimum (maximum) of fs.
func okMinMax(isMin bool, fs []float64, got float64) bool {
	member := false
	allNaN := true
	for _, f := range fs {
		if gen.SameFloat(f, got) {
			member = true
		}
		if !math.IsNaN(f) {
			allNaN = false
		}
	}
	if !member {
		return false
	}
	if math.IsNaN(got) {
		// the docs do not say how NaN orders: accept NaN whenever a NaN is among the inputs
		return true
	}
	if allNaN {
		return false
	}
	for _, f := range fs {
		if math.IsNaN(f) {
			continue
		}
		if isMin && f < got || !isMin && f > got {
			return false
		}
	}
	return true
}

func isFloatSetForm(f string) bool {
	switch f {
	case "min", "max", "sq_tscount", "sq_tsmin", "sq_tsmax", "sq_timecount", "sq_timemin", "sq_timemax":
		return true
	}
	return false
}

// compare checks one evaluation (instant result or one range step) against the reference.
// compare checks one evaluation (instant result or one range step) against the reference and
// records a violation on a difference.  A difference that is fully explained by "timestamp() over a
// selector with both @ and offset ignores the offset" (the engine result equals the reference of
// the same query with the selector's offset removed) gets its own narrow kind.
func compare(c *core.Case, ds *ref.Dataset, q *query, got ref.Vec, ls map[string]labels.Labels, t, qs, qe, lookback, defStep int64, how string, tc *touch) bool {
	kind, detail, nonEmpty := diff(ds, q, got, ls, t, qs, qe, lookback, defStep, how, tc)
	if kind == "" {
		return nonEmpty
	}
	if (q.form == "ts" || strings.HasPrefix(q.form, "sq_ts")) && q.inner.HasAt && q.inner.Offset != 0 {
		// The engine evaluates this form at the @ time without the offset, on the samples the storage
		// returned for the (correctly shifted) time range.  So: every returned element must be
		// explained by the offset-less reference; elements may be missing.
		q2 := *q
		q2.inner.Offset = 0
		if explainedWithoutOffset(ds, &q2, got, ls, t, qs, qe, lookback, defStep) {
			kind = "timestamp-of-selector-with-at-and-offset-ignores-offset"
			detail = "timestamp() over a selector with @ and offset evaluates at the @ time without the offset; " + detail
			c.Violatef(kind, "%s", detail)
			return false
		}
	}
	tc.fatal = true
	c.Violatef(kind, "%s", detail)
	return false
}

func diff(ds *ref.Dataset, q *query, got ref.Vec, ls map[string]labels.Labels, t, qs, qe, lookback, defStep int64, how string, tc *touch) (kind, detail string, nonEmpty bool) {
	ctx := func() string {
		return fmt.Sprintf("%s query %q at t=%d (query range %d..%d) lookback=%dms default-subquery-step=%dms\ndataset:\n%s", how, q.text, t, qs, qe, lookback, defStep, ds)
	}
	// normalise got keys
	norm := ref.Vec{}
	if q.form == "sel" {
		norm = got
	} else {
		for k, v := range got {
			nk := ref.DropName(ls[k]).String()
			if _, dup := norm[nk]; dup {
				return "duplicate-series", fmt.Sprintf("two result series differ only in the metric name (%s)\n%s", nk, ctx()), false
			}
			norm[nk] = v
		}
	}
	if isFloatSetForm(q.form) {
		sets := floatSets(ds, q, t, qs, qe, lookback, defStep, tc)
		for k := range sets {
			if _, ok := norm[k]; !ok {
				return kindFor(q, "series-missing"), fmt.Sprintf("series %s expected (inputs %v) but absent; got %s\n%s", k, sets[k], norm, ctx()), false
			}
		}
		for k, v := range norm {
			fs, ok := sets[k]
			if !ok {
				return kindFor(q, "series-unexpected"), fmt.Sprintf("series %s returned with %s but the reference has no input for it; expected keys %v\n%s", k, v, keys(sets), ctx()), false
			}
			if v.H != nil {
				return kindFor(q, "value-mismatch"), fmt.Sprintf("series %s: histogram result for a float-only form\n%s", k, ctx()), false
			}
			switch {
			case strings.HasSuffix(q.form, "count"):
				if v.F != float64(len(fs)) {
					return kindFor(q, "count-mismatch"), fmt.Sprintf("series %s: count %v, reference %d (inputs %v)\n%s", k, v.F, len(fs), fs, ctx()), false
				}
			case strings.HasSuffix(q.form, "min"):
				if !okMinMax(true, fs, v.F) {
					return kindFor(q, "value-mismatch"), fmt.Sprintf("series %s: min %v is not a minimum of %v\n%s", k, v, fs, ctx()), false
				}
			case strings.HasSuffix(q.form, "max"):
				if !okMinMax(false, fs, v.F) {
					return kindFor(q, "value-mismatch"), fmt.Sprintf("series %s: max %v is not a maximum of %v\n%s", k, v, fs, ctx()), false
				}
			}
		}
		return "", "", len(sets) > 0
	}
	want := expect(ds, q, t, qs, qe, lookback, defStep, tc)
	for k, wv := range want {
		gv, ok := norm[k]
		if !ok {
			return kindFor(q, "series-missing"), fmt.Sprintf("series %s expected with %s but absent; got %s\n%s", k, wv, norm, ctx()), false
		}
		if !gv.SameBits(wv) {
			return kindFor(q, "value-mismatch"), fmt.Sprintf("series %s: got %s, reference %s\n%s", k, gv, wv, ctx()), false
		}
	}
	for k, gv := range norm {
		if _, ok := want[k]; !ok {
			return kindFor(q, "series-unexpected"), fmt.Sprintf("series %s returned with %s but the reference says absent; reference %s\n%s", k, gv, want, ctx()), false
		}
	}
	return "", "", len(want) > 0
}

// explainedWithoutOffset: the engine evaluates timestamp(sel @ x offset d) at x (offset dropped) but on
// the samples the storage returned for the correctly shifted time range, so the exact outcome
// depends on how the storage trims.  The predicate for the known kind is therefore: the query
// has that syntactic form (checked by the caller) and every returned element is still the
// timestamp of a real non-stale sample of its series (counts: between 1 and the number of subquery steps).
func explainedWithoutOffset(ds *ref.Dataset, q2 *query, got ref.Vec, ls map[string]labels.Labels, t, qs, qe, lookback, defStep int64) bool {
	byKey := map[string]*ref.Series{}
	for _, s := range ds.Select(q2.ms) {
		byKey[ref.DropName(s.Labels).String()] = s
	}
	for k, v := range got {
		s, ok := byKey[ref.DropName(ls[k]).String()]
		if !ok || v.H != nil {
			return false
		}
		if strings.HasSuffix(q2.form, "count") {
			step := q2.step
			if step == 0 {
				step = defStep
			}
			n := len(ref.SubqSteps(q2.outer.Eff(t, qs, qe), q2.r, step))
			if v.F < 1 || v.F > float64(n) {
				return false
			}
			continue
		}
		member := false
		for _, x := range s.Samples {
			if !x.Stale() && float64(x.T)/1000 == v.F {
				member = true
			}
		}
		if !member {
			return false
		}
	}
	return true
}

func kindFor(q *query, what string) string {
	class := "instant-selector"
	switch {
	case strings.HasPrefix(q.form, "sq_"):
		class = "subquery"
	case q.form == "sel" || q.form == "ts":
	default:
		class = "range-selector"
	}
	return class + "-" + what
}

func keys[V any](m map[string]V) []string {
	var out []string
	for k := range m {
		out = append(out, k)
	}
	sort.Strings(out)
	return out
}

// ---------------------------------------------------------------- run

var forms = []string{"sel", "sel", "sel", "ts", "ts", "count", "count", "last", "first", "min", "max", "sq_last", "sq_last", "sq_tscount", "sq_tsmin", "sq_tsmax", "sq_timecount", "sq_timemin", "sq_timemax"}

func run(c *core.Case) {
	r := c.Rng
	w := genWorld(r, c.Tier)
	st := ref.Load(c, w.ds, ref.StoreOpts{})
	defer st.Close()
	defStep := []int64{1000, 15000, 60000, 7}[r.IntN(4)]
	eng := ref.NewEngine(ref.EngineOpts{Lookback: 5 * time.Minute, DefaultSubqStepMs: defStep})

	nq := 10
	if c.Tier == core.Thorough {
		nq = 14
	}
	nontrivial := false
	var texts []string
	var sample []map[string]any
	for qi := 0; qi < nq; qi++ {
		q := &query{form: forms[r.IntN(len(forms))]}
		q.selText = selTexts[r.IntN(len(selTexts))]
		ms, err := parser.NewParser(parser.Options{}).ParseMetricSelector(q.selText)
		core.Must(err, "parse selector "+q.selText)
		q.ms = ms

		te := w.instant()
		var lookback int64
		if r.IntN(4) == 0 {
			lookback = []int64{1, 2, 1000, 300000, 60000}[r.IntN(5)]
		} else {
			lookback = w.durTo(te, 300000)
		}
		var t int64
		isSubq := strings.HasPrefix(q.form, "sq_")
		if isSubq {
			// outer window end te; step; range
			q.outer, t = w.genMod(te)
			steps := []int64{1, 2, 5, 10, 100, 1000, 15000}
			q.step = steps[r.IntN(len(steps))]
			if r.IntN(6) == 0 && len(w.lbD) > 0 {
				q.step = w.lbD[r.IntN(len(w.lbD))]
			}
			if r.IntN(8) == 0 {
				q.step = 0
			}
			step := q.step
			if step == 0 {
				step = defStep
			}
			nsteps := int64(1 + r.IntN(12))
			if r.IntN(5) == 0 {
				nsteps = int64(1 + r.IntN(300))
			}
			switch r.IntN(3) {
			case 0: // left edge exactly on a multiple of the step
				lo := (te/step - nsteps) * step
				q.r = te - lo
			case 1:
				q.r = nsteps*step + int64(r.IntN(3)) - 1
			default:
				q.r = w.durTo(te, nsteps*step+1)
			}
			if q.r < 1 {
				q.r = 1
			}
			if q.r/step > 3000 {
				q.r = 3000 * step
			}
			// inner modifiers: relative offset and/or fixed @
			if q.form != "sq_timecount" && q.form != "sq_timemin" && q.form != "sq_timemax" {
				switch r.IntN(5) {
				case 0:
					q.inner.Offset = w.offset()
				case 1:
					q.inner.HasAt = true
					q.inner.At = w.instant()
					if r.IntN(2) == 0 {
						q.inner.Offset = w.offset()
					}
					q.inner.AtFirst = r.IntN(2) == 0
				}
			}
		} else {
			q.inner, t = w.genMod(te)
			if q.form != "sel" && q.form != "ts" {
				q.r = w.durTo(te, 3600000)
			}
		}
		q.render(defStep)
		texts = append(texts, q.text)

		tc := &touch{}
		nonEmpty := false
		rangeQ := r.IntN(4) == 0
		if !rangeQ {
			out := st.Instant(eng, q.text, t, time.Duration(lookback)*time.Millisecond)
			c.Count("instant_queries", 1)
			if out.Err != nil {
				c.Violatef("unexpected-error", "instant query %q at %d failed: %v\ndataset:\n%s", q.text, t, out.Err, w.ds)
				return
			}
			if out.Dup != "" {
				c.Violatef("malformed-result", "instant query %q at %d: %s", q.text, t, out.Dup)
				return
			}
			if out.Vec == nil {
				c.Violatef("malformed-result", "instant query %q at %d returned a non-vector", q.text, t)
				return
			}
			nonEmpty = compare(c, w.ds, q, out.Vec, out.LS, t, t, t, lookback, defStep, "instant", tc)
		} else {
			// range query whose first step is t
			nst := int64(2 + r.IntN(7))
			var step int64
			if len(w.lbD) > 0 && r.IntN(2) == 0 {
				step = w.lbD[r.IntN(len(w.lbD))]
			} else {
				step = []int64{1, 2, 10, 1000, 15000, 60000}[r.IntN(6)]
			}
			start := t
			if r.IntN(2) == 0 { // let t be the last step instead
				start = t - (nst-1)*step
			}
			end := start + (nst-1)*step + int64(r.IntN(2))*(step/2)
			out := st.Range(eng, q.text, start, end, step, time.Duration(lookback)*time.Millisecond)
			c.Count("range_queries", 1)
			if out.Err != nil {
				c.Violatef("unexpected-error", "range query %q %d..%d step %d failed: %v\ndataset:\n%s", q.text, start, end, step, out.Err, w.ds)
				return
			}
			if out.Bad != "" {
				c.Violatef("malformed-result", "range query %q %d..%d step %d: %s", q.text, start, end, step, out.Bad)
				return
			}
			for ts := start; ts <= end; ts += step {
				got := out.Steps[ts]
				if got == nil {
					got = ref.Vec{}
				}
				c.Count("range_steps", 1)
				if compare(c, w.ds, q, got, out.LS, ts, start, end, lookback, defStep, fmt.Sprintf("range(step %d of %d..%d/%d)", ts, start, end, step), tc) {
					nonEmpty = true
				}
				if tc.fatal {
					return
				}
			}
		}
		if tc.fatal {
			return
		}
		c.Seen("form", q.form)
		if nonEmpty {
			c.Count("queries_nonempty", 1)
		}
		if tc.edge {
			c.Count("queries_with_edge_coincidence", 1)
		}
		if tc.stale {
			c.Count("queries_with_stale_in_window", 1)
		}
		if q.inner.Offset < 0 || q.outer.Offset < 0 {
			c.Count("queries_negative_offset", 1)
		}
		if q.inner.HasAt || q.outer.HasAt {
			c.Count("queries_with_at", 1)
		}
		if nonEmpty && (tc.edge || tc.stale) {
			nontrivial = true
			c.Count("queries_nontrivial", 1)
		}
		if len(sample) < 3 {
			sample = append(sample, map[string]any{"query": q.text, "t": t, "lookback_ms": lookback, "range_query": rangeQ, "nonempty": nonEmpty, "edge": tc.edge, "stale_in_window": tc.stale})
		}
	}
	if nontrivial {
		c.Nontrivial(w.ds.String(), strings.Join(texts, "\n"))
	}
	if c.Idx < 3 {
		c.Sample(map[string]any{"dataset": strings.Split(strings.TrimSpace(w.ds.String()), "\n"), "queries": sample})
	}
}
