// Package c47: service discovery converges to the latest target groups (runtime monitor around
// discovery.Manager with fake Discoverers, a slow consumer and configuration reloads).
package c47

import (
	"bytes"
	"context"
	"errors"
	"fmt"
	"math/rand/v2"
	"runtime"
	"sort"
	"strconv"
	"strings"
	"sync"
	"time"

	"github.com/prometheus/client_golang/prometheus"
	"github.com/prometheus/common/model"
	"github.com/prometheus/common/promslog"

	"github.com/prometheus/prometheus/discovery"
	"github.com/prometheus/prometheus/discovery/targetgroup"

	"verif/internal/core"
	"verif/internal/sched"
)

// progressBound is the number of sender cycles (the manager's own clock, observe point
// discovery.sender.cycle) within which the final state must have been delivered once the last
// update has been applied and the consumer is reading.
const progressBound = 16

// watchdog only ever yields an inconclusive case.
const watchdog = 120 * time.Second

func init() {
	core.Register(&core.Prop{
		ID:        "C47",
		Title:     "Service discovery converges to the latest target groups",
		Level:     "exploration",
		Technique: "runtime monitor: generated update streams through fake Discoverers into the real discovery.Manager with reloads and a slow consumer; last delivered map vs a reference fold, progress bounded in sender cycles, repeat-last-update probe",
		LevelText: "Generated scenarios run the real discovery.Manager (ApplyConfig, Run, SyncCh) with fake discovery.Config/Discoverer types: 1–4 jobs over a pool of updating providers, providers that send once and close their channel, configurations whose NewDiscoverer fails, jobs without any configuration, shared providers, duplicate configurations, updates with several groups, nil groups, emptied sources, equal source names in different providers; ApplyConfig reloads (fresh but equal Config values, jobs and providers coming and going) and consumer pauses at PRNG points, all while discoverer goroutines forward concurrently. After the inputs stop and every forwarded update is known to be applied, the consumer reads and after 16 sender cycles the last map it received must equal the reference fold (per job of the final configuration: the latest non-empty group of every source of every provider serving it; emptied sources and removed providers/jobs absent; jobs without targets present and empty). A mismatch is classified by repeating the last update of a live provider: correct afterwards = update lost until the next one, else wrong state. Held on the observed scenarios only.",
		LevelNote: "Logical time is the manager's own sender loop (observe point discovery.sender.cycle); wall clock only as a watchdog (inconclusive). 'Applied' is established without timing: the updater receives from an unbuffered channel sequentially, so once a later (nil-group, state-neutral) marker update of the same discoverer has been taken, all earlier ones are folded in. Reductions against the planned monitor: progress bound 16 instead of 20 cycles per window (idle cycles take 50–150 ms); real discovery.StaticConfig with targets is not used because the moment its single update is applied cannot be observed without timing – the send-once-then-close path is driven by a fake of the same shape and the implicit empty StaticConfig by jobs without configuration; intermediate maps are not judged. Trusted: group identity by (Source, targets, labels) rendering.",
		DesignRef: "DESIGN.md §5 C47",
		Rule:      "case = one generated scenario of 8–30 steps (update, burst, reload, wait k cycles, pause/resume consumer) plus the convergence phase; non-trivial iff at least 3 updates reached live providers, at least 2 maps were delivered and a reload, a consumer pause overlapping updates or an emptied source occurred; distinct by scenario transcript",
		Assumptions: []string{
			"fake Discoverers behave like real ones: per-provider updates are sent in order on the channel handed to Run, Run returns when the context is cancelled",
			"the consumer of SyncCh is the only reader",
		},
		Cases: func(variant string, tier core.Tier) int {
			switch variant {
			case "default":
				if tier == core.Thorough {
					return 2400
				}
				return 240
			case "race":
				if tier == core.Thorough {
					return 300
				}
				return 48
			}
			return 0
		},
		Variants:       []string{"race"},
		Run:            run,
		MinNontrivial:  func(t core.Tier) int { return 60 },
		CaseTimeoutSec: 600,
	})
}

func curGID() int64 {
	var buf [64]byte
	b := buf[:runtime.Stack(buf[:], false)]
	b = bytes.TrimPrefix(b, []byte("goroutine "))
	i := bytes.IndexByte(b, ' ')
	if i < 0 {
		return -1
	}
	n, _ := strconv.ParseInt(string(b[:i]), 10, 64)
	return n
}

const (
	kindDyn    = 0 // keeps its channel open and forwards what the harness pushes
	kindCloser = 1 // sends its initial groups once and closes the channel (like static_configs)
	kindBad    = 2 // NewDiscoverer fails
)

// fakeCfg is the discovery.Config of the fake providers.  Every reload builds fresh values; the
// manager recognises running providers by reflect.DeepEqual.
type fakeCfg struct {
	ID   string
	Kind int
	h    *harness
}

func (f *fakeCfg) Name() string { return "verif_fake" }

func (f *fakeCfg) NewDiscoverer(discovery.DiscovererOptions) (discovery.Discoverer, error) {
	if f.Kind == kindBad {
		return nil, errors.New("injected NewDiscoverer failure")
	}
	return f.h.newInc(f.ID, f.Kind), nil
}

func (f *fakeCfg) NewDiscovererMetrics(prometheus.Registerer, discovery.RefreshMetricsInstantiator) discovery.DiscovererMetrics {
	return &discovery.NoopDiscovererMetrics{}
}

type update struct {
	tgs    []*targetgroup.Group
	marker bool
}

// inc is one incarnation of a provider: the Discoverer the manager created for a configuration.
type inc struct {
	h         *harness
	id        string
	n         int
	kind      int
	inbox     chan update
	pushed    int // updates put into inbox (harness goroutine)
	forwarded int // updates taken by the manager's updater (under h.mu)
	dead      bool
	started   bool
	state     map[string]*targetgroup.Group // reference fold of what was pushed
	lastReal  []*targetgroup.Group
	realCount int
}

func (i *inc) Run(ctx context.Context, up chan<- []*targetgroup.Group) {
	i.h.mu.Lock()
	i.started = true
	i.h.cond.Broadcast()
	i.h.mu.Unlock()
	for {
		select {
		case <-ctx.Done():
			i.h.mu.Lock()
			i.dead = true
			i.h.cond.Broadcast()
			i.h.mu.Unlock()
			return
		case u := <-i.inbox:
			select {
			case up <- u.tgs:
				i.h.mu.Lock()
				i.forwarded++
				i.h.cond.Broadcast()
				i.h.mu.Unlock()
				if u.marker && i.kind == kindCloser {
					close(up)
					<-ctx.Done()
					i.h.mu.Lock()
					i.dead = true
					i.h.cond.Broadcast()
					i.h.mu.Unlock()
					return
				}
			case <-ctx.Done():
				i.h.mu.Lock()
				i.dead = true
				i.h.cond.Broadcast()
				i.h.mu.Unlock()
				return
			}
		}
	}
}

type harness struct {
	c    *core.Case
	mu   sync.Mutex
	cond *sync.Cond

	cycles  int64 // hits of discovery.sender.cycle
	applied int64 // hits of discovery.updater.applied

	cur     map[string]*inc // current incarnation per provider id
	all     []*inc
	incSeq  map[string]int
	paused  bool
	last    map[string][]string // rendering of the last map the consumer received
	nDeliv  int
	closed  bool // SyncCh was closed (sender gone)
	timeout bool

	log []string
}

func (h *harness) logf(format string, a ...any) {
	s := fmt.Sprintf(format, a...)
	h.log = append(h.log, s)
	h.c.Logf("%s", s)
}

func (h *harness) waitFor(what string, pred func() bool) bool {
	t0 := time.Now()
	h.mu.Lock()
	defer h.mu.Unlock()
	for !pred() {
		if h.timeout || time.Since(t0) > watchdog {
			if !h.timeout {
				h.timeout = true
				h.c.Inconclusive("watchdog: %s did not happen within %s", what, watchdog)
			}
			return false
		}
		h.cond.Wait()
	}
	return true
}

func (h *harness) waitCycles(k int) bool {
	h.mu.Lock()
	target := h.cycles + int64(k)
	h.mu.Unlock()
	return h.waitFor(fmt.Sprintf("%d sender cycles", k), func() bool { return h.cycles >= target })
}

var sources = []string{"s0", "s1", "s2", "s3"}

func genGroup(r *rand.Rand, id string, allowEmpty bool) *targetgroup.Group {
	g := &targetgroup.Group{Source: sources[r.IntN(len(sources))]}
	if r.IntN(4) == 0 {
		g.Source = id + "/" + g.Source // provider-unique source names as real SDs use
	}
	n := r.IntN(4)
	if !allowEmpty && n == 0 {
		n = 1
	}
	for k := 0; k < n; k++ {
		g.Targets = append(g.Targets, model.LabelSet{model.AddressLabel: model.LabelValue(fmt.Sprintf("h%d:%d", r.IntN(6), 9000+r.IntN(3)))})
	}
	if r.IntN(3) == 0 {
		g.Labels = model.LabelSet{"env": model.LabelValue([]string{"a", "b"}[r.IntN(2)])}
	}
	return g
}

func genUpdate(r *rand.Rand, id string) []*targetgroup.Group {
	var tgs []*targetgroup.Group
	for k := 1 + r.IntN(3); k > 0; k-- {
		if r.IntN(12) == 0 {
			tgs = append(tgs, nil) // some discoverers send nil groups
			continue
		}
		tgs = append(tgs, genGroup(r, id, true))
	}
	return tgs
}

func fold(state map[string]*targetgroup.Group, tgs []*targetgroup.Group) (emptied bool) {
	for _, tg := range tgs {
		if tg == nil {
			continue
		}
		if len(tg.Targets) > 0 {
			state[tg.Source] = tg
		} else {
			if _, ok := state[tg.Source]; ok {
				emptied = true
			}
			delete(state, tg.Source)
		}
	}
	return emptied
}

// newInc is called by the manager (inside ApplyConfig, harness goroutine) through NewDiscoverer.
func (h *harness) newInc(id string, kind int) *inc {
	h.mu.Lock()
	defer h.mu.Unlock()
	n := h.incSeq[id]
	h.incSeq[id] = n + 1
	i := &inc{h: h, id: id, n: n, kind: kind, inbox: make(chan update, 512), state: map[string]*targetgroup.Group{}}
	// like real discoverers, a new one first reports what it currently sees
	r := h.c.SubRng(fmt.Sprintf("init-%s-%d", id, n))
	if kind == kindCloser || r.IntN(4) != 0 {
		var tgs []*targetgroup.Group
		for k := r.IntN(4); k > 0; k-- {
			tgs = append(tgs, genGroup(r, id, true))
		}
		if kind == kindCloser && r.IntN(4) == 0 {
			tgs = nil
		}
		fold(i.state, tgs)
		i.inbox <- update{tgs: tgs}
		i.pushed++
		i.lastReal, i.realCount = tgs, 1
	}
	if kind == kindCloser {
		i.inbox <- update{tgs: []*targetgroup.Group{nil}, marker: true}
		i.pushed++
	}
	h.cur[id] = i
	h.all = append(h.all, i)
	return i
}

func renderGroup(tg *targetgroup.Group) string {
	var ts []string
	for _, t := range tg.Targets {
		ts = append(ts, t.String())
	}
	sort.Strings(ts)
	return fmt.Sprintf("%s|%s|%s", tg.Source, strings.Join(ts, ","), tg.Labels.String())
}

func renderMap(m map[string][]*targetgroup.Group) map[string][]string {
	out := map[string][]string{}
	for job, tgs := range m {
		l := []string{}
		for _, tg := range tgs {
			if tg == nil {
				l = append(l, "<nil>")
				continue
			}
			l = append(l, renderGroup(tg))
		}
		sort.Strings(l)
		out[job] = l
	}
	return out
}

func sameRendering(a, b map[string][]string) bool {
	if a == nil || b == nil || len(a) != len(b) {
		return false
	}
	for k, va := range a {
		vb, ok := b[k]
		if !ok || len(va) != len(vb) {
			return false
		}
		for i := range va {
			if va[i] != vb[i] {
				return false
			}
		}
	}
	return true
}

func showRendering(m map[string][]string) string {
	if m == nil {
		return "<nothing delivered>"
	}
	var jobs []string
	for j := range m {
		jobs = append(jobs, j)
	}
	sort.Strings(jobs)
	var sb strings.Builder
	for _, j := range jobs {
		fmt.Fprintf(&sb, "\n    %s: %v", j, m[j])
	}
	return sb.String()
}

type genCfg struct {
	jobs map[string][]string // job -> provider ids (may repeat, may be empty)
}

var pool = []struct {
	id   string
	kind int
}{{"p0", kindDyn}, {"p1", kindDyn}, {"p2", kindDyn}, {"p3", kindDyn}, {"st0", kindCloser}, {"st1", kindCloser}, {"bad0", kindBad}}

func kindOf(id string) int {
	for _, p := range pool {
		if p.id == id {
			return p.kind
		}
	}
	return kindDyn
}

func genConfig(r *rand.Rand, prev *genCfg) *genCfg {
	g := &genCfg{jobs: map[string][]string{}}
	for j := 0; j < 4; j++ {
		job := "j" + strconv.Itoa(j)
		keep := r.IntN(100) < 60
		if prev != nil {
			if _, had := prev.jobs[job]; had {
				keep = r.IntN(100) < 80
			}
		}
		if !keep {
			continue
		}
		var ids []string
		if prev != nil && r.IntN(2) == 0 {
			ids = append(ids, prev.jobs[job]...) // unchanged job
		} else {
			for k := r.IntN(4); k > 0; k-- {
				ids = append(ids, pool[r.IntN(len(pool))].id)
			}
		}
		g.jobs[job] = ids
	}
	if len(g.jobs) == 0 {
		g.jobs["j0"] = []string{"p0"}
	}
	return g
}

func (g *genCfg) String() string {
	var jobs []string
	for j := range g.jobs {
		jobs = append(jobs, j)
	}
	sort.Strings(jobs)
	var sb strings.Builder
	for _, j := range jobs {
		fmt.Fprintf(&sb, "%s=%v ", j, g.jobs[j])
	}
	return sb.String()
}

func (g *genCfg) referenced() map[string]bool {
	out := map[string]bool{}
	for _, ids := range g.jobs {
		for _, id := range ids {
			out[id] = true
		}
	}
	return out
}

func (g *genCfg) build(h *harness) map[string]discovery.Configs {
	out := map[string]discovery.Configs{}
	for job, ids := range g.jobs {
		cfgs := discovery.Configs{}
		for _, id := range ids {
			cfgs = append(cfgs, &fakeCfg{ID: id, Kind: kindOf(id), h: h})
		}
		out[job] = cfgs
	}
	return out
}

func run(c *core.Case) {
	r := c.Rng
	h := &harness{c: c, cur: map[string]*inc{}, incSeq: map[string]int{}}
	h.cond = sync.NewCond(&h.mu)
	ctl := sched.Install()
	defer ctl.Uninstall()
	ctl.OnHit(func(site string, _ *sched.Actor) {
		switch site {
		case "discovery.sender.cycle":
			h.mu.Lock()
			h.cycles++
			h.cond.Broadcast()
			h.mu.Unlock()
		case "discovery.updater.applied":
			h.mu.Lock()
			h.applied++
			h.mu.Unlock()
		}
	})
	defer ctl.OnHit(nil)

	reg := prometheus.NewRegistry()
	sdm, err := discovery.CreateAndRegisterSDMetrics(reg)
	core.Must(err, "CreateAndRegisterSDMetrics")
	ctx, cancel := context.WithCancel(context.Background())
	mgr := discovery.NewManager(ctx, promslog.NewNopLogger(), reg, sdm, discovery.Updatert(10*time.Millisecond))
	if mgr == nil {
		panic(core.HarnessError{Msg: "discovery.NewManager returned nil"})
	}
	runDone := make(chan struct{})
	go func() { mgr.Run(); close(runDone) }()
	tick := make(chan struct{})
	go func() { // wakes waiters so that the watchdog is evaluated
		t := time.NewTicker(50 * time.Millisecond)
		defer t.Stop()
		for {
			select {
			case <-t.C:
				h.mu.Lock()
				h.cond.Broadcast()
				h.mu.Unlock()
			case <-tick:
				return
			}
		}
	}()
	consumerDone := make(chan struct{})
	go func() { // the consumer of SyncCh
		defer close(consumerDone)
		for {
			h.mu.Lock()
			for h.paused {
				h.cond.Wait()
			}
			h.mu.Unlock()
			m, ok := <-mgr.SyncCh()
			h.mu.Lock()
			if !ok {
				h.closed = true
				h.cond.Broadcast()
				h.mu.Unlock()
				return
			}
			h.last = renderMap(m)
			h.nDeliv++
			h.cond.Broadcast()
			h.mu.Unlock()
		}
	}()
	defer func() {
		h.mu.Lock()
		h.paused = false
		h.cond.Broadcast()
		h.mu.Unlock()
		cancel()
		select {
		case <-runDone:
		case <-time.After(watchdog):
			c.Inconclusive("watchdog: Manager.Run did not return after cancellation")
		}
		select {
		case <-consumerDone:
		case <-time.After(watchdog):
			c.Inconclusive("watchdog: SyncCh was not closed after cancellation")
		}
		close(tick)
	}()

	// ---- the generated stream ------------------------------------------------------------
	var (
		cfg           *genCfg
		reloads       int
		pushedLive    int
		sawEmptied    bool
		pausedUpdates bool
		nilGroups     int
	)
	apply := func(next *genCfg) {
		h.logf("reload %s", next)
		core.Must(mgr.ApplyConfig(next.build(h)), "ApplyConfig")
		// providers no job refers to any more are cancelled by the reload
		ref := next.referenced()
		h.mu.Lock()
		for id := range h.cur {
			if !ref[id] {
				delete(h.cur, id)
			}
		}
		h.mu.Unlock()
		cfg = next
	}
	push := func(id string) {
		h.mu.Lock()
		i := h.cur[id]
		paused := h.paused
		h.mu.Unlock()
		if i == nil || i.kind != kindDyn || len(i.inbox) > 500 {
			return
		}
		tgs := genUpdate(r, id)
		for _, tg := range tgs {
			if tg == nil {
				nilGroups++
			}
		}
		if fold(i.state, tgs) {
			sawEmptied = true
		}
		i.lastReal = tgs
		i.realCount++
		i.pushed++
		i.inbox <- update{tgs: tgs}
		pushedLive++
		if paused {
			pausedUpdates = true
		}
		h.logf("update %s#%d %s", id, i.n, showUpdate(tgs))
	}
	apply(genConfig(r, nil))
	steps := 8 + r.IntN(23)
	if c.Tier == core.Thorough {
		steps += r.IntN(20)
	}
	for s := 0; s < steps; s++ {
		switch x := r.IntN(100); {
		case x < 40:
			push(pool[r.IntN(4)].id)
		case x < 52:
			for k := 2 + r.IntN(5); k > 0; k-- {
				push(pool[r.IntN(4)].id)
			}
		case x < 66:
			apply(genConfig(r, cfg))
			reloads++
		case x < 82:
			k := 1 + r.IntN(3)
			h.logf("wait %d cycles", k)
			if !h.waitCycles(k) {
				return
			}
		case x < 92:
			h.mu.Lock()
			h.paused = true
			h.mu.Unlock()
			h.logf("consumer pauses")
		default:
			h.mu.Lock()
			h.paused = false
			h.cond.Broadcast()
			h.mu.Unlock()
			h.logf("consumer resumes")
		}
	}

	// ---- convergence ---------------------------------------------------------------------
	settle := func() bool {
		// a marker (nil group: ignored by the fold) behind the last update of every live open
		// provider; once the updater has taken it, everything before it has been applied
		h.mu.Lock()
		var live []*inc
		for _, i := range h.cur {
			live = append(live, i)
		}
		h.mu.Unlock()
		sort.Slice(live, func(a, b int) bool { return live[a].id < live[b].id })
		for _, i := range live {
			if i.kind == kindDyn {
				i.inbox <- update{tgs: []*targetgroup.Group{nil}, marker: true}
				i.pushed++
			}
		}
		for _, i := range live {
			if !h.waitFor(fmt.Sprintf("updater of %s#%d takes all %d updates", i.id, i.n, i.pushed), func() bool { return i.forwarded >= i.pushed }) {
				return false
			}
		}
		return true
	}
	expected := func() map[string][]string {
		out := map[string][]string{}
		h.mu.Lock()
		defer h.mu.Unlock()
		for job, ids := range cfg.jobs {
			l := []string{}
			seen := map[string]bool{}
			for _, id := range ids {
				if seen[id] { // equal configurations are one provider
					continue
				}
				seen[id] = true
				if i := h.cur[id]; i != nil {
					for _, tg := range i.state {
						l = append(l, renderGroup(tg))
					}
				}
			}
			sort.Strings(l)
			out[job] = l
		}
		return out
	}
	if !settle() {
		return
	}
	// often the consumer is still paused while the sender keeps cycling: the update must survive
	if r.IntN(2) == 0 {
		h.mu.Lock()
		wasPaused := h.paused
		h.mu.Unlock()
		if wasPaused {
			k := 1 + r.IntN(5)
			h.logf("consumer stays paused for %d cycles after the last update", k)
			if !h.waitCycles(k) {
				return
			}
		}
	}
	h.mu.Lock()
	h.paused = false
	h.cond.Broadcast()
	h.mu.Unlock()
	h.logf("inputs stopped, consumer reads; waiting %d sender cycles", progressBound)
	if !h.waitCycles(progressBound) {
		return
	}
	want := expected()
	h.mu.Lock()
	got, deliveries := h.last, h.nDeliv
	h.mu.Unlock()
	if !sameRendering(got, want) {
		// probe: repeat the last update of a live provider (no change of the reference state)
		h.mu.Lock()
		var probe *inc
		var ids []string
		for id := range h.cur {
			ids = append(ids, id)
		}
		sort.Strings(ids)
		for _, id := range ids {
			if i := h.cur[id]; i.kind == kindDyn && i.realCount > 0 {
				probe = i
				break
			}
		}
		h.mu.Unlock()
		transcript := strings.Join(tail(h.log, 80), "\n")
		if probe == nil {
			c.Violatef("final-state-mismatch-unprobed", "%d sender cycles after the last update was applied the last delivered map differs from the reference (no live updating provider to repeat an update with)\nexpected:%s\ndelivered (last of %d):%s\nfinal config: %s\n%s", progressBound, showRendering(want), deliveries, showRendering(got), cfg, transcript)
		} else {
			probe.inbox <- update{tgs: probe.lastReal}
			probe.pushed++
			if !settle() || !h.waitCycles(progressBound) {
				return
			}
			h.mu.Lock()
			got2, deliveries2 := h.last, h.nDeliv
			h.mu.Unlock()
			if sameRendering(got2, want) {
				c.Violatef("update-lost-until-next-update", "%d sender cycles after the last update was applied the consumer's last map was stale; repeating the last update of %s#%d made the right map arrive (delivery %d): an update was lost until the next one\nexpected:%s\ndelivered before the repeat (last of %d):%s\nfinal config: %s\n%s", progressBound, probe.id, probe.n, deliveries2, showRendering(want), deliveries, showRendering(got), cfg, transcript)
			} else {
				c.Violatef("wrong-final-state", "the last delivered map differs from the reference fold, also after repeating the last update of %s#%d\nexpected:%s\ndelivered (last of %d):%s\nfinal config: %s\n%s", probe.id, probe.n, showRendering(want), deliveries2, showRendering(got2), cfg, transcript)
			}
		}
	}

	// ---- evidence ------------------------------------------------------------------------
	h.mu.Lock()
	cycles, applied, nInc := h.cycles, h.applied, len(h.all)
	h.mu.Unlock()
	groups, emptyJobs := 0, 0
	for _, l := range want {
		groups += len(l)
		if len(l) == 0 {
			emptyJobs++
		}
	}
	c.Count("sender_cycles", cycles)
	c.Count("updates_applied_by_manager", applied)
	c.Count("updates_pushed_to_live_providers", int64(pushedLive))
	c.Count("maps_delivered", int64(deliveries))
	c.Count("reloads", int64(reloads))
	c.Count("provider_incarnations", int64(nInc))
	c.Count("final_groups", int64(groups))
	c.Count("final_jobs_present_and_empty", int64(emptyJobs))
	c.Count("nil_groups_sent", int64(nilGroups))
	for name, b := range map[string]bool{"reload": reloads > 0, "update_while_consumer_paused": pausedUpdates, "emptied_source": sawEmptied, "job_present_and_empty": emptyJobs > 0, "nil_group": nilGroups > 0} {
		if b {
			c.Seen("features", name)
		}
	}
	if pushedLive >= 3 && deliveries >= 2 && (reloads > 0 || pausedUpdates || sawEmptied) {
		c.Nontrivial(strings.Join(h.log, "|"))
	}
	if c.Idx < 3 {
		c.Sample(map[string]any{"transcript_head": head(h.log, 30), "final_config": cfg.String(), "expected_final_map": want, "deliveries": deliveries, "sender_cycles": cycles})
	}
}

func showUpdate(tgs []*targetgroup.Group) string {
	var parts []string
	for _, tg := range tgs {
		if tg == nil {
			parts = append(parts, "<nil>")
			continue
		}
		parts = append(parts, renderGroup(tg))
	}
	return "[" + strings.Join(parts, " ; ") + "]"
}

func tail(l []string, n int) []string {
	if len(l) > n {
		return l[len(l)-n:]
	}
	return l
}

func head(l []string, n int) []string {
	if len(l) > n {
		return l[:n]
	}
	return l
}
