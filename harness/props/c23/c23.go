// Package c23: restart from a memory snapshot equals restart from the WAL.
//
// One case = one tsdbhist history with snapshot-on-shutdown enabled.  After the final clean Close
// the directory is copied: copy A is opened as it is (snapshot + WAL tail), copy B with the
// chunk_snapshot.* directories removed (WAL only).  Both must return the same samples, and both
// must satisfy the history's reference model (a model-only clone of the executor, advanced by one
// restart, is attached to each copy).  One generated variant per case (snapshot bytes damaged,
// head-chunk file damaged, or an outdated snapshot in an unclean-shutdown image) must still
// satisfy the model.
package c23

import (
	"context"
	"fmt"
	"io"
	"io/fs"
	"log/slog"
	"math"
	"math/rand/v2"
	"os"
	"path/filepath"
	"sort"
	"strings"

	"github.com/prometheus/prometheus/model/exemplar"
	"github.com/prometheus/prometheus/model/labels"
	"github.com/prometheus/prometheus/storage"
	"github.com/prometheus/prometheus/tsdb"
	"github.com/prometheus/prometheus/tsdb/record"
	"github.com/prometheus/prometheus/tsdb/tombstones"
	"github.com/prometheus/prometheus/tsdb/wlog"

	"verif/internal/core"
	"verif/internal/tsdbhist"
	"verif/internal/tsdbx"
)

const snapPrefix = "chunk_snapshot."

func init() {
	core.Register(&core.Prop{
		ID:        "C23",
		Title:     "Restart from a memory snapshot equals restart from the WAL",
		Level:     "exploration",
		Technique: "differential runtime monitor (same directory reopened with and without the snapshot) plus reference-model check of every reopened copy; generated damage to snapshot and head-chunk files",
		LevelText: "A generated history (in-order and out-of-order floats and native histograms, deletes, compactions, restarts, exemplars in every second case) runs on a real DB with EnableMemorySnapshotOnShutdown and ends in a clean Close. The directory is copied; copy A is reopened unchanged, copy B after removing every chunk_snapshot.* directory. Required: the sample querier and the chunk querier (decoded) over the full range return identical series and samples from A and B; each copy satisfies the history's reference model (tsdbhist.Exec.Check on a model clone advanced by one restart: full range, a random range, a block-boundary range); the exemplars returned by A are among the exemplars the DB returned immediately before the shutdown. One variant per case must also satisfy the model: (a) a non-zero byte of the newest snapshot's segment file flipped, (b) a non-zero byte of a head-chunk file (behind its header) flipped with the snapshot intact, (c) an unclean-shutdown image (directory copied while the idle DB is open) that holds the outdated snapshot of the previous clean shutdown plus a longer WAL, opened with and without that snapshot. Held on the observed histories and damage points only.",
		LevelNote: "The statement's 'WAL behind the snapshot' variant is not generated: removing WAL segments also removes acknowledged data, so 'equal to the model' is not a sound expectation there; the outdated-snapshot image (c) replaces it. Damage is restricted to single-byte flips of non-zero bytes (truncations and zeroed ranges can be indistinguishable from a shorter valid file). The model's allowed-not-required classes (known findings of C01) are tolerated by Exec.Check; the A=B comparison is exact. The exemplar law is the statement's subset law; it is vacuous when exemplar storage is off (odd case indexes).",
		DesignRef: "DESIGN.md §5 C23",
		Rule:      "case = one history of 15–70 ops; non-trivial iff the final Close left a snapshot directory, the model holds ≥1 sample, ≥1 series was in the head at shutdown and copy A and copy B were both opened and compared; distinct by (config, op list, variant)",
		Assumptions: []string{
			"the admission decision of an append is Append's return value (tsdbhist model)",
			"cp of an idle single-threaded DB's directory is a valid unclean-shutdown image",
		},
		Cases: func(variant string, tier core.Tier) int {
			if variant != "default" {
				return 0
			}
			if tier == core.Thorough {
				return 2500
			}
			return 100
		},
		Run: run,
		MinNontrivial: func(t core.Tier) int {
			if t == core.Thorough {
				return 1200
			}
			return 50
		},
		CaseTimeoutSec: 300,
	})
}

func copyDir(src, dst string, skip func(rel string) bool) error {
	return filepath.WalkDir(src, func(p string, d fs.DirEntry, err error) error {
		if err != nil {
			return err
		}
		rel, _ := filepath.Rel(src, p)
		if skip != nil && rel != "." && skip(rel) {
			if d.IsDir() {
				return filepath.SkipDir
			}
			return nil
		}
		to := filepath.Join(dst, rel)
		if d.IsDir() {
			return os.MkdirAll(to, 0o777)
		}
		in, err := os.Open(p)
		if err != nil {
			return err
		}
		defer in.Close()
		out, err := os.Create(to)
		if err != nil {
			return err
		}
		if _, err := io.Copy(out, in); err != nil {
			out.Close()
			return err
		}
		return out.Close()
	})
}

func isSnapshot(rel string) bool { return strings.HasPrefix(rel, snapPrefix) }

// snapshots lists the chunk_snapshot.* directories (not *.tmp) of dir.
func snapshots(dir string) []string {
	es, _ := os.ReadDir(dir)
	var out []string
	for _, e := range es {
		if e.IsDir() && strings.HasPrefix(e.Name(), snapPrefix) && !strings.HasSuffix(e.Name(), ".tmp") {
			out = append(out, e.Name())
		}
	}
	sort.Strings(out)
	return out
}

// flipByte flips one bit of a randomly chosen non-zero byte at offset ≥ from; false if none.
func flipByte(r *rand.Rand, path string, from int) (int, bool) {
	b, err := os.ReadFile(path)
	if err != nil {
		return 0, false
	}
	var cand []int
	for i := from; i < len(b); i++ {
		if b[i] != 0 {
			cand = append(cand, i)
		}
	}
	if len(cand) == 0 {
		return 0, false
	}
	i := cand[r.IntN(len(cand))]
	b[i] ^= 1 << uint(r.IntN(8))
	if err := os.WriteFile(path, b, 0o666); err != nil {
		return 0, false
	}
	return i, true
}

// headTombstones copies the head's tombstones (entries with Mint > Maxt are dropped).
func headTombstones(e *tsdbhist.Exec) map[storage.SeriesRef][]tombstones.Interval {
	out := map[storage.SeriesRef][]tombstones.Interval{}
	tr, err := e.DB.Head().Tombstones()
	if err != nil {
		return out
	}
	tr.Iter(func(ref storage.SeriesRef, ivs tombstones.Intervals) error {
		for _, iv := range ivs {
			if iv.Mint <= iv.Maxt {
				out[ref] = append(out[ref], iv)
			}
		}
		return nil
	})
	return out
}

// covers: every interval of want lies inside an interval of have (same series ref).
func covers(have, want map[storage.SeriesRef][]tombstones.Interval) bool {
	for ref, ws := range want {
		for _, w := range ws {
			ok := false
			for _, h := range have[ref] {
				if h.Mint <= w.Mint && w.Maxt <= h.Maxt {
					ok = true
					break
				}
			}
			if !ok {
				return false
			}
		}
	}
	return true
}

type exKey struct{ series, labels, val string }

func exemplarSet(e *tsdbhist.Exec) (map[exKey]bool, error) {
	q, err := e.DB.ExemplarQuerier(context.Background())
	if err != nil {
		return nil, err
	}
	res, err := q.Select(math.MinInt64, math.MaxInt64, []*labels.Matcher{tsdbx.MatchAll()})
	if err != nil {
		return nil, err
	}
	out := map[exKey]bool{}
	for _, qr := range res {
		for _, x := range qr.Exemplars {
			out[exKey{qr.SeriesLabels.String(), x.Labels.String(), fmt.Sprintf("%016x@%d", math.Float64bits(x.Value), x.Ts)}] = true
		}
	}
	return out, nil
}

type opened struct {
	tombs         map[storage.SeriesRef][]tombstones.Interval // head tombstones after the reopen
	sample, chunk tsdbx.Dump
	exemplars     map[exKey]bool
	modelDiff     string
	diag          string
	tolerated     int
}

// reopen attaches a model clone (advanced by one restart) to a copy, checks it against the model
// and returns its full-range dumps.
func reopen(c *core.Case, e *tsdbhist.Exec, dir string, exemplars bool) (*opened, error) {
	x := e.CloneModel(dir)
	x.ReplayModel(tsdbhist.Op{Kind: "restart"}, tsdbhist.AckRec{})
	if err := x.OpenDB(); err != nil {
		return nil, err
	}
	defer x.Close()
	o := &opened{tombs: headTombstones(x)}
	o.modelDiff = x.Check(c.SubRng("ranges"))
	o.diag = x.Diagnose()
	o.tolerated = x.ZombiesObserved + x.Resurrected + x.GhostsMissing + x.OrphansMissing + x.LostBehindOOOMerge
	q, err := x.DB.Querier(math.MinInt64, math.MaxInt64)
	if err != nil {
		return nil, fmt.Errorf("Querier: %w", err)
	}
	o.sample, _, err = tsdbx.DumpQuerier(q)
	q.Close()
	if err != nil {
		return nil, fmt.Errorf("Select: %w", err)
	}
	cq, err := x.DB.ChunkQuerier(math.MinInt64, math.MaxInt64)
	if err != nil {
		return nil, fmt.Errorf("ChunkQuerier: %w", err)
	}
	o.chunk, _, err = tsdbx.DumpChunkQuerier(cq)
	cq.Close()
	if err != nil {
		return nil, fmt.Errorf("chunk Select: %w", err)
	}
	if exemplars {
		if o.exemplars, err = exemplarSet(x); err != nil {
			return nil, fmt.Errorf("exemplar Select: %w", err)
		}
	}
	return o, nil
}

func run(c *core.Case) {
	r := c.Rng
	cfg := tsdbhist.GenConfig(r)
	cfg.Snapshot = true
	cfg.Exemplars = c.Idx%2 == 0
	src := c.TempDir()
	e, err := tsdbhist.NewExec(src, cfg)
	core.Must(err, "open fresh db")
	defer e.Close()
	g := tsdbhist.NewGen(r, cfg)
	g.WRestart = 6
	nops := 15 + r.IntN(56)
	variant := []string{"damaged-snapshot", "damaged-head-chunks", "outdated-snapshot-unclean-image"}[r.IntN(3)]
	exCounter := 0
	exAccepted := 0
	addExemplars := func() {
		app := e.DB.Appender(context.Background())
		for _, si := range r.Perm(cfg.NumSeries)[:1+r.IntN(cfg.NumSeries)] {
			exCounter++
			_, err := app.AppendExemplar(0, e.Series[si], exemplar.Exemplar{Labels: labels.FromStrings("trace_id", fmt.Sprint(exCounter)), Value: float64(r.IntN(1000)), Ts: g.Clock, HasTs: true})
			if err == nil {
				exAccepted++
			}
		}
		if err := app.Commit(); err != nil {
			c.Logf("exemplar commit: %v", err)
		}
	}
	// Series refs over the history.  An appender allocates lastSeriesID+1, so a ref that first
	// shows up right after an APPEND step must never have been seen before; if it was, the ref
	// was reissued (the signature of a known finding, see FINDINGS.txt).
	everOwners := map[uint64]map[string]bool{} // ref → label sets that ever held it
	prevRefs := map[uint64]bool{}
	reissuedRefs := map[uint64]bool{}
	trackRefs := func(afterAppend bool) {
		cur := e.DB.Head().VerifSeriesRefs()
		now := map[uint64]bool{}
		for ref, ls := range cur {
			now[ref] = true
			if afterAppend && !prevRefs[ref] && everOwners[ref] != nil {
				reissuedRefs[ref] = true
			}
			if everOwners[ref] == nil {
				everOwners[ref] = map[string]bool{}
			}
			everOwners[ref][ls.String()] = true
		}
		prevRefs = now
	}
	reissued := func() (desc []string, involved map[string]bool) {
		involved = map[string]bool{}
		var refs []uint64
		for ref := range reissuedRefs {
			refs = append(refs, ref)
		}
		sort.Slice(refs, func(i, j int) bool { return refs[i] < refs[j] })
		for _, ref := range refs {
			var os []string
			for o := range everOwners[ref] {
				os = append(os, o)
				involved[o] = true
			}
			sort.Strings(os)
			desc = append(desc, fmt.Sprintf("ref %d: %s", ref, strings.Join(os, " and ")))
		}
		return
	}
	// refKind: the narrow kind for a mismatch text that names a series which shared a ref.
	refKind := func(text string) string {
		_, involved := reissued()
		for s := range involved {
			if strings.Contains(text, "series "+s) {
				return "series-ref-reissued-after-snapshot-restart"
			}
		}
		return ""
	}
	var snaps []string
	witness := func() string {
		h := e.History()
		if len(h) > 3500 {
			h = "… " + h[len(h)-3500:]
		}
		re, _ := reissued()
		return fmt.Sprintf("config {%s}\nsnapshots after Close: %v; variant %s; reissued series refs: %v\nhistory: %s", cfg, snaps, variant, re, h)
	}
	var unclean string // image for the outdated-snapshot variant
	uncleanAt := -1
	if variant == "outdated-snapshot-unclean-image" {
		uncleanAt = nops/2 + r.IntN(nops/2+1)
	}
	var uncleanModel *tsdbhist.Exec
	var uncleanTombs map[storage.SeriesRef][]tombstones.Interval
	restartsBeforeImage := 0
	for i := 0; i < nops; i++ {
		op := g.Next()
		c.Logf("op %d: %s", i, op)
		if c.Verbose && op.Kind == "restart" {
			c.Logf("state before restart:\n%s", e.Diagnose())
		}
		if err := e.Apply(op); err != nil {
			c.Count("histories_aborted_by_failed_operation", 1) // C01's subject
			c.Logf("operation failed: %v", err)
			return
		}
		if e.DB == nil {
			return
		}
		trackRefs(op.Kind == "append")
		// keep the model's allowed-not-required bookkeeping current (it learns from what it sees)
		if op.Kind != "append" || r.IntN(3) == 0 {
			if diff := e.Check(r); diff != "" {
				kind := "history-model-mismatch:" + classify(diff)
				if k := refKind(diff); k != "" {
					kind = k
				}
				c.Violatef(kind, "during the history, after step %d (%s): %s\n%s\nstate:\n%s", i, op, diff, witness(), e.Diagnose())
				return
			}
		}
		if cfg.Exemplars && op.Kind == "append" && !op.Rollback && r.IntN(3) == 0 {
			addExemplars()
		}
		if i == uncleanAt {
			// an idle DB's directory, copied while open: what a crash would leave (all WAL pages are
			// written; nothing is in flight)
			unclean = c.TempDir()
			core.Must(copyDir(src, unclean, nil), "copy dir")
			uncleanModel = e.CloneModel(unclean)
			uncleanTombs = headTombstones(e)
			restartsBeforeImage = e.Restarts
		}
	}
	var exBefore map[exKey]bool
	if cfg.Exemplars {
		exBefore, err = exemplarSet(e)
		core.Must(err, "exemplar query before shutdown")
	}
	headSeries := e.DB.Head().NumSeries()
	liveTombs := headTombstones(e)
	if c.Verbose {
		c.Logf("state before the final Close:\n%s", e.Diagnose())
	}
	if err := e.Close(); err != nil {
		c.Count("histories_aborted_by_failed_operation", 1)
		c.Logf("Close failed: %v", err)
		return
	}
	snaps = snapshots(src)
	c.Count("snapshot_dirs_after_close", int64(len(snaps)))
	if re, _ := reissued(); len(re) > 0 {
		c.Count("histories_with_reissued_series_refs", 1)
	}

	// lossOfNonPositive: the copy opened with a snapshot lacks samples that its WAL-only twin
	// returns, all of them with t <= 0, and returns nothing the twin does not (narrow known kind).
	lossOfNonPositive := func(with, without *opened) (bool, string) {
		if with == nil || without == nil {
			return false, ""
		}
		n := 0
		first := ""
		for k, ss := range without.sample {
			have := map[int64]string{}
			for _, x := range with.sample[k] {
				have[x.T] = x.ValKey()
			}
			for _, x := range ss {
				if v, ok := have[x.T]; ok && v == x.ValKey() {
					continue
				}
				if x.T > 0 {
					return false, ""
				}
				if first == "" {
					first = fmt.Sprintf("%s@%d", k, x.T)
				}
				n++
			}
		}
		for k, ss := range with.sample {
			have := map[int64]string{}
			for _, x := range without.sample[k] {
				have[x.T] = x.ValKey()
			}
			for _, x := range ss {
				if v, ok := have[x.T]; !ok || v != x.ValKey() {
					return false, ""
				}
			}
		}
		return n > 0, fmt.Sprintf("%d samples with t <= 0 (e.g. %s) are returned by the WAL-only twin but not by the copy opened with the snapshot; nothing else differs", n, first)
	}
	const nonPosKind = "snapshot-restart-drops-wal-samples-with-nonpositive-timestamps"
	// report files what one reopened copy showed; twin is the WAL-only copy of the same image.
	report := func(tag, where string, o *opened, err error, twin *opened, usesSnapshot bool) {
		switch {
		case err != nil:
			kind := "reopen-failed:" + tag
			if k := refKind(err.Error()); k != "" {
				kind = k
			}
			c.Violatef(kind, "%s: reopen failed: %v\n%s", where, err, witness())
		case o.modelDiff != "":
			kind := "model-mismatch:" + tag + ":" + classify(o.modelDiff)
			why := ""
			if ok, txt := lossOfNonPositive(o, twin); usesSnapshot && ok && classify(o.modelDiff) == "missing-sample" {
				kind, why = nonPosKind, "\nclassification: "+txt
			} else if k := refKind(o.modelDiff); k != "" {
				kind = k
			}
			c.Violatef(kind, "%s: %s%s\n%s\nstate:\n%s", where, o.modelDiff, why, witness(), o.diag)
		}
	}

	// ---- A (with snapshot) and B (WAL only)
	dirA, dirB := c.TempDir(), c.TempDir()
	core.Must(copyDir(src, dirA, nil), "copy dir")
	core.Must(copyDir(src, dirB, isSnapshot), "copy dir")
	a, errA := reopen(c, e, dirA, cfg.Exemplars)
	b, errB := reopen(c, e, dirB, cfg.Exemplars)
	report("without-snapshot", "copy reopened WITHOUT the snapshot", b, errB, nil, false)
	report("with-snapshot", "copy reopened WITH the snapshot", a, errA, b, true)
	compared := false
	if errA == nil && errB == nil {
		compared = true
		d := tsdbx.EqualDumps(a.sample, b.sample)
		what := "sample querier"
		if d == "" {
			d = tsdbx.EqualDumps(a.chunk, b.chunk)
			what = "chunk querier"
		}
		if d != "" {
			kind := "snapshot-vs-wal-mismatch"
			why := ""
			if ok, txt := lossOfNonPositive(a, b); ok {
				kind, why = nonPosKind, "\nclassification: "+txt
			} else if ok, txt := onlyTombstonedDiffer(e, a.sample, b.sample); ok && covers(a.tombs, liveTombs) {
				kind, why = "head-tombstones-differ-between-snapshot-and-wal-restart", "\nclassification: "+txt
			} else if k := refKind(d); k != "" {
				kind = k
			}
			c.Violatef(kind, "%s, full range, snapshot copy vs WAL-only copy: %s%s\n%s\nstate of the snapshot copy:\n%s\nstate of the WAL-only copy:\n%s", what, d, why, witness(), a.diag, b.diag)
		}
		if cfg.Exemplars {
			n := 0
			for k := range a.exemplars {
				if !exBefore[k] {
					c.Violatef("exemplar-not-stored-before-shutdown", "after the snapshot restart the exemplar %v is returned, but it was not among the %d exemplars returned right before the shutdown\n%s", k, len(exBefore), witness())
					break
				}
				n++
			}
			c.Count("exemplars_before_shutdown", int64(len(exBefore)))
			c.Count("exemplars_restored_from_snapshot", int64(n))
			c.Count("exemplars_accepted", int64(exAccepted))
		}
		c.Count("samples_compared", int64(e.Model.NumSamples()))
		c.Count("model_tolerated_observations", int64(a.tolerated+b.tolerated))
	}

	// ---- one damage / outdated variant
	c.Seen("variant", variant)
	switch variant {
	case "damaged-snapshot":
		if len(snaps) == 0 {
			break
		}
		dir := c.TempDir()
		core.Must(copyDir(src, dir, nil), "copy dir")
		sd := filepath.Join(dir, snaps[len(snaps)-1])
		files, _ := os.ReadDir(sd)
		if len(files) == 0 {
			break
		}
		f := files[r.IntN(len(files))].Name()
		off, ok := flipByte(r, filepath.Join(sd, f), 0)
		if !ok {
			break
		}
		c.Count("damage_points", 1)
		v, err := reopen(c, e, dir, false)
		report("damaged-snapshot", fmt.Sprintf("%s/%s byte %d flipped", snaps[len(snaps)-1], f, off), v, err, b, true)
	case "damaged-head-chunks":
		dir := c.TempDir()
		core.Must(copyDir(src, dir, nil), "copy dir")
		files, _ := os.ReadDir(filepath.Join(dir, "chunks_head"))
		if len(files) == 0 {
			break
		}
		f := files[r.IntN(len(files))].Name()
		off, ok := flipByte(r, filepath.Join(dir, "chunks_head", f), 8)
		if !ok {
			break
		}
		c.Count("damage_points", 1)
		v, err := reopen(c, e, dir, false)
		report("damaged-head-chunks", fmt.Sprintf("chunks_head/%s byte %d flipped", f, off), v, err, b, true)
	case "outdated-snapshot-unclean-image":
		if unclean == "" {
			break
		}
		old := snapshots(unclean)
		c.Count("unclean_images", 1)
		if len(old) > 0 && restartsBeforeImage > 0 {
			c.Count("unclean_images_with_outdated_snapshot", 1)
		}
		if c.Verbose {
			dbg := c.TempDir()
			core.Must(copyDir(unclean, dbg, nil), "copy dir")
			c.Logf("unclean image: %s", tsdbhist.DiskSummary(dbg))
			debugOpen(dbg, cfg)
		}
		noSnap := c.TempDir()
		core.Must(copyDir(unclean, noSnap, isSnapshot), "copy dir")
		where := fmt.Sprintf("unclean-shutdown image taken after step %d (snapshots in it: %v)", uncleanAt, old)
		w, errW := reopen(c, uncleanModel, noSnap, false)
		report("outdated-snapshot-removed", where+", snapshot removed", w, errW, nil, false)
		v, errV := reopen(c, uncleanModel, unclean, false)
		report("outdated-snapshot", where+", opened with the outdated snapshot", v, errV, w, true)
		if errV == nil && errW == nil {
			if d := tsdbx.EqualDumps(v.sample, w.sample); d != "" && v.modelDiff == "" && w.modelDiff == "" {
				kind := "snapshot-vs-wal-mismatch"
				why := ""
				if ok, txt := onlyTombstonedDiffer(uncleanModel, v.sample, w.sample); ok && covers(v.tombs, uncleanTombs) {
					kind, why = "head-tombstones-differ-between-snapshot-and-wal-restart", "\nclassification: "+txt
				} else if k := refKind(d); k != "" {
					kind = k
				}
				c.Violatef(kind, "%s: with vs without the outdated snapshot: %s%s\n%s", where, d, why, witness())
			}
		}
	}
	if len(snaps) > 0 && e.Model.NumSamples() > 0 && headSeries > 0 && compared {
		c.Nontrivial(cfg.String(), e.History(), variant)
	}
	if c.Idx < 2 {
		c.Sample(map[string]any{"config": cfg.String(), "history": witness(), "model_samples": e.Model.NumSamples(), "head_series_at_shutdown": headSeries, "variant": variant})
	}
}

// debugOpen opens a directory with a logging DB (replay aid only; no verdict depends on it).
func debugOpen(dir string, cfg tsdbhist.Config) {
	if segs, err := os.ReadDir(filepath.Join(dir, "wal")); err == nil {
		for _, sg := range segs {
			fi, _ := sg.Info()
			fmt.Fprintf(os.Stderr, "wal/%s %d bytes\n", sg.Name(), fi.Size())
			if sg.IsDir() {
				continue
			}
			seg, err := wlog.OpenReadSegment(filepath.Join(dir, "wal", sg.Name()))
			if err != nil {
				continue
			}
			rd := wlog.NewReader(wlog.NewSegmentBufReader(seg))
			dec := record.NewDecoder(labels.NewSymbolTable(), tsdbx.NopLogger())
			for rd.Next() {
				rec := rd.Record()
				switch dec.Type(rec) {
				case record.Series:
					ss, _ := dec.Series(rec, nil)
					for _, x := range ss {
						fmt.Fprintf(os.Stderr, "  series ref=%d %s\n", x.Ref, x.Labels)
					}
				case record.Samples, record.SamplesV2:
					ss, _ := dec.Samples(rec, nil)
					for _, x := range ss {
						fmt.Fprintf(os.Stderr, "  sample ref=%d t=%d\n", x.Ref, x.T)
					}
				default:
					fmt.Fprintf(os.Stderr, "  record type %v\n", dec.Type(rec))
				}
			}
			fmt.Fprintf(os.Stderr, "  err=%v\n", rd.Err())
			seg.Close()
		}
	}
	lg := slog.New(slog.NewTextHandler(os.Stderr, &slog.HandlerOptions{Level: slog.LevelDebug}))
	db, err := tsdb.Open(dir, lg, nil, cfg.Options(), nil)
	if err != nil {
		fmt.Fprintln(os.Stderr, "debug open:", err)
		return
	}
	db.DisableCompactions()
	if cq, err := db.ChunkQuerier(math.MinInt64, math.MaxInt64); err == nil {
		d, metas, err := tsdbx.DumpChunkQuerier(cq)
		cq.Close()
		fmt.Fprintf(os.Stderr, "debug chunk dump err=%v\n%s\nmetas: %v\n", err, d.Brief(), metas)
	}
	fmt.Fprintf(os.Stderr, "recount: %+v\n", db.Head().VerifRecount())
	db.Close()
}

// onlyTombstonedDiffer: every sample on which the two dumps differ is governed by a head
// tombstone: it had been removed by a DB.Delete (in the model executor's DeletedVals with that
// value, not in the model), or it was appended out-of-order into a range deleted earlier for its
// series (the executor's Ghosts).
func onlyTombstonedDiffer(e *tsdbhist.Exec, a, b tsdbx.Dump) (bool, string) {
	n := 0
	first := ""
	oneWay := func(x, y tsdbx.Dump, side string) bool {
		for k, ss := range x {
			have := map[int64]string{}
			for _, s := range y[k] {
				have[s.T] = s.ValKey()
			}
			for _, s := range ss {
				if v, ok := have[s.T]; ok && v == s.ValKey() {
					continue
				}
				deleted := e.Model[k][s.T] == nil && e.DeletedVals[k][s.T][s.ValKey()]
				ghost := e.Model[k][s.T] != nil && e.Ghosts[k][s.T]
				if !deleted && !ghost {
					return false
				}
				if first == "" {
					first = fmt.Sprintf("%s@%d only in the %s copy", k, s.T, side)
				}
				n++
			}
		}
		return true
	}
	if !oneWay(a, b, "snapshot") || !oneWay(b, a, "WAL-only") || n == 0 {
		return false, ""
	}
	return true, fmt.Sprintf("all %d differing samples had been deleted with DB.Delete or were appended out-of-order into a range deleted earlier for their series (e.g. %s): the two restarts hold different head tombstones (the running head truncates them with the head and snapshots what is left, WAL replay re-reads all tombstone records)", n, first)
}

func classify(diff string) string {
	switch {
	case strings.Contains(diff, "missing sample"):
		return "missing-sample"
	case strings.Contains(diff, "unexpected sample"):
		return "unexpected-sample"
	case strings.Contains(diff, "wrong value"):
		return "wrong-value"
	case strings.Contains(diff, "not strictly increasing"):
		return "duplicate-or-disorder"
	}
	return "query-error"
}
