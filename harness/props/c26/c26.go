// Package c26: PromQL print/parse round trip under all parser option combinations, and parser totality.
package c26

import (
	"errors"
	"fmt"
	"runtime"
	"sort"
	"strings"

	"github.com/prometheus/prometheus/promql/parser"

	"verif/internal/core"
	"verif/internal/pqgen"
)

func init() {
	core.Register(&core.Prop{
		ID:        "C26",
		Title:     "PromQL expressions print to text that parses back unchanged; the parser never fails internally",
		Level:     "exploration",
		Technique: "round-trip identity monitor (parse → String/Prettify → parse, structural AST comparison) under all 16 parser.Options combinations, plus totality monitor on mutated / random input",
		LevelText: "Queries are generated as text by an independent typed generator (all node kinds of the statement, lexical variety: comments, keyword case, quoting styles, UTF-8 and keyword-like names, hex/exponent/Inf/NaN/duration numbers, precedence-sensitive unary minus). Under each of the 16 option combinations a text the parser accepts gives e1; String(e1) must parse (same options) to a structurally equal e2 with String(e2)==String(e1), and Prettify(e1) must parse to an expression equal to e1. Every input (generated queries, single-edit mutants, token soups, random bytes) must yield an expression or an error that is not parser.ErrUnexpected, without a panic escaping. Held on the observed inputs only.",
		LevelNote: "Trusted: the harness's structural comparison (positions ignored, NaN literals equal, nil and empty label lists equal, matcher order ignored). e1 is always a parser output, so generator artefacts cannot cause alarms. Reduction w.r.t. the plan: that feature-gated syntax is rejected when its flag is off is only counted (gated_* counters), not judged, because the property statement does not demand it; the stderr scan for 'parser panic' is replaced by the equivalent errors.Is(err, parser.ErrUnexpected) test.",
		DesignRef: "DESIGN.md §5 C26",
		Rule:      "case = batch of generated queries (10 quick / 50 thorough) and totality strings (25 / 150); a query is non-trivial iff at least one option combination accepted it and the full round trip (String, re-parse, compare, re-print, Prettify, re-parse, compare) was executed; distinct by query text",
		Assumptions: []string{
			"structural equality ignores source positions and evaluation-time fields",
		},
		Cases: func(variant string, tier core.Tier) int {
			if variant != "default" {
				return 0
			}
			if tier == core.Thorough {
				return 20000
			}
			return 2000
		},
		Run: run,
		MinNontrivial: func(t core.Tier) int {
			if t == core.Thorough {
				return 300000
			}
			return 6000
		},
		CaseTimeoutSec: 300,
	})
}

var combos = pqgen.AllFeatureCombos()
var parsers = func() []parser.Parser {
	out := make([]parser.Parser, len(combos))
	for i, f := range combos {
		out[i] = parser.NewParser(f.Options())
	}
	return out
}()

// guarded runs f (a call into the repository) and converts a panic into a description.
func guarded(f func()) (panicked string) {
	defer func() {
		if r := recover(); r != nil {
			st := make([]byte, 16<<10)
			st = st[:runtime.Stack(st, false)]
			panicked = fmt.Sprintf("%v\n%s", r, core.TrimStack(string(st), 30))
		}
	}()
	f()
	return ""
}

func parse(c *core.Case, ci int, text, what string) (e parser.Expr, err error, ok bool) {
	if p := guarded(func() { e, err = parsers[ci].ParseExpr(text) }); p != "" {
		c.Violatef("panic-in-parse", "ParseExpr panicked (%s, options %s) on %q: %s", what, combos[ci], text, p)
		return nil, nil, false
	}
	if err != nil && errors.Is(err, parser.ErrUnexpected) {
		c.Violatef("internal-parser-error", "ParseExpr returned parser.ErrUnexpected (%s, options %s) on %q", what, combos[ci], text)
		return nil, err, false
	}
	return e, err, true
}

func clip(s string) string {
	if len(s) > 700 {
		return s[:700] + "…"
	}
	return s
}

// rejectKind / differKind give known failure mechanisms their own narrow kinds: the predicate is
// computed on the accepted expression e1 and on the observed failure.
func rejectKind(base string, tr pqgen.Traits, err error) string {
	switch {
	case tr.EmptySelector && strings.Contains(err.Error(), "trailing commas not allowed"):
		// "{}" (only legal as the second argument of info()) prints as the empty string
		return base + "-empty-selector"
	case tr.OffsetExprBeforeOp:
		// "x offset (1m+1s) @ 5 + y" prints the offset last: "x @ 5.000 offset (1m + 1s) + y", where the
		// operator is taken as a continuation of the duration expression
		return base + "-offset-expr-before-operator"
	case tr.SubMsDuration && strings.Contains(err.Error(), "duration must be greater than 0"):
		// a positive duration below 1ms prints as "0s"
		return base + "-subms-duration"
	}
	return base
}

func differKind(base string, tr pqgen.Traits, e1, e2 parser.Expr, d string) string {
	switch {
	case tr.SubMsDuration && pqgen.DiffTruncMs(e1, e2) == "":
		// the only difference is the truncation of durations to whole milliseconds
		return base + "-subms-duration"
	case tr.OffsetExprBeforeOp:
		return base + "-offset-expr-before-operator"
	case tr.NegZeroDur && strings.Contains(d, "number -0 (8000000000000000, duration=true) vs 0 (0000000000000000, duration=true)"):
		// "-0s" prints as "0s"
		return base + "-negative-zero-duration"
	case tr.PlusInfPowLHS && strings.Contains(d, "*parser.BinaryExpr vs *parser.UnaryExpr"):
		// "+Inf ^ x": the printed sign of +Inf captures the whole power expression
		return base + "-plus-inf-pow-lhs"
	}
	return base
}

// roundTrip checks one text under one option combination; reports whether it was accepted and
// whether a violation was recorded.
func roundTrip(c *core.Case, ci int, text string) (accepted, multiline, bad bool) {
	e1, err, ok := parse(c, ci, text, "generated query")
	if !ok {
		return false, false, true
	}
	if err != nil {
		return false, false, false
	}
	if e1 == nil {
		c.Violatef("nil-expr-without-error", "ParseExpr(%q) (options %s) returned nil expression and nil error", text, combos[ci])
		return false, false, true
	}
	tr := pqgen.Inspect(e1)
	var s1 string
	if p := guarded(func() { s1 = e1.String() }); p != "" {
		c.Violatef("panic-in-print", "String() panicked for the expression parsed from %q (options %s): %s", text, combos[ci], p)
		return true, false, true
	}
	e2, err, ok := parse(c, ci, s1, "printed form")
	if !ok {
		return true, false, true
	}
	if err != nil {
		c.Violatef(rejectKind("reparse-rejected", tr, err), "input %q (options %s) was accepted, its printed form %q is rejected: %v", clip(text), combos[ci], clip(s1), err)
		return true, false, true
	}
	if d := pqgen.Diff(e1, e2); d != "" {
		c.Violatef(differKind("reparse-differs", tr, e1, e2, d), "input %q (options %s) printed as %q parses to a different expression: %s", clip(text), combos[ci], clip(s1), d)
		return true, false, true
	}
	var s2 string
	if p := guarded(func() { s2 = e2.String() }); p != "" {
		c.Violatef("panic-in-print", "String() panicked for the re-parsed expression of %q: %s", s1, p)
		return true, false, true
	}
	if s2 != s1 {
		c.Violatef("reprint-differs", "input %q (options %s): first print %q, second print %q", clip(text), combos[ci], clip(s1), clip(s2))
		bad = true
	}
	var pr string
	if p := guarded(func() { pr = parser.Prettify(e1) }); p != "" {
		c.Violatef("panic-in-prettify", "Prettify panicked for the expression parsed from %q (options %s): %s", text, combos[ci], p)
		return true, false, true
	}
	e3, err, ok := parse(c, ci, pr, "prettified form")
	if !ok {
		return true, false, true
	}
	if err != nil {
		c.Violatef(rejectKind("pretty-rejected", tr, err), "input %q (options %s) was accepted, its prettified form %q is rejected: %v", clip(text), combos[ci], clip(pr), err)
		return true, false, true
	}
	if d := pqgen.Diff(e1, e3); d != "" {
		c.Violatef(differKind("pretty-differs", tr, e1, e3, d), "input %q (options %s) prettified as %q parses to a different expression: %s", clip(text), combos[ci], clip(pr), d)
		bad = true
	}
	return true, strings.Contains(pr, "\n"), bad
}

func run(c *core.Case) {
	r := c.Rng
	nq, ns := 10, 25
	if c.Tier == core.Thorough {
		nq, ns = 50, 150
	}
	var valid []string
	for qi := 0; qi < nq; qi++ {
		cfg := pqgen.Config{
			FloatMetrics:  []string{"m", "up", "http_requests_total", "a", "b", "foo:bar"},
			HistMetrics:   []string{"h", "latency"},
			BucketMetrics: []string{"req_bucket"},
			InfoMetrics:   []string{"target_info"},
			LabelNames:    []string{"job", "instance", "a", "le", "env", "__name__"},
			LabelValues:   []string{"x", "y", "1", "prod", "with space", "q\"uote", "日本", "new\nline", "back\\slash", "a'b", "`"},
			AtTimes:       []int64{0, 1000, 1700000000123, -5000, 1, 1234567, -1500, -250, -1, -999, -1001, -86400123, 999, -9223372036854775000},
			Allow:         pqgen.Features{Experimental: true, DurationExpr: true, Extended: true, Fill: true},
			At:            true, AtStartEnd: true, RangeRefs: true, TimeFuncs: true, NegOffset: true,
			Surface: true, Hostile: true, AnyTopType: true,
			MaxDepth: 1 + r.IntN(6),
		}
		if r.IntN(4) == 0 {
			cfg.IllTyped = 6 + r.IntN(20)
		}
		g := pqgen.New(r, cfg)
		text, _ := g.Query()
		c.Count("queries_generated", 1)
		acc, multi := 0, false
		for ci := range combos {
			ok, ml, bad := roundTrip(c, ci, text)
			if ok {
				acc++
				multi = multi || ml
				c.Count("parses_accepted", 1)
			} else {
				c.Count("parses_rejected", 1)
			}
			// feature gating is recorded, not judged (see LevelNote)
			f, need := combos[ci], g.Needs
			lacks := (need.Experimental && !f.Experimental) || (need.DurationExpr && !f.DurationExpr) || (need.Extended && !f.Extended) || (need.Fill && !f.Fill)
			if lacks {
				if ok {
					c.Count("gated_syntax_accepted_with_flag_off", 1)
					if len(text) < 200 {
						c.Seen("gated_syntax_accepted_examples", text+"   ["+f.String()+" needs "+need.String()+"]")
					}
				} else {
					c.Count("gated_syntax_rejected_with_flag_off", 1)
				}
			}
			if bad {
				break // the same defect would repeat under the other combinations
			}
		}
		c.Seen("accepting_combinations", fmt.Sprint(acc))
		if acc > 0 {
			c.Count("queries_round_tripped", 1)
			if multi {
				c.Count("queries_prettified_multiline", 1)
			}
			if g.Flags["ill_typed"] {
				c.Count("ill_typed_attempts_accepted", 1)
			}
			c.Nontrivial(text)
			valid = append(valid, text)
			for k := range g.Kinds {
				c.Seen("node_kinds_round_tripped", k)
			}
		} else if g.Flags["ill_typed"] {
			c.Count("ill_typed_rejected", 1)
		}
		if c.Idx < 3 && qi < 2 {
			kinds := make([]string, 0, len(g.Kinds))
			for k := range g.Kinds {
				kinds = append(kinds, k)
			}
			sort.Strings(kinds)
			c.Sample(map[string]any{"query": clip(text), "accepting_combinations": acc, "needs": g.Needs.String(), "kinds": kinds})
		}
	}
	// totality
	for i := 0; i < ns; i++ {
		var s, class string
		switch k := r.IntN(10); {
		case k < 5 && len(valid) > 0:
			s = valid[r.IntN(len(valid))]
			for n := 1 + r.IntN(2); n > 0; n-- {
				s = pqgen.Mutate(r, s)
			}
			class = "mutant"
		case k < 8:
			s = pqgen.Soup(r)
			class = "soup"
		default:
			s = pqgen.Bytes(r)
			class = "bytes"
		}
		c.Count("totality_strings", 1)
		anyOK := false
		for ci := range combos {
			e, err, ok := parse(c, ci, s, "totality "+class)
			if !ok {
				break
			}
			if err == nil {
				anyOK = true
				if e == nil {
					c.Violatef("nil-expr-without-error", "ParseExpr(%q) (options %s) returned nil expression and nil error", s, combos[ci])
					break
				}
			}
		}
		if anyOK {
			c.Count("totality_"+class+"_accepted", 1)
		} else {
			c.Count("totality_"+class+"_rejected", 1)
		}
	}
}
