// Package c13: the write-ahead log returns exactly the records written (Reader and LiveReader).
package c13

import (
	"bytes"
	"encoding/binary"
	"errors"
	"fmt"
	"io"
	"math/rand/v2"
	"os"
	"runtime"
	"sort"
	"sync"
	"sync/atomic"
	"time"

	"github.com/prometheus/prometheus/tsdb/wlog"
	"github.com/prometheus/prometheus/util/compression"

	"verif/internal/core"
	"verif/internal/gen"
	"verif/internal/sched"
	"verif/internal/tsdbx"
)

const (
	pageSize     = 32 * 1024 // wlog page size (documented in tsdb/docs/format/wal.md)
	recHdr       = 7         // record fragment header size
	flushSite    = "wlog.flushPage.afterWrite"
	maxLogSize   = 256 << 10 // generator budget of payload bytes per log (controller mode)
	lightLogSize = 96 << 10  // budget of a free-running log (several of them run under -race)
)

func init() {
	core.Register(&core.Prop{
		ID:        "C13",
		Title:     "The write-ahead log returns exactly the records written",
		Level:     "exploration",
		Technique: "sequence-equality monitor on wlog.Reader and wlog.LiveReader against the list of records handed to WL.Log; live reads placed at flush boundaries through the flushPage hook, plus free-running writer/reader goroutines (also on a -race build)",
		LevelText: "Each case writes one generated log with the real wlog.WL (segment sizes 32..256 KiB, compression none/snappy/zstd, record sizes biased to 0, page and segment capacity +-k and beyond a segment, compressible/incompressible/all-zero payloads, batched Log calls, explicit NextSegment, close-and-reopen of the writer). Controller mode (one goroutine): a LiveReader tails the segment files and is pumped until it reports io.EOF after Log calls and inside Log right after partial page flushes (hook wlog.flushPage.afterWrite: after every flush in small logs, at random ones in larger logs); every record it returns must be the next one of the written sequence and must belong to a Log call that has started, any non-EOF error is a violation, and after the last Log returned it must have delivered the whole sequence. Then wlog.Reader over all segments (before and after Close) must return exactly the sequence. Free-running mode: 1-2 writer goroutines and a reader goroutine run unsynchronised; with two writers the oracle is per-writer order plus the multiset (the total order is whatever the WL mutex decided). Held on the observed logs and interleavings only.",
		LevelNote: "Trusted: the file system shows a reader every byte a completed write(2) appended (same host, no crash). Reduction: mid-run the live reader is only required to return a correct prefix (it may report 'no more data yet' at any time); completeness is demanded after the last Log call returned. Segment switching follows the watcher's protocol (a higher-numbered segment exists => drain the current one once more, then move on). Torn or truncated logs are C03/C15.",
		DesignRef: "DESIGN.md §5 C13",
		Rule:      "case = one generated log (4..60 records); non-trivial iff the log has >= 2 page flushes, the live reader was pumped at least once while the writer was ahead (it ended on io.EOF before the last record was logged) and at least one record was split into fragments or a segment switch happened; distinct by (segment size, compression, record sizes, payload classes, op sequence)",
		Cases: func(variant string, tier core.Tier) int {
			if variant == "race" {
				if tier == core.Thorough {
					return 3000
				}
				return 120
			}
			if variant != "default" {
				return 0
			}
			if tier == core.Thorough {
				return 40000
			}
			return 1500
		},
		Variants:       []string{"race"},
		Run:            run,
		MinNontrivial:  func(t core.Tier) int { return 300 },
		CaseTimeoutSec: 180,
	})
}

// ---------------------------------------------------------------- workload

type plan struct {
	segSize  int
	compr    compression.Type
	recs     [][]byte
	classes  []string
	batches  []int        // number of records per Log call, sums to len(recs)
	nextSeg  map[int]bool // explicit NextSegment before batch i
	reopen   map[int]bool // Close + NewSize before batch i
	readProb int          // per-mille probability of a live read at a flush hook
}

func genSize(r *rand.Rand, segSize int, budget int) (int, string) {
	payload := pageSize - recHdr
	segCap := (segSize / pageSize) * payload
	k := r.IntN(19) - 9
	var n int
	var cls string
	switch r.IntN(20) {
	case 0, 1:
		n, cls = 0, "empty"
	case 2, 3, 4, 5:
		n, cls = 1+r.IntN(200), "small"
	case 6, 7:
		n, cls = payload+k, "page±k"
	case 8:
		n, cls = (2+r.IntN(3))*payload+k, "n·page±k"
	case 9:
		// exactly what is left in a page after a small record and its header
		n, cls = payload-recHdr-(1+r.IntN(40))+r.IntN(3)-1, "page-rest"
	case 10:
		n, cls = segCap+k, "segment±k"
	case 11:
		n, cls = segCap+payload+r.IntN(2*payload), ">segment"
	case 12:
		n, cls = pageSize+k, "rawpage±k"
	case 13, 14:
		n, cls = 200+r.IntN(40000), "medium"
	default:
		n, cls = 1+r.IntN(2000), "small"
	}
	if n < 0 {
		n = 0
	}
	if n > budget {
		n, cls = 1+r.IntN(300), "small"
	}
	return n, cls
}

// fill writes a payload class into b (after the identifying prefix).
func fill(r *rand.Rand, b []byte) string {
	switch r.IntN(6) {
	case 0:
		// all zero: looks like page padding
		return "zeros"
	case 1, 2:
		for i := 0; i+8 <= len(b); i += 8 {
			binary.LittleEndian.PutUint64(b[i:], r.Uint64())
		}
		return "random"
	case 3:
		p := 1 + r.IntN(7)
		for i := range b {
			b[i] = byte('a' + i%p)
		}
		return "periodic"
	case 4:
		// half compressible
		for i := range b {
			b[i] = byte(i >> 6)
		}
		for i := 0; i+8 <= len(b)/2; i += 8 {
			binary.LittleEndian.PutUint64(b[i:], r.Uint64())
		}
		return "mixed"
	default:
		for i := range b {
			b[i] = 0xff
		}
		return "ff"
	}
}

// makeRec builds record idx of writer w: [w, idx(8 bytes)] prefix when the size allows.
func makeRec(r *rand.Rand, size int, w byte, idx int) ([]byte, string) {
	b := make([]byte, size)
	body := b
	if size >= 9 {
		body = b[9:]
	}
	cls := fill(r, body)
	if size >= 9 {
		b[0] = w
		binary.BigEndian.PutUint64(b[1:], uint64(idx))
	}
	return b, cls
}

func genPlan(r *rand.Rand, minSize int, light bool) *plan {
	p := &plan{nextSeg: map[int]bool{}, reopen: map[int]bool{}}
	p.segSize = gen.Pick(r, []int{1, 1, 1, 2, 2, 2, 4, 8}) * pageSize
	p.compr = gen.Pick(r, []compression.Type{compression.None, compression.Snappy, compression.Zstd})
	n := 4 + r.IntN(30)
	if r.IntN(4) == 0 {
		n = 30 + r.IntN(31)
	}
	budget := maxLogSize
	if light {
		p.segSize = gen.Pick(r, []int{1, 1, 2}) * pageSize
		p.compr = gen.Pick(r, []compression.Type{compression.None, compression.None, compression.Snappy, compression.Snappy, compression.Zstd})
		budget = lightLogSize
	}
	for i := 0; i < n; i++ {
		sz, cls := genSize(r, p.segSize, budget)
		if sz < minSize {
			sz = minSize + r.IntN(20)
		}
		rec, fc := makeRec(r, sz, 0, i)
		budget -= sz
		p.recs = append(p.recs, rec)
		p.classes = append(p.classes, cls+"/"+fc)
	}
	for left := n; left > 0; {
		k := 1
		if r.IntN(3) == 0 {
			k = 1 + r.IntN(5)
		}
		k = min(k, left)
		p.batches = append(p.batches, k)
		left -= k
	}
	for i := range p.batches {
		if i > 0 && r.IntN(15) == 0 {
			p.nextSeg[i] = true
		}
		if i > 0 && r.IntN(25) == 0 {
			p.reopen[i] = true
		}
	}
	p.readProb = gen.Pick(r, []int{1000, 1000, 500, 100})
	if n > 30 {
		p.readProb = gen.Pick(r, []int{300, 100, 30})
	}
	return p
}

func (p *plan) key() string {
	var sb bytes.Buffer
	fmt.Fprintf(&sb, "%d/%s/%v/", p.segSize, p.compr, p.batches)
	for i, r := range p.recs {
		fmt.Fprintf(&sb, "%d%s,", len(r), p.classes[i])
	}
	fmt.Fprintf(&sb, "%v%v%d", p.nextSeg, p.reopen, p.readProb)
	return sb.String()
}

// ---------------------------------------------------------------- live tailer

// tailer follows the segment files of dir with one LiveReader per segment, the way the WAL
// watcher does: read until io.EOF; when a higher-numbered segment exists the current one is
// complete, so drain it once more and move on.
type tailer struct {
	dir      string
	seg      int
	f        *wlog.Segment
	lr       *wlog.LiveReader
	metrics  *wlog.LiveReaderMetrics
	sawNext  bool
	got      [][]byte // records delivered, in order (copies)
	segsRead int
	dead     bool // a terminal error was reported
}

func newTailer(dir string) *tailer {
	return &tailer{dir: dir, seg: -1, metrics: wlog.NewLiveReaderMetrics(nil)}
}

func (t *tailer) close() {
	if t.f != nil {
		t.f.Close()
		t.f = nil
	}
}

// pump reads until the live reader has nothing more.  onRec is called for every record (the
// slice is only valid during the call).  Returns a non-empty description on a reader error.
func (t *tailer) pump(onRec func(rec []byte) bool) (kind, msg string) {
	if t.dead {
		return "", ""
	}
	for {
		if t.lr == nil {
			first, last, err := wlog.Segments(t.dir)
			if err != nil {
				core.Must(err, "list segments")
			}
			if last < 0 {
				return "", ""
			}
			if t.seg < 0 {
				t.seg = first
			}
			if t.seg > last {
				return "", ""
			}
			f, err := wlog.OpenReadSegment(wlog.SegmentName(t.dir, t.seg))
			if err != nil {
				if os.IsNotExist(err) {
					return "", ""
				}
				core.Must(err, "open segment for tailing")
			}
			t.f = f
			t.lr = wlog.NewLiveReader(tsdbx.NopLogger(), t.metrics, f)
			t.sawNext = false
			t.segsRead++
		}
		for t.lr.Next() {
			if !onRec(t.lr.Record()) {
				t.dead = true
				return "", ""
			}
		}
		if err := t.lr.Err(); err != nil && !errors.Is(err, io.EOF) {
			t.dead = true
			return "live-spurious-corruption", fmt.Sprintf("LiveReader on segment %d reported %q at offset %d after %d records in total", t.seg, err, t.lr.Offset(), len(t.got))
		}
		_, last, err := wlog.Segments(t.dir)
		if err != nil {
			core.Must(err, "list segments")
		}
		if last > t.seg {
			if t.sawNext {
				t.close()
				t.lr = nil
				t.seg++
				continue
			}
			t.sawNext = true // the segment is complete now: drain once more
			continue
		}
		return "", ""
	}
}

// ---------------------------------------------------------------- reading back with Reader

func readAll(dir string) (recs [][]byte, err error) {
	sr, err := wlog.NewSegmentsReader(dir)
	if err != nil {
		return nil, fmt.Errorf("NewSegmentsReader: %w", err)
	}
	defer sr.Close()
	rd := wlog.NewReader(sr)
	for rd.Next() {
		recs = append(recs, append([]byte(nil), rd.Record()...))
	}
	return recs, rd.Err()
}

func describe(b []byte) string {
	if len(b) >= 9 {
		return fmt.Sprintf("{writer %d #%d, %d bytes}", b[0], binary.BigEndian.Uint64(b[1:9]), len(b))
	}
	return fmt.Sprintf("{%d bytes %x}", len(b), b)
}

func compareSeq(c *core.Case, what, kind string, want, got [][]byte) bool {
	for i := 0; i < len(want) && i < len(got); i++ {
		if !bytes.Equal(want[i], got[i]) {
			c.Violatef(kind, "%s: record %d of %d differs: written %s, read %s (read %d records)", what, i, len(want), describe(want[i]), describe(got[i]), len(got))
			return false
		}
	}
	if len(got) != len(want) {
		c.Violatef(kind, "%s: %d records written, %d read back", what, len(want), len(got))
		return false
	}
	return true
}

// ---------------------------------------------------------------- controller mode

func openWL(c *core.Case, dir string, p *plan) *wlog.WL {
	w, err := wlog.NewSize(tsdbx.NopLogger(), nil, dir, p.segSize, p.compr)
	core.Must(err, "wlog.NewSize")
	return w
}

func runController(c *core.Case, p *plan) {
	r := c.Rng
	dir := c.TempDir()
	ctl := sched.Install()
	defer ctl.Uninstall()

	w := openWL(c, dir, p)
	closed := false
	defer func() {
		if !closed {
			w.Close()
		}
	}()
	t := newTailer(dir)
	defer t.close()

	started := 0 // records whose Log call has begun
	logged := 0  // records whose Log call has returned
	aheadEOF := 0
	pumps := 0
	failed := false
	onRec := func(rec []byte) bool {
		i := len(t.got)
		if i >= started {
			c.Violatef("live-phantom-record", "LiveReader returned a record %s although only %d records have been handed to Log (all delivered already)", describe(rec), started)
			failed = true
			return false
		}
		if !bytes.Equal(rec, p.recs[i]) {
			c.Violatef("live-sequence-mismatch", "LiveReader record %d: written %s, returned %s (skip, duplicate or damage); %d Log'ed so far", i, describe(p.recs[i]), describe(rec), logged)
			failed = true
			return false
		}
		t.got = append(t.got, p.recs[i])
		return true
	}
	pump := func(where string) {
		if failed {
			return
		}
		pumps++
		kind, msg := t.pump(onRec)
		if kind != "" {
			c.Violatef(kind, "%s (pump %s; %d records started, %d returned by Log; seg size %d, compression %s)", msg, where, started, logged, p.segSize, p.compr)
			failed = true
			return
		}
		if len(t.got) < len(p.recs) && !failed {
			aheadEOF++
		}
	}
	hookReads := 0
	ctl.OnHit(func(site string, _ *sched.Actor) {
		if site != flushSite || failed {
			return
		}
		if r.IntN(1000) < p.readProb {
			hookReads++
			pump("inside Log after a page flush")
		}
	})

	idx := 0
	for bi, k := range p.batches {
		if p.reopen[bi] {
			core.Must(w.Close(), "WL.Close before reopen")
			w = openWL(c, dir, p)
			c.Count("writer_reopens", 1)
			pump("after reopen")
		} else if p.nextSeg[bi] {
			_, err := w.NextSegment()
			core.Must(err, "NextSegment")
			c.Count("explicit_next_segment", 1)
		}
		started = idx + k
		if err := w.Log(p.recs[idx : idx+k]...); err != nil {
			c.Violatef("log-error", "WL.Log of records %d..%d failed: %v", idx, idx+k-1, err)
			return
		}
		idx += k
		logged = idx
		if r.IntN(1000) < max(p.readProb, 300) {
			pump("between Log calls")
		}
	}
	ctl.OnHit(nil)
	pump("after the last Log")
	if failed {
		return
	}
	if len(t.got) != len(p.recs) {
		c.Violatef("live-incomplete", "after the last Log call returned the LiveReader reported io.EOF with %d of %d records delivered (segment %d, offset %d)", len(t.got), len(p.recs), t.seg, t.lr.Offset())
		return
	}
	flushes := ctl.Hit(flushSite)

	// Reader on the still-open log, then after Close.
	if r.IntN(2) == 0 {
		got, err := readAll(dir)
		if err != nil {
			c.Violatef("reader-error", "wlog.Reader over the flushed, still open log failed: %v (after %d records of %d)", err, len(got), len(p.recs))
			return
		}
		if !compareSeq(c, "wlog.Reader over the flushed, still open log", "reader-sequence-mismatch", p.recs, got) {
			return
		}
		c.Count("reader_on_open_log", 1)
	}
	core.Must(w.Close(), "WL.Close")
	closed = true
	got, err := readAll(dir)
	if err != nil {
		c.Violatef("reader-error", "wlog.Reader over the closed log failed: %v (after %d records of %d)", err, len(got), len(p.recs))
		return
	}
	if !compareSeq(c, "wlog.Reader over the closed log", "reader-sequence-mismatch", p.recs, got) {
		return
	}
	// the tailer must see nothing new after Close (only padding)
	pump("after Close")
	if failed {
		return
	}
	first, last, _ := wlog.Segments(dir)
	nseg := last - first + 1
	frag := false
	for _, rec := range p.recs {
		if len(rec) > pageSize-recHdr {
			frag = true
		}
	}
	c.Count("logs", 1)
	c.Count("records", int64(len(p.recs)))
	c.Count("page_flushes", flushes)
	c.Count("live_pumps", int64(pumps))
	c.Count("live_pumps_inside_log", int64(hookReads))
	c.Count("live_pumps_ending_while_writer_ahead", int64(aheadEOF))
	c.Count("segments", int64(nseg))
	c.Seen("compression", string(p.compr))
	c.Seen("segment_size", fmt.Sprint(p.segSize))
	for _, cl := range p.classes {
		c.Seen("record_class", cl)
	}
	if flushes >= 2 && aheadEOF > 0 && (frag || nseg > 1) {
		c.Nontrivial(p.key())
	}
	if c.Idx < 3 {
		sizes := make([]int, 0, 12)
		for i := 0; i < len(p.recs) && i < 12; i++ {
			sizes = append(sizes, len(p.recs[i]))
		}
		c.Sample(map[string]any{"segment_size": p.segSize, "compression": p.compr, "records": len(p.recs), "first_sizes": sizes, "batches": p.batches[:min(10, len(p.batches))],
			"page_flushes": flushes, "live_pumps": pumps, "pumps_inside_log": hookReads, "segments": nseg})
	}
	// Byte-wise visibility: a reader of a file that is being written may see any prefix of it
	// (a write is not atomic for concurrent readers).  Re-create the log in a shadow directory in
	// small random increments and pump a LiveReader after each one: it must deliver exactly the
	// records, and never report anything but io.EOF on a prefix.
	if !c.Violated() {
		shadowTail(c, r, dir, p)
	}
}

func runFree(c *core.Case) {
	r := c.SubRng("free")
	nw := 1 + r.IntN(2)
	plans := make([]*plan, nw)
	minSize := 0
	if nw > 1 {
		minSize = 9
	}
	plans[0] = genPlan(r, minSize, true)
	for i := 1; i < nw; i++ {
		plans[i] = genPlan(r, minSize, true)
		plans[i].segSize, plans[i].compr = plans[0].segSize, plans[0].compr
		for j := range plans[i].recs {
			plans[i].recs[j][0] = byte(i)
		}
	}
	dir := c.TempDir()
	w := openWL(c, dir, plans[0])
	var wmu sync.RWMutex // guards the *wlog.WL pointer across a reopen (writer 0 only reopens when alone)
	closed := false
	defer func() {
		if !closed {
			w.Close()
		}
	}()
	total := 0
	for _, p := range plans {
		total += len(p.recs)
	}
	started := make([]atomic.Int64, nw)
	var writersDone atomic.Int32
	var wg sync.WaitGroup
	logErr := make([]error, nw)
	yields := make([][]int, nw)
	for i := range plans {
		for range plans[i].batches {
			yields[i] = append(yields[i], r.IntN(4))
		}
	}
	for wi := range plans {
		wg.Add(1)
		go func(wi int) {
			defer wg.Done()
			defer writersDone.Add(1)
			p := plans[wi]
			idx := 0
			for bi, k := range p.batches {
				for y := 0; y < yields[wi][bi]; y++ {
					runtime.Gosched()
				}
				if nw == 1 && p.reopen[bi] {
					wmu.Lock()
					err := w.Close()
					if err == nil {
						w = openWL(c, dir, p)
					}
					wmu.Unlock()
					if err != nil {
						logErr[wi] = err
						return
					}
				}
				started[wi].Store(int64(idx + k))
				wmu.RLock()
				ww := w
				wmu.RUnlock()
				if p.nextSeg[bi] {
					if _, err := ww.NextSegment(); err != nil {
						logErr[wi] = err
						return
					}
				}
				if err := ww.Log(p.recs[idx : idx+k]...); err != nil {
					logErr[wi] = err
					return
				}
				idx += k
			}
		}(wi)
	}

	// reader goroutine
	t := newTailer(dir)
	readerRunning := false // the reader goroutine owns the tailer while it runs
	defer func() {
		if !readerRunning {
			t.close()
		}
	}()
	next := make([]int, nw) // per writer: index of the next expected record
	var vkind, vmsg string
	aheadEOF := 0
	onRec := func(rec []byte) bool {
		wi := 0
		if nw > 1 {
			if len(rec) < 9 || int(rec[0]) >= nw {
				vkind, vmsg = "live-sequence-mismatch", fmt.Sprintf("LiveReader returned %s which no writer logged", describe(rec))
				return false
			}
			wi = int(rec[0])
		}
		i := next[wi]
		if int64(i) >= started[wi].Load() {
			vkind, vmsg = "live-phantom-record", fmt.Sprintf("LiveReader returned %s but writer %d has only started %d records (all delivered)", describe(rec), wi, started[wi].Load())
			return false
		}
		if !bytes.Equal(rec, plans[wi].recs[i]) {
			vkind, vmsg = "live-sequence-mismatch", fmt.Sprintf("LiveReader: next record of writer %d should be %s, got %s (skip, duplicate or damage)", wi, describe(plans[wi].recs[i]), describe(rec))
			return false
		}
		next[wi]++
		t.got = append(t.got, plans[wi].recs[i])
		return true
	}
	readerDone := make(chan struct{})
	var pumps int
	finalPump := false // a pump ran to io.EOF after every writer had returned
	go func() {
		defer close(readerDone)
		deadline := time.Now().Add(90 * time.Second)
		for {
			done := int(writersDone.Load()) == nw // sampled BEFORE the pump
			before := len(t.got)
			pumps++
			k, m := t.pump(onRec)
			if k != "" {
				vkind, vmsg = k, m
			}
			if vkind != "" || t.dead {
				return
			}
			if done {
				finalPump = true
				return
			}
			if len(t.got) == before {
				aheadEOF++
				time.Sleep(200 * time.Microsecond)
			}
			if time.Now().After(deadline) {
				return
			}
		}
	}()
	wdone := make(chan struct{})
	go func() { wg.Wait(); close(wdone) }()
	select {
	case <-wdone:
	case <-time.After(120 * time.Second):
		c.Inconclusive("writers did not finish within 120 s")
		closed = true // the writers still own the WL (one may be re-opening it): leave it to them
		readerRunning = true
		return
	}
	select {
	case <-readerDone:
	case <-time.After(120 * time.Second):
		c.Inconclusive("reader did not finish within 120 s")
		readerRunning = true
		return
	}
	for wi, err := range logErr {
		if err != nil {
			c.Violatef("log-error", "free-running writer %d: WL call failed: %v", wi, err)
			return
		}
	}
	if vkind != "" {
		c.Violatef(vkind, "free-running (%d writers, seg size %d, compression %s): %s", nw, plans[0].segSize, plans[0].compr, vmsg)
		return
	}
	if len(t.got) != total {
		if finalPump && !t.dead {
			// the final pump ran after all writers were done
			c.Violatef("live-incomplete", "free-running (%d writers): after all Log calls returned the LiveReader reported io.EOF with %d of %d records delivered", nw, len(t.got), total)
		} else {
			c.Inconclusive("reader watchdog")
		}
		return
	}
	core.Must(w.Close(), "WL.Close")
	closed = true
	got, err := readAll(dir)
	if err != nil {
		c.Violatef("reader-error", "free-running: wlog.Reader over the closed log failed: %v (after %d of %d records)", err, len(got), total)
		return
	}
	// the Reader must return the same total order the live reader saw
	if !compareSeq(c, "free-running: wlog.Reader vs the order the LiveReader delivered", "reader-sequence-mismatch", t.got, got) {
		return
	}
	c.Count("free_logs", 1)
	c.Count("free_logs_two_writers", int64(nw-1))
	c.Count("free_records", int64(total))
	c.Count("free_pumps", int64(pumps))
	c.Count("free_pumps_without_progress", int64(aheadEOF))
	_, last, _ := wlog.Segments(dir)
	if c.Variant == "race" && pumps >= 2 && (last > 0 || total > 10) {
		c.Nontrivial("free/" + fmt.Sprint(nw) + "/" + plans[0].key())
	}
}

func run(c *core.Case) {
	if c.Variant == "race" {
		runFree(c)
		return
	}
	p := genPlan(c.Rng, 0, false)
	runController(c, p)
	if !c.Violated() && c.Idx%4 == 0 {
		runFree(c)
	}
}

// fragmentHeaderOffsets parses the page/fragment structure of a segment and returns the file
// offsets at which a fragment header starts (page padding excluded).
func fragmentHeaderOffsets(src []byte) []int {
	var out []int
	for page := 0; page < len(src); page += pageSize {
		o := page
		end := min(page+pageSize, len(src))
		for o+recHdr <= end {
			if src[o] == 0 { // recPageTerm: the rest of the page is padding
				break
			}
			out = append(out, o)
			o += recHdr + int(binary.BigEndian.Uint16(src[o+1:]))
		}
	}
	return out
}

func shadowTail(c *core.Case, r *rand.Rand, dir string, p *plan) {
	first, last, err := wlog.Segments(dir)
	if err != nil || last < 0 {
		return
	}
	shadow := c.TempDir()
	t := newTailer(shadow)
	defer t.close()
	budget := 160 * 1024 // bytes replayed byte-wise per case
	delivered := 0
	grows := 0
	justDelivered := false
	headerStage, oneByte := 0, 0
	atHeader := false
	for seg := first; seg <= last && budget > 0; seg++ {
		src, err := os.ReadFile(wlog.SegmentName(dir, seg))
		core.Must(err, "read segment")
		f, err := os.OpenFile(wlog.SegmentName(shadow, seg), os.O_CREATE|os.O_WRONLY|os.O_APPEND, 0o644)
		core.Must(err, "create shadow segment")
		off := 0
		hdrs := fragmentHeaderOffsets(src)
		for off < len(src) && budget > 0 {
			n := 1 + r.IntN(12)
			before := delivered
			switch r.IntN(10) {
			case 0:
				n = 1 + r.IntN(600)
			case 1:
				n = 1 + r.IntN(40000)
			case 2, 3, 4:
				// up to the start of one of the next fragment headers: the header itself is then
				// exposed byte by byte
				if i := sort.Search(len(hdrs), func(i int) bool { return hdrs[i] > off }); i < len(hdrs) {
					i += r.IntN(min(3, len(hdrs)-i))
					n = hdrs[i] - off
					atHeader = true
				}
			}
			// after a delivered record: first exactly one byte of the next fragment header (type byte
			// only, the length field still holds whatever the reader's buffer held before), then a
			// few more bytes of it, then random increments again
			switch {
			case justDelivered || headerStage == 2:
				n, headerStage = 1, 1
				if off >= pageSize {
					oneByte++
				}
			case headerStage == 1:
				n, headerStage = 1+r.IntN(5), 0
			}
			if off+n > len(src) {
				n = len(src) - off
			}
			_, err := f.Write(src[off : off+n])
			core.Must(err, "grow shadow segment")
			off += n
			budget -= n
			grows++
			kind, msg := t.pump(func(rec []byte) bool {
				if delivered >= len(p.recs) || !bytes.Equal(rec, p.recs[delivered]) {
					c.Violatef("live-sequence-mismatch", "byte-wise tail: LiveReader record %d differs from the written one (segment %d, %d of %d bytes visible): got %s", delivered, seg, off, len(src), describe(rec))
					return false
				}
				delivered++
				t.got = append(t.got, nil)
				return true
			})
			justDelivered = delivered > before
			if atHeader {
				atHeader = false
				if !justDelivered {
					headerStage = 2 // stopped in front of a continuation fragment's header
				}
			}
			if kind != "" {
				c.Violatef(kind+"-on-partial-write", "byte-wise tail with %d of %d bytes of segment %d visible: %s", off, len(src), seg, msg)
				f.Close()
				return
			}
			if c.Violated() {
				f.Close()
				return
			}
		}
		f.Close()
		if off < len(src) {
			break
		}
	}
	c.Count("bytewise_tail_one_byte_headers_after_first_page", int64(oneByte))
	c.Count("bytewise_tail_grow_steps", int64(grows))
	c.Count("bytewise_tail_records", int64(delivered))
}
