// Package c22: samples are never attributed to the wrong series (value-encoded identity monitor
// over generated series-churn histories on a real tsdb.DB, with a decode of everything the head
// leaves on disk at every restart point).
package c22

import (
	"context"
	"fmt"
	"io"
	"math"
	"math/rand/v2"
	"os"
	"path/filepath"
	"sort"
	"strings"

	"github.com/prometheus/client_golang/prometheus"

	"github.com/prometheus/prometheus/model/histogram"
	"github.com/prometheus/prometheus/model/labels"
	"github.com/prometheus/prometheus/model/value"
	"github.com/prometheus/prometheus/storage"
	"github.com/prometheus/prometheus/tsdb"

	"verif/internal/core"
	"verif/internal/gen"
	"verif/internal/tsdbx"
	"verif/props/c22/headdisk"
)

func init() {
	core.Register(&core.Prop{
		ID:        "C22",
		Title:     "Samples are never attributed to the wrong series",
		Level:     "exploration",
		Technique: "value-encoded identity runtime monitor: every sample's value encodes the id of the label set it was appended with; query results, live ref→labels map and a decode of WAL / WBL / head chunk files are checked for one identity per series and per ref",
		LevelText: "Generated series-churn histories on a real tsdb.DB (block range 500/2000, 32 KiB WAL segments, OOO window on/off, fast startup on/off, memory snapshot on/off, isolation on/off): label sets are created in waves (floats and native histograms, long label values so that WAL segments fill), go quiet, are garbage-collected by head compaction, evicted by stale-series and selected-series compaction, re-created; WAL checkpoints happen inside compactions; restarts are clean (Close/Open) or unclean (the directory is copied while the DB is open and the copy is opened). Appends re-use the refs returned earlier for the same label set – also refs from before a garbage collection or a restart – or pass 0. Oracles: (1) every sample returned by a full-range query under labels L decodes to the id of L; (2) the ref returned by Append(ref, L) maps to L in Head.VerifSeriesRefs() and, within one process lifetime, a ref is never handed out for two label sets; (3) at every restart point everything still on disk – series records and sample records of the last WAL checkpoint and the segments behind it, WBL samples, the decoded samples of every head chunk file – gives each series ref exactly one identity. Held on the observed histories only.",
		LevelNote: "Trusted: the record/wlog decoders and ChunkDiskMapper.IterateAllChunks as readers of the on-disk state; Head.VerifSeriesRefs for the live map. Staleness markers carry no identity and are skipped. Presence of samples is not checked (C01/C03), only attribution. Across a restart the harness keeps using refs obtained before it (outdated refs); uniqueness of handed-out refs is only demanded within a process lifetime, the on-disk function check covers the rest. Unclean restart = file copy of a quiescent open DB (no torn writes inside a record).",
		DesignRef: "DESIGN.md §5 C22",
		Rule:      "case = one generated history of 30–90 steps; non-trivial iff ≥1 series was retired (gc or eviction) and a label set appended again afterwards, ≥1 restart ran, ≥1 append used a ref obtained before the last restart or gc, and the final query returned ≥1 identity-carrying sample; distinct by (config, step list) hash",
		Cases: func(variant string, tier core.Tier) int {
			if variant != "default" {
				return 0
			}
			if tier == core.Thorough {
				return 3000
			}
			return 150
		},
		Run:            run,
		MinNontrivial:  func(t core.Tier) int { return 40 },
		CaseTimeoutSec: 300,
	})
}

type cfg struct {
	R           int64
	OOO         int64
	FastStartup bool
	Snapshot    bool
	IsoOff      bool
	V2          bool
}

func (c cfg) String() string {
	return fmt.Sprintf("range=%d ooo=%d fast=%v snap=%v iso=%v v2=%v", c.R, c.OOO, c.FastStartup, c.Snapshot, !c.IsoOff, c.V2)
}

func (c cfg) options() *tsdb.Options {
	o := tsdb.DefaultOptions()
	o.MinBlockDuration = c.R
	o.MaxBlockDuration = c.R * 3
	o.RetentionDuration = 0
	o.WALSegmentSize = 32 * 1024
	o.OutOfOrderTimeWindow = c.OOO
	o.OutOfOrderCapMax = 8
	o.SamplesPerChunk = 8
	o.IsolationDisabled = c.IsoOff
	o.EnableMemorySnapshotOnShutdown = c.Snapshot
	o.EnableFastStartup = c.FastStartup
	o.NoLockfile = true
	return o
}

const idScale = 1000

type st struct {
	c     *core.Case
	r     *rand.Rand
	cfg   cfg
	dir   string
	db    *tsdb.DB
	clock int64
	steps []string

	lsets       []labels.Labels // id → label set
	isHist      []bool
	byKey       map[string]int            // labels.String() → id
	cached      map[int]storage.SeriesRef // id → last ref returned for it (possibly outdated)
	cachedEpoch map[int]int               // epoch (restarts + gc steps) in which it was obtained
	epoch       int
	handed      map[storage.SeriesRef]int // this process lifetime: ref → id
	// all lifetimes: ref → ids it was ever returned for; reissued: refs that came back for another
	// label set after a restart (reported once, consequences are then classified separately)
	ever      map[storage.SeriesRef][]int
	reissued  map[storage.SeriesRef]bool
	reported  map[string]bool
	knownHits map[string]int

	// stats
	appends, outdatedRefAppends, retiredThenAppended, restarts, uncleanRestarts, retireSteps int
	diskChecks, diskRefsChecked, queryChecks, samplesDecoded, checkpointsSeen                int
	retired                                                                                  map[int]bool
}

func (s *st) note(format string, args ...any) {
	x := fmt.Sprintf(format, args...)
	s.steps = append(s.steps, x)
	s.c.Logf("step: %s", x)
}

// known reports a violation kind once per case and counts further hits.
func (s *st) known(kind, format string, args ...any) {
	s.knownHits[kind]++
	if !s.reported[kind] {
		s.reported[kind] = true
		s.c.Violatef(kind, format, args...)
	}
}

func (s *st) everHad(ref storage.SeriesRef, id int) bool {
	for _, x := range s.ever[ref] {
		if x == id {
			return true
		}
	}
	return false
}

func (s *st) history() string {
	h := strings.Join(s.steps, " ; ")
	if len(h) > 3500 {
		h = "… " + h[len(h)-3500:]
	}
	return h
}

func (s *st) open() error {
	db, err := tsdb.Open(s.dir, tsdbx.NopLogger(), prometheus.NewRegistry(), s.cfg.options(), nil)
	if err != nil {
		return err
	}
	db.DisableCompactions()
	s.db = db
	s.handed = map[storage.SeriesRef]int{}
	return nil
}

func (s *st) newSeries() int {
	id := len(s.lsets)
	pad := strings.Repeat(string(rune('a'+id%26)), 600+s.r.IntN(900))
	ls := labels.FromStrings("__name__", "m", "id", fmt.Sprint(id), "pad", pad)
	s.lsets = append(s.lsets, ls)
	s.isHist = append(s.isHist, s.r.IntN(5) == 0)
	s.byKey[ls.String()] = id
	return id
}

func idOfLabels(ls labels.Labels) (int, bool) {
	v := ls.Get("id")
	if v == "" {
		return 0, false
	}
	var id int
	if _, err := fmt.Sscan(v, &id); err != nil {
		return 0, false
	}
	return id, true
}

func decodeID(v float64) (int, bool) {
	if value.IsStaleNaN(v) || math.IsNaN(v) {
		return 0, false
	}
	return int(v) / idScale, true
}

// appendTx appends one sample to each of ids in one transaction.
func (s *st) appendTx(ids []int, stale bool, ooo bool) bool {
	ctx := context.Background()
	var a1 storage.Appender
	var a2 storage.AppenderV2
	if s.cfg.V2 {
		a2 = s.db.AppenderV2(ctx)
	} else {
		a1 = s.db.Appender(ctx)
	}
	var desc []string
	type out struct {
		id      int
		ref     storage.SeriesRef
		usedRef storage.SeriesRef
	}
	var outs []out
	for _, id := range ids {
		t := s.clock
		if ooo {
			t = s.clock - 1 - s.r.Int64N(s.cfg.OOO)
		}
		v := float64(id*idScale + s.r.IntN(idScale))
		var h *histogram.Histogram
		if stale {
			v = math.Float64frombits(value.StaleNaN)
		} else if s.isHist[id] {
			h = &histogram.Histogram{Schema: 0, Count: 1, Sum: v, PositiveSpans: []histogram.Span{{Offset: 0, Length: 1}}, PositiveBuckets: []int64{1}}
		}
		ref := storage.SeriesRef(0)
		if r, ok := s.cached[id]; ok && s.r.IntN(3) != 0 {
			ref = r
			if s.cachedEpoch[id] != s.epoch {
				s.outdatedRefAppends++
			}
		}
		var got storage.SeriesRef
		var err error
		switch {
		case s.cfg.V2 && h != nil:
			got, err = a2.Append(ref, s.lsets[id], 0, t, 0, h, nil, storage.AOptions{})
		case s.cfg.V2:
			got, err = a2.Append(ref, s.lsets[id], 0, t, v, nil, nil, storage.AOptions{})
		case h != nil:
			got, err = a1.AppendHistogram(ref, s.lsets[id], t, h, nil)
		default:
			got, err = a1.Append(ref, s.lsets[id], t, v)
		}
		s.appends++
		if err != nil {
			desc = append(desc, fmt.Sprintf("%d(ref%d)=%s", id, ref, short(err)))
			continue
		}
		if s.retired[id] {
			s.retiredThenAppended++
			delete(s.retired, id)
		}
		desc = append(desc, fmt.Sprintf("%d(ref%d→%d)", id, ref, got))
		outs = append(outs, out{id, got, ref})
	}
	var err error
	if s.cfg.V2 {
		err = a2.Commit()
	} else {
		err = a1.Commit()
	}
	kind := "append"
	if stale {
		kind = "stale"
	} else if ooo {
		kind = "ooo"
	}
	s.note("%s@%d[%s]", kind, s.clock, strings.Join(desc, " "))
	if err != nil {
		s.c.Violatef("operation-failed:Commit", "config {%s}: Commit: %v\nhistory: %s", s.cfg, err, s.history())
		return false
	}
	// oracle (2): the returned ref belongs to the labels passed; refs are not reissued
	live := s.db.Head().VerifSeriesRefs()
	for _, o := range outs {
		if _, inThisLifetime := s.handed[o.ref]; !inThisLifetime && len(s.ever[o.ref]) > 0 && !s.everHad(o.ref, o.id) {
			// handed out in an earlier process lifetime for another label set
			s.reissued[o.ref] = true
			s.known("ref-reissued-for-another-label-set-after-restart", "config {%s}: Append(ref=%d, labels of id %d) returned ref %d, which an earlier process lifetime had returned for label set id(s) %v; the harness still holds that ref for them (an outdated reference in the sense of the statement)\nhistory: %s", s.cfg, o.usedRef, o.id, o.ref, s.ever[o.ref], s.history())
		}
		if ls, ok := live[uint64(o.ref)]; ok && ls.String() != s.lsets[o.id].String() {
			other, _ := idOfLabels(ls)
			if s.reissued[o.ref] || s.reissued[o.usedRef] {
				// consequence of a reissued ref: the sample went to the series that now owns it
				s.known("append-with-outdated-ref-lands-in-series-that-got-the-ref-reissued", "config {%s}: Append(ref=%d, labels of id %d) returned ref %d, which the head maps to the label set id=%d (that series was created after a restart under a ref that had belonged to id %d): the sample is stored under the wrong labels\nhistory: %s", s.cfg, o.usedRef, o.id, o.ref, other, o.id, s.history())
				delete(s.cached, o.id)
				continue
			}
			s.c.Violatef("append-returned-ref-of-another-series", "config {%s}: Append(ref=%d, labels of id %d) returned ref %d which the head maps to %s\nhistory: %s", s.cfg, o.usedRef, o.id, o.ref, trunc(ls.String()), s.history())
			return false
		}
		if prev, ok := s.handed[o.ref]; ok && prev != o.id {
			s.c.Violatef("ref-handed-out-for-two-label-sets-in-one-lifetime", "config {%s}: ref %d was returned for label set id %d and, in the same process lifetime, for id %d\nhistory: %s", s.cfg, o.ref, prev, o.id, s.history())
			return false
		}
		if !s.everHad(o.ref, o.id) {
			s.ever[o.ref] = append(s.ever[o.ref], o.id)
		}
		s.handed[o.ref] = o.id
		s.cached[o.id] = o.ref
		s.cachedEpoch[o.id] = s.epoch
	}
	return true
}

func short(err error) string {
	x := err.Error()
	if len(x) > 24 {
		x = x[:24]
	}
	return x
}

func trunc(x string) string {
	if len(x) > 80 {
		return x[:80] + "…"
	}
	return x
}

// checkQuery: oracle (1).
func (s *st) checkQuery(where string) bool {
	q, err := s.db.Querier(math.MinInt64, math.MaxInt64)
	if err != nil {
		s.c.Violatef("query-error", "Querier: %v", err)
		return false
	}
	defer q.Close()
	ss := q.Select(context.Background(), true, nil, tsdbx.MatchAll())
	s.queryChecks++
	for ss.Next() {
		series := ss.At()
		want, ok := idOfLabels(series.Labels())
		if !ok {
			continue
		}
		smp, err := tsdbx.IterSamples(series.Iterator(nil))
		if err != nil {
			s.c.Violatef("query-error", "config {%s}: %s: iterate series id %d: %v\nhistory: %s", s.cfg, where, want, err, s.history())
			return false
		}
		for _, x := range smp {
			v := x.F
			switch x.Kind {
			case "h":
				v = x.H.Sum
			case "fh":
				v = x.FH.Sum
			}
			got, ok := decodeID(v)
			if !ok {
				continue
			}
			s.samplesDecoded++
			if got != want {
				viaReissue := false
				for ref := range s.reissued {
					viaReissue = viaReissue || (s.everHad(ref, got) && s.everHad(ref, want))
				}
				if viaReissue {
					s.known("sample-returned-under-labels-of-series-that-got-its-ref-reissued", "config {%s}: %s: the series with label id=%d returned sample t=%d value=%v, which was appended with the label set id=%d; both label sets have owned the same series ref (reissued after a restart)\nhistory: %s", s.cfg, where, want, x.T, v, got, s.history())
					continue
				}
				s.c.Violatef("sample-returned-under-wrong-labels", "config {%s}: %s: the series with label id=%d returned sample t=%d value=%v, which was appended with the label set id=%d\nhistory: %s", s.cfg, where, want, x.T, v, got, s.history())
				return false
			}
		}
	}
	if err := ss.Err(); err != nil {
		s.c.Violatef("query-error", "config {%s}: %s: Select: %v\nhistory: %s", s.cfg, where, err, s.history())
		return false
	}
	return true
}

// checkDisk: oracle (3) on a directory nobody writes to.
func (s *st) checkDisk(dir, where string) bool {
	s.diskChecks++
	type ident struct {
		id  int
		src string
	}
	byRef := map[uint64][]ident{}
	add := func(ref uint64, id int, src string) {
		for _, x := range byRef[ref] {
			if x.id == id && x.src == src {
				return
			}
		}
		byRef[ref] = append(byRef[ref], ident{id, src})
	}
	recs, _, err := headdisk.Scan(dir)
	core.Must(err, "decode WAL")
	wbl, _, err := headdisk.ScanWBL(dir)
	core.Must(err, "decode WBL")
	sawCheckpoint := false
	for _, r := range append(recs, wbl...) {
		if r.Src == "checkpoint" && !sawCheckpoint {
			sawCheckpoint = true
			s.checkpointsSeen++
		}
		for _, sr := range r.Series {
			if id, ok := idOfLabels(sr.Labels); ok {
				add(uint64(sr.Ref), id, r.Src+"-series-record")
			}
		}
		for i, ref := range r.SampleRefs {
			if id, ok := decodeID(r.SampleVals[i]); ok {
				add(ref, id, r.Src+"-sample-record")
			}
		}
	}
	_, err = headdisk.ScanHeadChunks(dir, func(hc headdisk.HeadChunk, t int64, v float64) {
		if id, ok := decodeID(v); ok {
			add(hc.Ref, id, "head-chunk-file")
		}
	})
	if err != nil {
		// an unreadable chunk file is a durability matter (C05/C25), not attribution
		s.c.Count("head_chunk_scan_errors", 1)
	}
	var refs []uint64
	for ref := range byRef {
		refs = append(refs, ref)
	}
	sort.Slice(refs, func(i, j int) bool { return refs[i] < refs[j] })
	for _, ref := range refs {
		s.diskRefsChecked++
		ids := byRef[ref]
		for _, x := range ids[1:] {
			if x.id != ids[0].id {
				a, b := ids[0].src, x.src
				if b < a {
					a, b = b, a
				}
				if s.reissued[storage.SeriesRef(ref)] && s.everHad(storage.SeriesRef(ref), ids[0].id) && s.everHad(storage.SeriesRef(ref), x.id) {
					s.known("reissued-ref-has-two-identities-on-disk", "config {%s}: %s: series ref %d (reissued after a restart) stands for label set id=%d in a %s and for id=%d in a %s\nhistory: %s", s.cfg, where, ref, ids[0].id, ids[0].src, x.id, x.src, s.history())
					break
				}
				s.c.Violatef("ref-has-two-identities-on-disk:"+a+"+"+b, "config {%s}: %s: series ref %d stands for label set id=%d in a %s and for id=%d in a %s (all records found: %v)\nhistory: %s", s.cfg, where, ref, ids[0].id, ids[0].src, x.id, x.src, ids, s.history())
				return false
			}
		}
	}
	return true
}

func copyTree(src, dst string) error {
	return filepath.Walk(src, func(p string, fi os.FileInfo, err error) error {
		if err != nil {
			if os.IsNotExist(err) {
				return nil
			}
			return err
		}
		rel, _ := filepath.Rel(src, p)
		target := filepath.Join(dst, rel)
		if fi.IsDir() {
			return os.MkdirAll(target, 0o777)
		}
		in, err := os.Open(p)
		if err != nil {
			if os.IsNotExist(err) {
				return nil
			}
			return err
		}
		defer in.Close()
		out, err := os.Create(target)
		if err != nil {
			return err
		}
		defer out.Close()
		_, err = io.Copy(out, in)
		return err
	})
}

func (s *st) restart(unclean bool) bool {
	s.restarts++
	if unclean {
		s.uncleanRestarts++
		// crash image: copy the directory while the DB is open (nothing is being written: single
		// thread, background compaction disabled), drop the original
		dst := s.c.TempDir()
		core.Must(copyTree(s.dir, dst), "copy db directory")
		_ = s.db.Close()
		s.db = nil
		s.dir = dst
		s.note("restart(unclean copy)")
	} else {
		if err := s.db.Close(); err != nil {
			s.db = nil
			s.c.Violatef("operation-failed:Close", "config {%s}: Close: %v\nhistory: %s", s.cfg, err, s.history())
			return false
		}
		s.db = nil
		s.note("restart(clean)")
	}
	if !s.checkDisk(s.dir, "before reopening") {
		return false
	}
	s.epoch++
	if err := s.open(); err != nil {
		s.c.Violatef("operation-failed:reopen", "config {%s}: reopen: %v\nhistory: %s", s.cfg, err, s.history())
		return false
	}
	return s.checkQuery("after restart")
}

func (s *st) liveIDs() (live []int, refs map[int]uint64) {
	refs = map[int]uint64{}
	for ref, ls := range s.db.Head().VerifSeriesRefs() {
		if id, ok := idOfLabels(ls); ok {
			live = append(live, id)
			refs[id] = ref
		}
	}
	sort.Ints(live)
	return live, refs
}

// noteRetired marks the ids that left the head in this step.
func (s *st) noteRetired(before []int) {
	after, _ := s.liveIDs()
	in := map[int]bool{}
	for _, id := range after {
		in[id] = true
	}
	n := 0
	for _, id := range before {
		if !in[id] {
			s.retired[id] = true
			n++
		}
	}
	if n > 0 {
		s.retireSteps++
		s.epoch++
	}
}

func run(c *core.Case) {
	r := c.Rng
	cf := cfg{R: gen.Pick(r, []int64{500, 2000}), FastStartup: r.IntN(2) == 0, Snapshot: r.IntN(4) == 0, IsoOff: r.IntN(4) == 0, V2: r.IntN(2) == 0}
	if r.IntN(2) == 0 {
		cf.OOO = cf.R / 2
	}
	s := &st{c: c, r: r, cfg: cf, dir: c.TempDir(), byKey: map[string]int{}, cached: map[int]storage.SeriesRef{}, cachedEpoch: map[int]int{}, retired: map[int]bool{},
		ever: map[storage.SeriesRef][]int{}, reissued: map[storage.SeriesRef]bool{}, reported: map[string]bool{}, knownHits: map[string]int{}}
	s.clock = gen.Pick(r, []int64{0, 1_000_000, -3 * cf.R})
	core.Must(s.open(), "open fresh db")
	defer func() {
		if s.db != nil {
			s.db.Close()
		}
	}()
	ctx := context.Background()
	nsteps := 30 + r.IntN(61)
	for i := 0; i < nsteps && s.db != nil; i++ {
		ok := true
		switch w := r.IntN(100); {
		case w < 14: // a wave of new label sets
			var ids []int
			for k := 1 + r.IntN(4); k > 0; k-- {
				ids = append(ids, s.newSeries())
			}
			s.clock += 1 + r.Int64N(cf.R/10)
			ok = s.appendTx(ids, false, false)
		case w < 45: // existing label sets (alive, quiet or retired), possibly with outdated refs
			if len(s.lsets) == 0 {
				continue
			}
			n := 1 + r.IntN(min(6, len(s.lsets)))
			var ids []int
			for _, k := range r.Perm(len(s.lsets))[:n] {
				// prefer recent ids: older ones are meant to go quiet
				if k >= len(s.lsets)-8 || r.IntN(4) == 0 {
					ids = append(ids, k)
				}
			}
			if len(ids) == 0 {
				continue
			}
			sort.Ints(ids)
			s.clock += 1 + r.Int64N(cf.R/10)
			ok = s.appendTx(ids, false, false)
		case w < 50 && cf.OOO > 0:
			live, _ := s.liveIDs()
			if len(live) == 0 {
				continue
			}
			ok = s.appendTx([]int{live[r.IntN(len(live))]}, false, true)
		case w < 56: // staleness markers for some live series
			live, _ := s.liveIDs()
			if len(live) == 0 {
				continue
			}
			n := 1 + r.IntN(min(3, len(live)))
			ids := append([]int(nil), live...)
			r.Shuffle(len(ids), func(a, b int) { ids[a], ids[b] = ids[b], ids[a] })
			ids = ids[:n]
			sort.Ints(ids)
			s.clock += 1 + r.Int64N(cf.R/10)
			ok = s.appendTx(ids, true, false)
		case w < 64: // time passes: quiet series fall out of the head at the next compaction
			s.clock += cf.R + r.Int64N(cf.R)
			s.note("advance→%d", s.clock)
		case w < 76:
			before, _ := s.liveIDs()
			s.note("compact")
			if err := s.db.Compact(ctx); err != nil {
				c.Violatef("operation-failed:Compact", "config {%s}: Compact: %v\nhistory: %s", cf, err, s.history())
				return
			}
			s.noteRetired(before)
			ok = s.checkQuery("after compact")
		case w < 81:
			before, _ := s.liveIDs()
			s.note("compactStale")
			if err := s.db.CompactStaleHead(); err != nil {
				c.Violatef("operation-failed:CompactStaleHead", "config {%s}: CompactStaleHead: %v\nhistory: %s", cf, err, s.history())
				return
			}
			s.noteRetired(before)
			ok = s.checkQuery("after compactStale")
		case w < 86:
			before, refs := s.liveIDs()
			var sel []storage.SeriesRef
			for _, id := range before {
				if r.IntN(3) == 0 {
					sel = append(sel, storage.SeriesRef(refs[id]))
				}
			}
			s.note("compactSelected%v", sel)
			if err := s.db.CompactSelectedSeries(sel); err != nil {
				c.Violatef("operation-failed:CompactSelectedSeries", "config {%s}: CompactSelectedSeries: %v\nhistory: %s", cf, err, s.history())
				return
			}
			s.noteRetired(before)
			ok = s.checkQuery("after compactSelected")
		case w < 94:
			ok = s.restart(false)
		default:
			ok = s.restart(true)
		}
		if !ok {
			return
		}
	}
	if s.db == nil {
		return
	}
	if !s.checkQuery("end") {
		return
	}
	// final disk check on a clean image
	if err := s.db.Close(); err != nil {
		s.db = nil
		c.Violatef("operation-failed:Close", "config {%s}: Close: %v\nhistory: %s", cf, err, s.history())
		return
	}
	s.db = nil
	if !s.checkDisk(s.dir, "at the end") {
		return
	}
	c.Count("steps", int64(nsteps))
	c.Count("label_sets", int64(len(s.lsets)))
	c.Count("appends", int64(s.appends))
	c.Count("appends_with_outdated_ref", int64(s.outdatedRefAppends))
	c.Count("retired_label_sets_appended_again", int64(s.retiredThenAppended))
	c.Count("steps_that_retired_series", int64(s.retireSteps))
	c.Count("restarts", int64(s.restarts))
	c.Count("unclean_restarts", int64(s.uncleanRestarts))
	c.Count("disk_checks", int64(s.diskChecks))
	c.Count("disk_refs_checked", int64(s.diskRefsChecked))
	c.Count("disk_checks_with_checkpoint_records", int64(s.checkpointsSeen))
	c.Count("query_checks", int64(s.queryChecks))
	c.Count("samples_decoded", int64(s.samplesDecoded))
	c.Count("refs_reissued_after_restart", int64(len(s.reissued)))
	for k, n := range s.knownHits {
		c.Count("known:"+k, int64(n))
	}
	for _, x := range s.steps {
		c.Seen("op_kind", strings.SplitN(strings.SplitN(strings.SplitN(x, "@", 2)[0], "[", 2)[0], "→", 2)[0])
	}
	if s.retiredThenAppended > 0 && s.restarts > 0 && s.outdatedRefAppends > 0 && s.samplesDecoded > 0 {
		c.Nontrivial(cf.String(), strings.Join(s.steps, ";"))
	}
	if c.Idx < 2 {
		c.Sample(map[string]any{"config": cf.String(), "history": s.history(), "label_sets": len(s.lsets), "outdated_ref_appends": s.outdatedRefAppends})
	}
}
