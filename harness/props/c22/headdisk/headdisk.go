// Package headdisk decodes what a closed (or quiescent) TSDB head left on disk – the WAL (last
// checkpoint + later segments), the WBL and the head chunk files – into flat record lists.  It
// is used by C22 (ref→labels must be a function over everything still on disk) and by C52
// (classification of replay-related gauge defects).  It only uses exported reader APIs.
package headdisk

import (
	"errors"
	"fmt"
	"math"
	"path/filepath"

	"github.com/prometheus/prometheus/model/labels"
	"github.com/prometheus/prometheus/tsdb/chunkenc"
	"github.com/prometheus/prometheus/tsdb/chunks"
	"github.com/prometheus/prometheus/tsdb/record"
	"github.com/prometheus/prometheus/tsdb/wlog"

	"verif/internal/tsdbx"
)

// Rec is one decoded WAL/WBL record in replay order.
type Rec struct {
	Src    string // "checkpoint" | "wal" | "wbl"
	Type   record.Type
	Series []record.RefSeries
	// SampleRefs / SampleTs / SampleVals: one entry per sample of a Samples / histogram record
	// (Vals: float value or histogram sum – enough for value-encoded identities).
	SampleRefs []uint64
	SampleTs   []int64
	SampleVals []float64
	TombRefs   []uint64
	TombFull   []bool // the tombstone covers [MinInt64, MaxInt64]: the series was evicted
	MarkerRefs []uint64
}

// Scan reads the last checkpoint and all WAL segments behind it (the order a restart replays
// them in).  A torn tail is reported through tailErr, records before it are returned.
func Scan(dbDir string) (recs []Rec, tailErr error, err error) {
	walDir := filepath.Join(dbDir, "wal")
	first := -1
	if cp, idx, cerr := wlog.LastCheckpoint(walDir); cerr == nil {
		r, terr, e := scanDir("checkpoint", wlog.SegmentRange{Dir: cp, First: -1, Last: -1})
		if e != nil {
			return nil, nil, e
		}
		if terr != nil {
			return r, terr, nil
		}
		recs = append(recs, r...)
		first = idx + 1
	} else if !errors.Is(cerr, record.ErrNotFound) {
		return nil, nil, cerr
	}
	r, terr, e := scanDir("wal", wlog.SegmentRange{Dir: walDir, First: first, Last: -1})
	if e != nil {
		return nil, nil, e
	}
	return append(recs, r...), terr, nil
}

// ScanWBL reads the out-of-order log.
func ScanWBL(dbDir string) (recs []Rec, tailErr error, err error) {
	return scanDir("wbl", wlog.SegmentRange{Dir: filepath.Join(dbDir, "wbl"), First: -1, Last: -1})
}

func scanDir(src string, rg wlog.SegmentRange) (recs []Rec, tailErr error, err error) {
	if _, _, e := wlog.Segments(rg.Dir); e != nil {
		return nil, nil, nil // no such log
	}
	sr, e := wlog.NewSegmentsRangeReader(rg)
	if e != nil {
		return nil, nil, e
	}
	defer sr.Close()
	rd := wlog.NewReader(sr)
	dec := record.NewDecoder(labels.NewSymbolTable(), tsdbx.NopLogger())
	for rd.Next() {
		b := rd.Record()
		rec := Rec{Src: src, Type: dec.Type(b)}
		switch rec.Type {
		case record.Series:
			ss, e := dec.Series(b, nil)
			if e != nil {
				return recs, nil, fmt.Errorf("%s: decode series record: %w", src, e)
			}
			rec.Series = ss
		case record.Samples, record.SamplesV2:
			ss, e := dec.Samples(b, nil)
			if e != nil {
				return recs, nil, fmt.Errorf("%s: decode samples record: %w", src, e)
			}
			for _, s := range ss {
				rec.SampleRefs = append(rec.SampleRefs, uint64(s.Ref))
				rec.SampleTs = append(rec.SampleTs, s.T)
				rec.SampleVals = append(rec.SampleVals, s.V)
			}
		case record.HistogramSamples, record.CustomBucketsHistogramSamples, record.HistogramSamplesV2:
			hs, e := dec.HistogramSamples(b, nil)
			if e != nil {
				return recs, nil, fmt.Errorf("%s: decode histogram record: %w", src, e)
			}
			for _, s := range hs {
				rec.SampleRefs = append(rec.SampleRefs, uint64(s.Ref))
				rec.SampleTs = append(rec.SampleTs, s.T)
				rec.SampleVals = append(rec.SampleVals, s.H.Sum)
			}
		case record.FloatHistogramSamples, record.CustomBucketsFloatHistogramSamples, record.FloatHistogramSamplesV2:
			hs, e := dec.FloatHistogramSamples(b, nil)
			if e != nil {
				return recs, nil, fmt.Errorf("%s: decode float histogram record: %w", src, e)
			}
			for _, s := range hs {
				rec.SampleRefs = append(rec.SampleRefs, uint64(s.Ref))
				rec.SampleTs = append(rec.SampleTs, s.T)
				rec.SampleVals = append(rec.SampleVals, s.FH.Sum)
			}
		case record.Tombstones:
			ts, e := dec.Tombstones(b, nil)
			if e != nil {
				return recs, nil, fmt.Errorf("%s: decode tombstones record: %w", src, e)
			}
			for _, t := range ts {
				rec.TombRefs = append(rec.TombRefs, uint64(t.Ref))
				rec.TombFull = append(rec.TombFull, len(t.Intervals) == 1 && t.Intervals[0].Mint == math.MinInt64 && t.Intervals[0].Maxt == math.MaxInt64)
			}
		case record.MmapMarkers:
			ms, e := dec.MmapMarkers(b, nil)
			if e != nil {
				return recs, nil, fmt.Errorf("%s: decode mmap markers: %w", src, e)
			}
			for _, m := range ms {
				rec.MarkerRefs = append(rec.MarkerRefs, uint64(m.Ref))
			}
		}
		recs = append(recs, rec)
	}
	return recs, rd.Err(), nil
}

// LateSeriesRecords counts series records that a replay meets only after sample records of the
// same series (same ref, or a ref introduced earlier for the same label set): the situations
// "duplicate series record after the series was garbage-collected and re-created" and "series
// created by an appender that committed after other appenders had written to it".
func LateSeriesRecords(recs []Rec) int {
	sampled := map[uint64]bool{}
	byLabels := map[string][]uint64{}
	late := 0
	for _, r := range recs {
		for _, ref := range r.SampleRefs {
			sampled[ref] = true
		}
		for _, s := range r.Series {
			k := s.Labels.String()
			isLate := sampled[uint64(s.Ref)]
			for _, o := range byLabels[k] {
				if sampled[o] {
					isLate = true
				}
			}
			if isLate {
				late++
			}
			byLabels[k] = append(byLabels[k], uint64(s.Ref))
		}
	}
	return late
}

// LateSeriesSamples bounds the work a replay may do and undo because of late series records: the
// number of samples logged for a series (same ref, or an earlier ref of the same label set) in
// front of a later series record of that series.
func LateSeriesSamples(recs []Rec) int {
	count := map[uint64]int{}
	byLabels := map[string][]uint64{}
	n := 0
	for _, r := range recs {
		for _, ref := range r.SampleRefs {
			count[ref]++
		}
		for _, s := range r.Series {
			k := s.Labels.String()
			n += count[uint64(s.Ref)]
			count[uint64(s.Ref)] = 0
			for _, o := range byLabels[k] {
				n += count[o]
				count[o] = 0
			}
			byLabels[k] = append(byLabels[k], uint64(s.Ref))
		}
	}
	return n
}

// TombstonedRefs returns the refs named by tombstone records (deletions and evictions).
func TombstonedRefs(recs []Rec) map[uint64]bool {
	out := map[uint64]bool{}
	for _, r := range recs {
		for _, ref := range r.TombRefs {
			out[ref] = true
		}
	}
	return out
}

// ReintroducedRefs returns the refs for which a series record follows an eviction tombstone of
// the same ref (the ref was handed out again after the series had been evicted).
func ReintroducedRefs(recs []Rec) map[uint64]bool {
	evicted, out := map[uint64]bool{}, map[uint64]bool{}
	for _, r := range recs {
		for i, ref := range r.TombRefs {
			if r.TombFull[i] {
				evicted[ref] = true
			}
		}
		for _, s := range r.Series {
			if evicted[uint64(s.Ref)] {
				out[uint64(s.Ref)] = true
			}
		}
	}
	return out
}

// RefClashes returns the series refs that carry more than one label set in the records
// (ref → the distinct label sets, in order of appearance).
func RefClashes(recs []Rec) map[uint64][]string {
	seen := map[uint64][]string{}
	for _, r := range recs {
		for _, s := range r.Series {
			k := s.Labels.String()
			dup := false
			for _, o := range seen[uint64(s.Ref)] {
				dup = dup || o == k
			}
			if !dup {
				seen[uint64(s.Ref)] = append(seen[uint64(s.Ref)], k)
			}
		}
	}
	for ref, ls := range seen {
		if len(ls) < 2 {
			delete(seen, ref)
		}
	}
	return seen
}

// HeadChunk is one chunk found in the head chunk files (chunks_head).
type HeadChunk struct {
	Ref        uint64
	MinT, MaxT int64
	IsOOO      bool
	Enc        chunkenc.Encoding
	NumSamples uint16
	ChunkRef   chunks.ChunkDiskMapperRef
}

// ScanHeadChunks lists every chunk in <dbDir>/chunks_head; decode (optional) receives each
// chunk's samples (timestamp, float value or histogram sum).
func ScanHeadChunks(dbDir string, decode func(hc HeadChunk, t int64, v float64)) ([]HeadChunk, error) {
	dir := filepath.Join(dbDir, "chunks_head")
	cdm, err := chunks.NewChunkDiskMapper(nil, dir, chunkenc.NewPool(), chunks.DefaultWriteBufferSize, chunks.DefaultWriteQueueSize)
	if err != nil {
		return nil, err
	}
	defer cdm.Close()
	var out []HeadChunk
	err = cdm.IterateAllChunks(func(seriesRef chunks.HeadSeriesRef, chunkRef chunks.ChunkDiskMapperRef, mint, maxt int64, numSamples uint16, enc chunkenc.Encoding, isOOO bool) error {
		out = append(out, HeadChunk{Ref: uint64(seriesRef), MinT: mint, MaxT: maxt, IsOOO: isOOO, Enc: enc, NumSamples: numSamples, ChunkRef: chunkRef})
		return nil
	})
	if err != nil {
		return out, err
	}
	if decode != nil {
		for _, hc := range out {
			c, err := cdm.Chunk(hc.ChunkRef)
			if err != nil {
				return out, fmt.Errorf("read head chunk %d of series %d: %w", hc.ChunkRef, hc.Ref, err)
			}
			smp, err := tsdbx.IterSamples(c.Iterator(nil))
			if err != nil {
				return out, fmt.Errorf("decode head chunk %d of series %d: %w", hc.ChunkRef, hc.Ref, err)
			}
			for _, s := range smp {
				v := s.F
				switch s.Kind {
				case "h":
					v = s.H.Sum
				case "fh":
					v = s.FH.Sum
				}
				decode(hc, s.T, v)
			}
		}
	}
	return out, nil
}
