// Package c43: OTLP → Prometheus conversion keeps values, counts, sums, times and buckets
// (recording appender + re-bucketing reference).
package c43

import (
	"context"
	"fmt"
	"math"
	"math/rand/v2"
	"sort"
	"strconv"
	"strings"

	"go.opentelemetry.io/collector/pdata/pcommon"
	"go.opentelemetry.io/collector/pdata/pmetric"

	"github.com/prometheus/prometheus/model/histogram"
	"github.com/prometheus/prometheus/model/labels"
	"github.com/prometheus/prometheus/model/value"
	"github.com/prometheus/prometheus/storage"
	prw "github.com/prometheus/prometheus/storage/remote/otlptranslator/prometheusremotewrite"

	"verif/internal/core"
)

func init() {
	core.Register(&core.Prop{
		ID:        "C43",
		Title:     "OTLP metrics convert to Prometheus series without distorting values",
		Level:     "exploration",
		Technique: "recording AppenderV2 behind PrometheusConverter.FromMetrics, compared per data point with a reference model (bucket-index arithmetic on absolute boundaries)",
		LevelText: "Generated pmetric.Metrics (gauges, sums, explicit-bucket histograms, exponential histograms; scales −4…20, offsets −50…50 and a few far ones, sparse bucket arrays with zero runs at the start/middle/end, int and double values incl. NaN/±Inf, NoRecordedValue flags, cumulative and delta temporality, 1–2 resources × 1–2 scopes) are converted by the real PrometheusConverter into a recording AppenderV2. Every data point carries a unique attribute so that its appended samples can be found. Oracle: exactly the expected samples per data point (one float sample for gauge/sum, _sum/_count/_bucket{le} for classic histograms, one native histogram otherwise); value/count/sum bitwise equal; t and st equal nanoseconds/1e6; exponential histograms: schema = min(scale, 8) and the decoded (index → count) maps of both sides equal the reference map that sends OTLP bucket k to index floor(k / 2^(scale−schema)) + 1 and adds the counts, zero count equal; explicit histograms with NHCB: schema −53, custom values = bounds, bucket i = count i; delta ⇒ gauge histogram, cumulative ⇒ not gauge; NoRecordedValue ⇒ staleness marker (float StaleNaN / histogram sum StaleNaN). Held on the generated data points only.",
		LevelNote: "Trusted: pdata as the OTLP data model, histogram span/delta layout decoded by the harness (malformed layouts are violations). Reductions: zero_threshold is not generated (the converter always uses its default; the statement is silent); summaries, exemplars, target_info, metadata, label/metric-name translation (suffixes off, plain names) are not judged; metrics with delta temporality while AllowDeltaTemporality is off, unspecified temporality and scales below −4 are only required not to panic; for delta points st may be 0 or the converted start time (docs: start time is ignored); bucket counts stay below 2^50 so that merged counts fit int64.",
		DesignRef: "DESIGN.md §5 C43",
		Rule:      "case = one pmetric.Metrics with 2–6 metrics of 1–4 data points each; non-trivial iff at least one exponential-histogram data point with ≥2 populated buckets was compared bucket by bucket; distinct by the rendered data points",
		Cases: func(variant string, tier core.Tier) int {
			if variant != "default" {
				return 0
			}
			if tier == core.Thorough {
				return 100000
			}
			return 3000
		},
		Run:           run,
		MinNontrivial: func(t core.Tier) int { return 800 },
	})
}

// ---------------------------------------------------------------- recording appender

type rec struct {
	ls    labels.Labels
	st, t int64
	v     float64
	h     *histogram.Histogram
	fh    *histogram.FloatHistogram
}

type recorder struct {
	recs []rec
}

func (r *recorder) Append(_ storage.SeriesRef, ls labels.Labels, st, t int64, v float64, h *histogram.Histogram, fh *histogram.FloatHistogram, _ storage.AOptions) (storage.SeriesRef, error) {
	x := rec{ls: ls.Copy(), st: st, t: t, v: v}
	if h != nil {
		x.h = h.Copy()
	}
	if fh != nil {
		x.fh = fh.Copy()
	}
	r.recs = append(r.recs, x)
	return storage.SeriesRef(len(r.recs)), nil
}
func (*recorder) Commit() error   { return nil }
func (*recorder) Rollback() error { return nil }

// ---------------------------------------------------------------- generated data points (harness view)

type point struct {
	id     string
	metric string
	kind   string // gauge | sum | hist | exphist
	delta  bool
	judge  bool // false: only "no panic" is required
	stale  bool
	tsNs   uint64
	stNs   uint64

	// number points
	isInt bool
	i     int64
	f     float64

	// histograms
	count  uint64
	hasSum bool
	sum    float64
	// explicit
	bounds  []float64
	buckets []uint64
	// exponential
	scale     int32
	zeroCount uint64
	posOff    int32
	pos       []uint64
	negOff    int32
	neg       []uint64
}

func (p *point) String() string {
	switch p.kind {
	case "gauge", "sum":
		if p.isInt {
			return fmt.Sprintf("%s %s dp=%s int=%d ts=%d st=%d stale=%v delta=%v", p.kind, p.metric, p.id, p.i, p.tsNs, p.stNs, p.stale, p.delta)
		}
		return fmt.Sprintf("%s %s dp=%s double=%x ts=%d st=%d stale=%v delta=%v", p.kind, p.metric, p.id, math.Float64bits(p.f), p.tsNs, p.stNs, p.stale, p.delta)
	case "hist":
		return fmt.Sprintf("hist %s dp=%s bounds=%v buckets=%v count=%d sum=%v/%v ts=%d st=%d stale=%v delta=%v", p.metric, p.id, p.bounds, p.buckets, p.count, p.hasSum, p.sum, p.tsNs, p.stNs, p.stale, p.delta)
	}
	return fmt.Sprintf("exphist %s dp=%s scale=%d zero=%d pos(off=%d)=%v neg(off=%d)=%v count=%d sum=%v/%v ts=%d st=%d stale=%v delta=%v", p.metric, p.id, p.scale, p.zeroCount, p.posOff, p.pos, p.negOff, p.neg, p.count, p.hasSum, p.sum, p.tsNs, p.stNs, p.stale, p.delta)
}

// genTimes draws a sample time and a start time (nanoseconds).  With narrow=true all sample times
// of the case stay within ten minutes after base: the converter emits one target_info sample per
// 2.5 minutes between the earliest and the latest time of a resource, which is not under test here.
func genTimes(r *rand.Rand, base uint64, narrow bool) (ts, st uint64) {
	switch {
	case narrow:
		ts = base + uint64(r.Int64N(600_000_000_000))
	case r.IntN(6) == 0:
		ts = uint64(r.IntN(5_000_000)) // around the first milliseconds
	case r.IntN(5) == 0:
		ts = uint64(r.Int64N(1 << 62))
	default:
		ts = base + uint64(r.Int64N(1_000_000_000_000_000))
	}
	switch r.IntN(5) {
	case 0:
		st = 0
	case 1:
		st = ts
	case 2:
		st = ts + uint64(r.IntN(2_000_000)) // start after the sample: still just a number to convert
	default:
		if ts > 0 {
			st = ts - uint64(r.Int64N(int64(min(ts, 3_600_000_000_000))))
		}
	}
	return
}

func genFloat(r *rand.Rand) float64 {
	switch r.IntN(10) {
	case 0:
		return math.NaN()
	case 1:
		return math.Inf(1 - 2*r.IntN(2))
	case 2:
		return 0
	case 3:
		return math.Copysign(0, -1)
	case 4:
		return math.Float64frombits(r.Uint64())
	case 5:
		return float64(r.IntN(1000)) / 8
	default:
		return r.NormFloat64() * 1000
	}
}

func genCounts(r *rand.Rand, n int) []uint64 {
	out := make([]uint64, n)
	if n == 0 {
		return out
	}
	big := r.IntN(12) == 0
	val := func() uint64 {
		if big {
			return 1 + r.Uint64N(1<<50)
		}
		return 1 + uint64(r.IntN(50))
	}
	switch r.IntN(7) {
	case 0: // dense
		for i := range out {
			out[i] = val()
		}
	case 1: // all zero
	case 2: // a single populated bucket
		out[r.IntN(n)] = val()
	case 3: // zero run at the start and the end
		lo := r.IntN(n)
		hi := lo + r.IntN(n-lo)
		for i := lo; i <= hi; i++ {
			if r.IntN(4) != 0 {
				out[i] = val()
			}
		}
	case 4: // long zero run in the middle
		out[0] = val()
		out[n-1] = val()
		if n > 4 && r.IntN(2) == 0 {
			out[1] = val()
		}
	default: // sparse
		pz := 1 + r.IntN(5)
		for i := range out {
			if r.IntN(6) >= pz {
				out[i] = val()
			}
		}
	}
	return out
}

func genOffset(r *rand.Rand) int32 {
	switch r.IntN(12) {
	case 0:
		return int32(r.IntN(200001) - 100000)
	case 1:
		return int32(r.IntN(2001) - 1000)
	case 2:
		return 0
	case 3:
		return -1
	default:
		return int32(r.IntN(101) - 50)
	}
}

func sumCounts(cs ...[]uint64) uint64 {
	var s uint64
	for _, c := range cs {
		for _, x := range c {
			s += x
		}
	}
	return s
}

// ---------------------------------------------------------------- reference model

func floorDiv(a, b int64) int64 {
	q := a / b
	if (a%b != 0) && ((a < 0) != (b < 0)) {
		q--
	}
	return q
}

// refBuckets maps OTLP exponential buckets (dense counts from `offset` at `scale`) to Prometheus
// native-histogram indexes at `schema` (≤ scale).  OTLP bucket k covers (base^k, base^(k+1)], the
// Prometheus bucket with index j covers (base^(j−1), base^j]; lowering the resolution by d doubles
// the exponent range 2^d times, i.e. OTLP index k falls into floor(k / 2^d) at the target scale.
func refBuckets(counts []uint64, offset, scale, schema int32) map[int64]uint64 {
	m := map[int64]uint64{}
	width := int64(1) << uint(scale-schema)
	for i, c := range counts {
		if c == 0 {
			continue
		}
		k := int64(offset) + int64(i)
		m[floorDiv(k, width)+1] += c
	}
	return m
}

// bucketKind classifies a bucket mismatch.  The narrow kind applies iff the resolution had to be
// lowered (scale > schema) and, walking the dense source array in order, a target bucket all of
// whose source buckets are zero is followed by a populated source bucket – the situation in which
// convertBucketsLayout keeps a stale target index (see FINDINGS.md).  Everything else stays generic.
func bucketKind(counts []uint64, offset, scale, schema int32) string {
	if scale <= schema {
		return "bucket-mismatch"
	}
	width := int64(1) << uint(scale-schema)
	sawEmptyGroup := false
	var group int64
	var total uint64
	for i, c := range counts {
		g := floorDiv(int64(offset)+int64(i), width)
		if i == 0 {
			group = g
		}
		if g != group {
			if total == 0 {
				sawEmptyGroup = true
			}
			group, total = g, 0
		}
		if c > 0 && sawEmptyGroup {
			return "downscale-empty-bucket-shift"
		}
		total += c
	}
	return "bucket-mismatch"
}

// decodeSpans turns spans + deltas into index → count (zero buckets dropped); error on malformed layouts.
func decodeSpans(spans []histogram.Span, deltas []int64) (map[int64]uint64, error) {
	m := map[int64]uint64{}
	total := 0
	for _, s := range spans {
		total += int(s.Length)
	}
	if total != len(deltas) {
		return nil, fmt.Errorf("spans cover %d buckets but there are %d deltas", total, len(deltas))
	}
	idx := int64(0)
	cur := int64(0)
	j := 0
	for si, s := range spans {
		if si > 0 && s.Offset < 0 {
			return nil, fmt.Errorf("span %d has negative offset %d", si, s.Offset)
		}
		idx += int64(s.Offset)
		for l := uint32(0); l < s.Length; l++ {
			cur += deltas[j]
			j++
			if cur < 0 {
				return nil, fmt.Errorf("bucket %d has negative count %d", idx, cur)
			}
			if cur > 0 {
				m[idx] += uint64(cur)
			}
			idx++
		}
	}
	return m, nil
}

func fmtMap(m map[int64]uint64) string {
	ks := make([]int64, 0, len(m))
	for k := range m {
		ks = append(ks, k)
	}
	sort.Slice(ks, func(i, j int) bool { return ks[i] < ks[j] })
	var sb strings.Builder
	for _, k := range ks {
		fmt.Fprintf(&sb, "%d:%d ", k, m[k])
	}
	return "{" + strings.TrimSpace(sb.String()) + "}"
}

func equalMaps(a, b map[int64]uint64) bool {
	if len(a) != len(b) {
		return false
	}
	for k, v := range a {
		if b[k] != v {
			return false
		}
	}
	return true
}

func sameBits(a, b float64) bool { return math.Float64bits(a) == math.Float64bits(b) }

func isStale(f float64) bool { return math.Float64bits(f) == value.StaleNaN }

// ---------------------------------------------------------------- the case

func run(c *core.Case) {
	r := c.Rng
	md := pmetric.NewMetrics()
	settings := prw.Settings{
		AddMetricSuffixes:       false,
		AllowUTF8:               r.IntN(2) == 0,
		DisableTargetInfo:       r.IntN(2) == 0,
		ConvertHistogramsToNHCB: r.IntN(2) == 0,
		AllowDeltaTemporality:   r.IntN(4) != 0,
		PromoteScopeMetadata:    r.IntN(4) == 0,
		EnableTypeAndUnitLabels: r.IntN(4) == 0,
	}
	var points []*point
	nextID := 0
	base := []uint64{1_700_000_000_000_000_000, 0, 999_999, 1 << 61, 86_400_000_000_000}[r.IntN(5)]
	nMetric := 0
	nRes := 1 + r.IntN(2)
	for ri := 0; ri < nRes; ri++ {
		rm := md.ResourceMetrics().AppendEmpty()
		if r.IntN(2) == 0 {
			rm.Resource().Attributes().PutStr("service.name", fmt.Sprintf("svc%d", ri))
		}
		if r.IntN(3) == 0 {
			rm.Resource().Attributes().PutStr("host.name", "h")
		}
		nScope := 1 + r.IntN(2)
		for si := 0; si < nScope; si++ {
			sm := rm.ScopeMetrics().AppendEmpty()
			if r.IntN(2) == 0 {
				sm.Scope().SetName(fmt.Sprintf("scope%d", si))
				sm.Scope().SetVersion("1.0")
			}
			nm := 1 + r.IntN(3)
			for mi := 0; mi < nm; mi++ {
				m := sm.Metrics().AppendEmpty()
				nMetric++
				kind := []string{"gauge", "sum", "hist", "exphist", "exphist", "exphist"}[r.IntN(6)]
				name := fmt.Sprintf("c43_%s_%d", kind, nMetric)
				m.SetName(name)
				if r.IntN(3) == 0 {
					m.SetUnit([]string{"s", "By", "1", "ms"}[r.IntN(4)])
				}
				if r.IntN(3) == 0 {
					m.SetDescription("help text")
				}
				delta := kind != "gauge" && r.IntN(3) == 0
				unspecified := kind != "gauge" && !delta && r.IntN(25) == 0
				judge := !unspecified && (!delta || settings.AllowDeltaTemporality)
				temp := pmetric.AggregationTemporalityCumulative
				if delta {
					temp = pmetric.AggregationTemporalityDelta
				}
				if unspecified {
					temp = pmetric.AggregationTemporalityUnspecified
				}
				ndp := 1 + r.IntN(4)
				newPoint := func() *point {
					p := &point{id: fmt.Sprint(nextID), metric: name, kind: kind, delta: delta, judge: judge}
					nextID++
					p.tsNs, p.stNs = genTimes(r, base, !settings.DisableTargetInfo)
					p.stale = r.IntN(8) == 0
					points = append(points, p)
					return p
				}
				flags := func(p *point) pmetric.DataPointFlags {
					return pmetric.DefaultDataPointFlags.WithNoRecordedValue(p.stale)
				}
				switch kind {
				case "gauge", "sum":
					var dps pmetric.NumberDataPointSlice
					if kind == "gauge" {
						dps = m.SetEmptyGauge().DataPoints()
					} else {
						s := m.SetEmptySum()
						s.SetAggregationTemporality(temp)
						s.SetIsMonotonic(r.IntN(2) == 0)
						dps = s.DataPoints()
					}
					for d := 0; d < ndp; d++ {
						p := newPoint()
						dp := dps.AppendEmpty()
						dp.Attributes().PutStr("dp", p.id)
						dp.SetTimestamp(pcommon.Timestamp(p.tsNs))
						dp.SetStartTimestamp(pcommon.Timestamp(p.stNs))
						dp.SetFlags(flags(p))
						if r.IntN(2) == 0 {
							p.isInt = true
							switch r.IntN(4) {
							case 0:
								p.i = r.Int64()
							case 1:
								p.i = -r.Int64N(1 << 54)
							default:
								p.i = int64(r.IntN(100000)) - 500
							}
							dp.SetIntValue(p.i)
						} else {
							p.f = genFloat(r)
							dp.SetDoubleValue(p.f)
						}
					}
				case "hist":
					h := m.SetEmptyHistogram()
					h.SetAggregationTemporality(temp)
					for d := 0; d < ndp; d++ {
						p := newPoint()
						dp := h.DataPoints().AppendEmpty()
						dp.Attributes().PutStr("dp", p.id)
						dp.SetTimestamp(pcommon.Timestamp(p.tsNs))
						dp.SetStartTimestamp(pcommon.Timestamp(p.stNs))
						dp.SetFlags(flags(p))
						nb := r.IntN(8)
						b := -10 + float64(r.IntN(20))
						for i := 0; i < nb; i++ {
							p.bounds = append(p.bounds, b)
							b += []float64{0.001, 0.25, 1, 2.5, 1000, 1e-9}[r.IntN(6)]
						}
						p.buckets = genCounts(r, nb+1)
						p.count = sumCounts(p.buckets)
						dp.ExplicitBounds().FromRaw(append([]float64(nil), p.bounds...))
						dp.BucketCounts().FromRaw(append([]uint64(nil), p.buckets...))
						dp.SetCount(p.count)
						if r.IntN(4) != 0 {
							p.hasSum = true
							p.sum = genFloat(r)
							dp.SetSum(p.sum)
						}
					}
				case "exphist":
					h := m.SetEmptyExponentialHistogram()
					h.SetAggregationTemporality(temp)
					for d := 0; d < ndp; d++ {
						p := newPoint()
						dp := h.DataPoints().AppendEmpty()
						dp.Attributes().PutStr("dp", p.id)
						dp.SetTimestamp(pcommon.Timestamp(p.tsNs))
						dp.SetStartTimestamp(pcommon.Timestamp(p.stNs))
						dp.SetFlags(flags(p))
						p.scale = int32(r.IntN(25)) - 4 // −4 … 20
						if r.IntN(60) == 0 {
							// unsupported scale: the converter returns an error and skips the rest of the metric
							p.scale = -5 - int32(r.IntN(3))
							for _, q := range points {
								if q.metric == name {
									q.judge = false
								}
							}
							judge = false
						}
						dp.SetScale(p.scale)
						p.posOff, p.negOff = genOffset(r), genOffset(r)
						p.pos = genCounts(r, r.IntN(40))
						if r.IntN(3) == 0 {
							p.neg = genCounts(r, r.IntN(25))
						}
						if r.IntN(2) == 0 {
							p.zeroCount = uint64(r.IntN(100))
						}
						dp.Positive().SetOffset(p.posOff)
						dp.Positive().BucketCounts().FromRaw(append([]uint64(nil), p.pos...))
						dp.Negative().SetOffset(p.negOff)
						dp.Negative().BucketCounts().FromRaw(append([]uint64(nil), p.neg...))
						dp.SetZeroCount(p.zeroCount)
						p.count = sumCounts(p.pos, p.neg) + p.zeroCount
						dp.SetCount(p.count)
						if r.IntN(4) != 0 {
							p.hasSum = true
							p.sum = genFloat(r)
							dp.SetSum(p.sum)
						}
					}
				}
			}
		}
	}

	rc := &recorder{}
	conv := prw.NewPrometheusConverter(rc)
	_, cerr := conv.FromMetrics(context.Background(), md, settings)

	// index the recorded samples by data point id
	byDP := map[string][]rec{}
	for _, x := range rc.recs {
		id := x.ls.Get("dp")
		if id == "" {
			if x.ls.Get("__name__") != "target_info" {
				c.Violatef("unattributed-sample", "FromMetrics appended %s (t=%d) which belongs to no data point", x.ls, x.t)
			}
			continue
		}
		byDP[id] = append(byDP[id], x)
	}

	judged := 0
	expCompared := 0
	var keyParts []string
	for _, p := range points {
		keyParts = append(keyParts, p.String())
		got := byDP[p.id]
		if !p.judge {
			c.Count("points_not_judged", 1)
			continue
		}
		judged++
		c.Count("points_judged_"+p.kind, 1)
		if p.stale {
			c.Count("points_no_recorded_value", 1)
		}
		if p.delta {
			c.Count("points_delta", 1)
		}
		wantT := int64(p.tsNs / 1_000_000)
		wantST := int64(p.stNs / 1_000_000)
		checkTimes := func(x rec, what string) bool {
			if x.t != wantT {
				c.Violatef("timestamp-mismatch", "%s\n%s: appended t=%d, data point time is %d ns = %d ms", p, what, x.t, p.tsNs, wantT)
				return false
			}
			if x.st != wantST && !(p.delta && x.st == 0) {
				c.Violatef("start-timestamp-mismatch", "%s\n%s: appended st=%d, data point start time is %d ns = %d ms", p, what, x.st, p.stNs, wantST)
				return false
			}
			return true
		}
		switch p.kind {
		case "gauge", "sum":
			if len(got) != 1 {
				c.Violatef("sample-count-mismatch", "%s\nexpected exactly one appended sample, got %d (FromMetrics error: %v)", p, len(got), cerr)
				continue
			}
			x := got[0]
			if x.h != nil || x.fh != nil {
				c.Violatef("sample-type-mismatch", "%s\nappended as a histogram", p)
				continue
			}
			if x.ls.Get("__name__") != p.metric {
				c.Violatef("series-name-mismatch", "%s\nappended under %s", p, x.ls)
				continue
			}
			want := p.f
			if p.isInt {
				want = float64(p.i)
			}
			if p.stale {
				if !isStale(x.v) {
					c.Violatef("stale-marker-missing", "%s\nNoRecordedValue is set but the appended value is %v (%x), not the staleness marker", p, x.v, math.Float64bits(x.v))
					continue
				}
			} else if !sameBits(x.v, want) {
				c.Violatef("value-mismatch", "%s\nappended value %v (%x), data point value %v (%x)", p, x.v, math.Float64bits(x.v), want, math.Float64bits(want))
				continue
			}
			checkTimes(x, "sample")
		case "hist":
			if settings.ConvertHistogramsToNHCB {
				checkNative(c, p, got, cerr, checkTimes)
			} else {
				checkClassic(c, p, got, cerr, checkTimes)
			}
		case "exphist":
			if checkNative(c, p, got, cerr, checkTimes) {
				np := 0
				for _, x := range p.pos {
					if x > 0 {
						np++
					}
				}
				for _, x := range p.neg {
					if x > 0 {
						np++
					}
				}
				if np >= 2 && !p.stale {
					expCompared++
				}
				c.Seen("scale", fmt.Sprint(p.scale))
				if p.posOff < 0 {
					c.Count("exp_points_negative_offset", 1)
				}
				if p.scale > 8 {
					c.Count("exp_points_downscaled", 1)
				}
			}
		}
	}
	c.Count("data_points", int64(len(points)))
	c.Count("appended_samples", int64(len(rc.recs)))
	if cerr != nil {
		c.Count("frommetrics_returned_error", 1)
	}
	if expCompared > 0 && judged > 0 {
		c.Nontrivial(strings.Join(keyParts, "\n"), settings)
	}
	if c.Idx < 3 {
		var ps []string
		for i, p := range points {
			if i >= 4 {
				break
			}
			s := p.String()
			if len(s) > 400 {
				s = s[:400] + "…"
			}
			ps = append(ps, s)
		}
		c.Sample(map[string]any{"data_points": len(points), "appended_samples": len(rc.recs), "nhcb": settings.ConvertHistogramsToNHCB, "allow_delta": settings.AllowDeltaTemporality, "first_points": ps})
	}
}

// checkNative judges a data point that must become exactly one native histogram sample.
func checkNative(c *core.Case, p *point, got []rec, cerr error, checkTimes func(rec, string) bool) bool {
	if len(got) != 1 {
		c.Violatef("sample-count-mismatch", "%s\nexpected exactly one appended native histogram, got %d samples (FromMetrics error: %v)", p, len(got), cerr)
		return false
	}
	x := got[0]
	if x.h == nil {
		c.Violatef("sample-type-mismatch", "%s\nnot appended as an integer native histogram (v=%v fh=%v)", p, x.v, x.fh != nil)
		return false
	}
	if x.ls.Get("__name__") != p.metric {
		c.Violatef("series-name-mismatch", "%s\nappended under %s", p, x.ls)
		return false
	}
	h := x.h
	if !checkTimes(x, "native histogram") {
		return false
	}
	if p.delta && h.CounterResetHint != histogram.GaugeType {
		c.Violatef("delta-not-gauge-histogram", "%s\ndelta temporality must map to a gauge histogram, counter reset hint is %d", p, h.CounterResetHint)
		return false
	}
	if !p.delta && h.CounterResetHint == histogram.GaugeType {
		c.Violatef("cumulative-marked-gauge", "%s\ncumulative temporality mapped to a gauge histogram", p)
		return false
	}
	if p.stale {
		if !isStale(h.Sum) {
			c.Violatef("stale-marker-missing", "%s\nNoRecordedValue is set but the histogram sum is %v, not the staleness marker", p, h.Sum)
			return false
		}
		return true
	}
	if h.Count != p.count {
		c.Violatef("count-mismatch", "%s\nhistogram count %d, data point count %d", p, h.Count, p.count)
		return false
	}
	if p.hasSum && !sameBits(h.Sum, p.sum) {
		c.Violatef("sum-mismatch", "%s\nhistogram sum %v (%x), data point sum %v (%x)", p, h.Sum, math.Float64bits(h.Sum), p.sum, math.Float64bits(p.sum))
		return false
	}
	pos, err := decodeSpans(h.PositiveSpans, h.PositiveBuckets)
	if err != nil {
		c.Violatef("malformed-bucket-layout", "%s\npositive side: %v (spans %v deltas %v)", p, err, h.PositiveSpans, h.PositiveBuckets)
		return false
	}
	neg, err := decodeSpans(h.NegativeSpans, h.NegativeBuckets)
	if err != nil {
		c.Violatef("malformed-bucket-layout", "%s\nnegative side: %v (spans %v deltas %v)", p, err, h.NegativeSpans, h.NegativeBuckets)
		return false
	}
	if p.kind == "hist" {
		if h.Schema != histogram.CustomBucketsSchema {
			c.Violatef("schema-mismatch", "%s\nexplicit histogram converted with schema %d, want custom buckets (%d)", p, h.Schema, histogram.CustomBucketsSchema)
			return false
		}
		if len(h.CustomValues) != len(p.bounds) {
			c.Violatef("custom-bounds-mismatch", "%s\ncustom values %v, explicit bounds %v", p, h.CustomValues, p.bounds)
			return false
		}
		for i := range p.bounds {
			if !sameBits(h.CustomValues[i], p.bounds[i]) {
				c.Violatef("custom-bounds-mismatch", "%s\ncustom values %v, explicit bounds %v", p, h.CustomValues, p.bounds)
				return false
			}
		}
		want := map[int64]uint64{}
		for i, cnt := range p.buckets {
			if cnt > 0 {
				want[int64(i)] = cnt
			}
		}
		if !equalMaps(pos, want) || len(neg) != 0 {
			c.Violatef("custom-bucket-mismatch", "%s\ncustom buckets %s (negative %s), data point buckets %s\nspans %v deltas %v", p, fmtMap(pos), fmtMap(neg), fmtMap(want), h.PositiveSpans, h.PositiveBuckets)
			return false
		}
		return true
	}
	wantSchema := min(p.scale, 8)
	if h.Schema != wantSchema {
		c.Violatef("schema-mismatch", "%s\nschema %d, want min(scale, 8) = %d", p, h.Schema, wantSchema)
		return false
	}
	if h.ZeroCount != p.zeroCount {
		c.Violatef("zero-count-mismatch", "%s\nzero count %d, data point zero count %d", p, h.ZeroCount, p.zeroCount)
		return false
	}
	wantPos := refBuckets(p.pos, p.posOff, p.scale, wantSchema)
	wantNeg := refBuckets(p.neg, p.negOff, p.scale, wantSchema)
	if !equalMaps(pos, wantPos) {
		c.Violatef(bucketKind(p.pos, p.posOff, p.scale, wantSchema), "%s\npositive buckets at schema %d: converted %s, reference %s\nspans %v deltas %v", p, wantSchema, fmtMap(pos), fmtMap(wantPos), h.PositiveSpans, h.PositiveBuckets)
		return false
	}
	if !equalMaps(neg, wantNeg) {
		c.Violatef(bucketKind(p.neg, p.negOff, p.scale, wantSchema), "%s\nnegative buckets at schema %d: converted %s, reference %s\nspans %v deltas %v", p, wantSchema, fmtMap(neg), fmtMap(wantNeg), h.NegativeSpans, h.NegativeBuckets)
		return false
	}
	return true
}

// checkClassic judges an explicit histogram converted to _sum/_count/_bucket series.
func checkClassic(c *core.Case, p *point, got []rec, cerr error, checkTimes func(rec, string) bool) {
	wantVal := func(x rec, want float64, what string) bool {
		if x.h != nil || x.fh != nil {
			c.Violatef("sample-type-mismatch", "%s\n%s appended as a histogram", p, what)
			return false
		}
		if p.stale {
			if !isStale(x.v) {
				c.Violatef("stale-marker-missing", "%s\n%s: NoRecordedValue is set but the appended value is %v", p, what, x.v)
				return false
			}
		} else if !sameBits(x.v, want) {
			c.Violatef("value-mismatch", "%s\n%s: appended %v, expected %v", p, what, x.v, want)
			return false
		}
		return checkTimes(x, what)
	}
	seen := map[string]bool{}
	nBound := min(len(p.bounds), len(p.buckets))
	for _, x := range got {
		name := x.ls.Get("__name__")
		key := name + "|" + x.ls.Get("le")
		if seen[key] {
			c.Violatef("sample-count-mismatch", "%s\nseries %s appended twice for one data point", p, x.ls)
			return
		}
		seen[key] = true
		switch name {
		case p.metric + "_sum":
			if !p.hasSum {
				c.Violatef("unexpected-series", "%s\n_sum appended although the data point has no sum", p)
				return
			}
			if !wantVal(x, p.sum, "_sum") {
				return
			}
		case p.metric + "_count":
			if !wantVal(x, float64(p.count), "_count") {
				return
			}
		case p.metric + "_bucket":
			le := x.ls.Get("le")
			bound, err := strconv.ParseFloat(le, 64)
			if err != nil {
				c.Violatef("unexpected-series", "%s\n_bucket with unparsable le=%q", p, le)
				return
			}
			if math.IsInf(bound, 1) {
				if !wantVal(x, float64(p.count), "_bucket{le=+Inf}") {
					return
				}
				continue
			}
			idx := -1
			for i := 0; i < nBound; i++ {
				if sameBits(p.bounds[i], bound) {
					idx = i
				}
			}
			if idx < 0 {
				c.Violatef("unexpected-series", "%s\n_bucket with le=%q which is none of the explicit bounds", p, le)
				return
			}
			var cum uint64
			for i := 0; i <= idx; i++ {
				cum += p.buckets[i]
			}
			if !wantVal(x, float64(cum), "_bucket{le="+le+"}") {
				return
			}
		default:
			c.Violatef("unexpected-series", "%s\nunexpected series %s", p, x.ls)
			return
		}
	}
	want := 2 + nBound // _count, +Inf, one per bound
	if p.hasSum {
		want++
	}
	if len(got) != want {
		c.Violatef("sample-count-mismatch", "%s\nexpected %d classic histogram samples (_count, le=+Inf, %d bounds, sum=%v), got %d (FromMetrics error: %v)", p, want, nBound, p.hasSum, len(got), cerr)
	}
}
