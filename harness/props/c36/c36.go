// Package c36: classic histograms convert to native histograms with custom buckets (NHCB) without
// loss.  Generated classic histogram families are rendered as Prometheus text, OpenMetrics and
// protobuf payloads and parsed with and without ConvertClassicHistogramsToNHCB (± keep-classic);
// the converted stream is compared with the histograms computed from the generated model and with
// the non-converting parse.
package c36

import (
	"bytes"
	"crypto/sha256"
	"fmt"
	"math"
	"math/rand/v2"
	"sort"
	"strconv"
	"strings"

	dto "github.com/prometheus/client_model/go"
	"github.com/prometheus/common/expfmt"
	"google.golang.org/protobuf/types/known/timestamppb"

	"github.com/prometheus/prometheus/model/histogram"
	"github.com/prometheus/prometheus/model/labels"
	"github.com/prometheus/prometheus/model/textparse"

	"verif/internal/core"
	"verif/internal/gen"
	"verif/props/c35/expo"
)

const (
	kindInterleaved  = "nhcb-interleaved-label-sets"
	kindNextTs       = "nhcb-timestamp-of-following-series"
	kindStaleExTs    = "nhcb-exemplar-stale-timestamp"
	kindKeepExemplar = "nhcb-keep-classic-exemplar-consumed"
)

func init() {
	core.Register(&core.Prop{
		ID:        "C36",
		Title:     "Classic histograms convert to custom-bucket histograms without loss",
		Level:     "exploration",
		Technique: "model-based runtime monitor: NHCB-converting parse vs histograms computed from the generated family model, and vs the non-converting parse of the same payload (text, OpenMetrics, protobuf)",
		LevelText: "Generated payloads hold 1-4 classic histogram families (1-4 label sets each; 0-7 finite buckets incl. negative bounds; +Inf bucket present or missing; integer or fractional counts; explicit timestamps; bucket exemplars and _created/created_timestamp in OpenMetrics and protobuf; in protobuf also series that additionally carry an exponential native histogram) between counters, gauges and untyped '*_bucket' look-alikes. Text and OpenMetrics payloads are written by the harness so that the series of one label set come in the standard order, count/sum first, or shuffled, and so that the label sets of a family are either contiguous or interleaved line by line; the protobuf payload is encoded with expfmt. Each payload is parsed through textparse.New four times: conversion off/on × keep-classic off/on. Oracle: with conversion the multiset of histogram entries equals {one NHCB per classic histogram of the model: base name + labels without le, custom bounds = finite upper bounds, de-cumulated counts, count, sum, timestamp, bucket exemplars, start timestamp} ∪ {the exponential histograms of the non-converting parse}; the float-series sequence equals the non-converting parse minus the converted classic series (keep off) or equals it exactly (keep on). Held on the observed payloads only.",
		LevelNote: "Histogram values are compared in the float domain (integer vs float NHCB is not prescribed). Entry order between histograms and other series, Series() byte strings, metadata entries and counter-reset hints are not judged. StartTimestamp is only read where the scrape loop reads it (protobuf; OpenMetrics with OpenMetricsSkipSTSeries). Protobuf NHCB exemplars without a timestamp may be dropped (the protobuf parser documents that it deliberately drops timestamp-less exemplars of native histograms): accepted either way, counted. A payload the non-converting parser rejects is a harness error, not a violation. Four failure mechanisms of the text/OpenMetrics wrapper are recorded as known findings with their own kinds and predicates (FINDINGS.md): '" + kindInterleaved + "' (every mismatching entry belongs to a family whose label sets were interleaved in that payload), '" + kindNextTs + "' (entry equal to the expectation except that it carries exactly the timestamp of the following series line), '" + kindStaleExTs + "' (equal except that exemplars without timestamp in the input carry one), '" + kindKeepExemplar + "' (OpenMetrics keep-classic: kept bucket series lost their exemplar, nothing else differs); any other difference keeps the kinds nhcb-mismatch / nhcb-keep-classic-mismatch / nhcb-parse-error. Protobuf families are native+classic for all their metrics or for none (mixed families: see C35).",
		DesignRef: "DESIGN.md §5 C36, §10 finding 15",
		Rule:      "case = one generated family model rendered in three formats, each parsed in four option combinations; non-trivial iff at least one classic histogram with ≥2 finite buckets was converted and compared in every format; distinct by the hash of the three payloads",
		Cases: func(variant string, tier core.Tier) int {
			if variant != "default" {
				return 0
			}
			if tier == core.Thorough {
				return 100000
			}
			return 3000
		},
		Run:           run,
		MinNontrivial: func(t core.Tier) int { return 1000 },
	})
}

// ---------------------------------------------------------------- model

type exm struct {
	lbl   [][2]string
	v     float64
	hasTs bool
	ts    int64 // ms
}

type bkt struct {
	le  float64
	cum float64
	ex  *exm
}

type hseries struct {
	lbls    [][2]string // sorted, unique, never "le"
	ts      int64       // ms, 0 = none
	finite  []bkt       // ascending finite bounds
	hasInf  bool
	infEx   *exm
	count   float64
	sum     float64
	created int64 // ms, 0 = none
	native  bool  // protobuf only: also carries an exponential histogram
	order   int
}

type sseries struct {
	lbls [][2]string
	v    float64
	ts   int64
}

type family struct {
	name       string
	kind       string // histogram | counter | gauge | untyped_bucket
	help       string
	hs         []hseries
	ss         []sseries
	interleave bool
}

var lnames = []string{"a", "b", "code", "instance", "job", "path", "zone"}
var lvalues = []string{"1", "2", "x", "y", "200", "/api/v1", "with space", "q\"uote", "back\\slash", "new\nline", "日本", "", "le"}

func genLabels(r *rand.Rand, n int) [][2]string {
	seen := map[string]bool{}
	var out [][2]string
	for len(out) < n {
		k := lnames[r.IntN(len(lnames))]
		if seen[k] {
			continue
		}
		seen[k] = true
		v := lvalues[r.IntN(len(lvalues))]
		if v == "" {
			v = "e"
		}
		out = append(out, [2]string{k, v})
	}
	sort.Slice(out, func(i, j int) bool { return out[i][0] < out[j][0] })
	return out
}

func lblKey(l [][2]string) string { return fmt.Sprint(l) }

func genTs(r *rand.Rand) int64 {
	if r.IntN(3) != 0 {
		return 0
	}
	return int64(1+r.IntN(4000000)) * 500
}

func genExemplar(r *rand.Rand) *exm {
	if r.IntN(4) != 0 {
		return nil
	}
	e := &exm{lbl: [][2]string{{"trace_id", fmt.Sprintf("t%d", r.IntN(1000))}}, v: float64(r.IntN(1000)) / 8}
	if r.IntN(3) == 0 {
		e.lbl = append(e.lbl, [2]string{"span", "s1"})
	}
	if r.IntN(3) != 0 {
		e.hasTs, e.ts = true, int64(1+r.IntN(4000000))*500
	}
	return e
}

func genHistSeries(r *rand.Rand, lbls [][2]string, float bool) hseries {
	h := hseries{lbls: lbls, ts: genTs(r), order: r.IntN(4)}
	nb := []int{0, 1, 2, 2, 3, 3, 4, 5, 7}[r.IntN(9)]
	le := float64(r.IntN(10)-6) * 0.5
	cum := 0.0
	for i := 0; i < nb; i++ {
		if float {
			cum += float64(r.IntN(12)) * 0.25
		} else {
			cum += float64(r.IntN(6))
		}
		h.finite = append(h.finite, bkt{le: le, cum: cum, ex: genExemplar(r)})
		le += []float64{0.5, 1, 0.25, 2.5, 10, 0.001}[r.IntN(6)]
	}
	h.hasInf = r.IntN(4) != 0
	h.count = cum
	if r.IntN(2) == 0 {
		if float {
			h.count += float64(r.IntN(8)) * 0.5
		} else {
			h.count += float64(r.IntN(5))
		}
	}
	if h.hasInf {
		h.infEx = genExemplar(r)
	}
	h.sum = float64(r.IntN(4000)-1000) / 8
	if r.IntN(3) == 0 {
		h.created = int64(1+r.IntN(2000000)) * 500
	}
	return h
}

func genModel(r *rand.Rand) []*family {
	var fams []*family
	nf := 1 + r.IntN(5)
	hcount := 0
	for i := 0; i < nf; i++ {
		f := &family{name: fmt.Sprintf("%s%d", []string{"rpc_duration_seconds", "h", "req_size_bytes", "lat", "x_sum_thing"}[r.IntN(5)], i), help: "help text " + strconv.Itoa(i)}
		k := r.IntN(10)
		if i == nf-1 && hcount == 0 {
			k = 0
		}
		switch {
		case k < 6:
			f.kind = "histogram"
			hcount++
			nls := []int{1, 1, 2, 2, 3, 4}[r.IntN(6)]
			nl := r.IntN(3)
			float := r.IntN(5) == 0
			seen := map[string]bool{}
			for len(f.hs) < nls {
				l := genLabels(r, nl)
				if nl == 0 && len(f.hs) > 0 {
					nl = 1
					continue
				}
				if seen[lblKey(l)] {
					nl = min(nl+1, 3)
					continue
				}
				seen[lblKey(l)] = true
				f.hs = append(f.hs, genHistSeries(r, l, float))
			}
			f.interleave = len(f.hs) >= 2 && r.IntN(3) == 0
			if r.IntN(4) == 0 { // one shared timestamp for all label sets
				for j := range f.hs {
					f.hs[j].ts = f.hs[0].ts
				}
			}
			if r.IntN(5) == 0 && !float { // (integer counts: the exponential part is written with integer deltas)
				// protobuf only: every metric of the family also carries an exponential histogram (what a
				// client library configured for both representations exposes).  Families that mix metrics with
				// and without a native part are left to C35: the protobuf parser decides per family.
				for j := range f.hs {
					f.hs[j].native = true
				}
			}
		case k < 7:
			f.kind = "counter"
		case k < 9:
			f.kind = "gauge"
		default:
			f.kind = "untyped_bucket"
			f.name += "_bucket"
		}
		if f.kind != "histogram" {
			n := 1 + r.IntN(3)
			seen := map[string]bool{}
			for len(f.ss) < n {
				l := genLabels(r, 1+r.IntN(2))
				if f.kind == "untyped_bucket" {
					l = append(l, [2]string{"le", []string{"1", "+Inf", "0.5"}[len(f.ss)%3]})
					sort.Slice(l, func(i, j int) bool { return l[i][0] < l[j][0] })
				}
				if seen[lblKey(l)] {
					continue
				}
				seen[lblKey(l)] = true
				f.ss = append(f.ss, sseries{lbls: l, v: float64(r.IntN(1000)) / 4, ts: genTs(r)})
			}
		}
		fams = append(fams, f)
	}
	return fams
}

// ---------------------------------------------------------------- text / OpenMetrics writers

type writerOpts struct {
	om        bool
	leFirst   bool
	intLeDot0 bool // write integral bounds as "1.0" instead of "1"
	skipST    bool // OpenMetricsSkipSTSeries will be set when parsing (the _created lines are then invisible)
	comments  bool
}

func fmtFloat(v float64) string {
	switch {
	case math.IsInf(v, 1):
		return "+Inf"
	case math.IsInf(v, -1):
		return "-Inf"
	}
	return strconv.FormatFloat(v, 'g', -1, 64)
}

func (o writerOpts) le(v float64) string {
	s := fmtFloat(v)
	if o.intLeDot0 && v == math.Trunc(v) && !math.IsInf(v, 0) && !strings.ContainsAny(s, "e.") {
		s += ".0"
	}
	return s
}

func (o writerOpts) ts(ms int64) string {
	if ms == 0 {
		return ""
	}
	if o.om {
		return " " + strconv.FormatFloat(float64(ms)/1000, 'f', -1, 64)
	}
	return " " + strconv.FormatInt(ms, 10)
}

func renderLabels(l [][2]string, extraLe string, leFirst bool) string {
	var parts []string
	for _, kv := range l {
		parts = append(parts, kv[0]+`="`+expo.EscapeLabelValue(kv[1])+`"`)
	}
	if extraLe != "" {
		le := `le="` + extraLe + `"`
		if leFirst {
			parts = append([]string{le}, parts...)
		} else {
			parts = append(parts, le)
		}
	}
	if len(parts) == 0 {
		return ""
	}
	return "{" + strings.Join(parts, ",") + "}"
}

func (o writerOpts) exemplar(e *exm) string {
	if e == nil || !o.om {
		return ""
	}
	s := " # " + renderLabels(e.lbl, "", false) + " " + fmtFloat(e.v)
	if len(e.lbl) == 0 {
		s = " # {} " + fmtFloat(e.v)
	}
	if e.hasTs {
		s += " " + strconv.FormatFloat(float64(e.ts)/1000, 'f', -1, 64)
	}
	return s
}

// histLines returns the lines of one label set in the order variant of the series.
func (o writerOpts) histLines(r *rand.Rand, f *family, h *hseries) []string {
	var bl []string
	for _, b := range h.finite {
		bl = append(bl, f.name+"_bucket"+renderLabels(h.lbls, o.le(b.le), o.leFirst)+" "+fmtFloat(b.cum)+o.ts(h.ts)+o.exemplar(b.ex))
	}
	if h.hasInf {
		bl = append(bl, f.name+"_bucket"+renderLabels(h.lbls, "+Inf", o.leFirst)+" "+fmtFloat(h.count)+o.ts(h.ts)+o.exemplar(h.infEx))
	}
	sum := f.name + "_sum" + renderLabels(h.lbls, "", false) + " " + fmtFloat(h.sum) + o.ts(h.ts)
	cnt := f.name + "_count" + renderLabels(h.lbls, "", false) + " " + fmtFloat(h.count) + o.ts(h.ts)
	var out []string
	switch h.order {
	case 0:
		out = append(append(out, bl...), sum, cnt)
	case 1:
		out = append(append(out, cnt, sum), bl...)
	case 2:
		r.Shuffle(len(bl), func(i, j int) { bl[i], bl[j] = bl[j], bl[i] })
		out = append(append(out, bl...), sum, cnt)
	default:
		for i, j := 0, len(bl)-1; i < j; i, j = i+1, j-1 {
			bl[i], bl[j] = bl[j], bl[i]
		}
		out = append(append(append(out, sum), bl...), cnt)
	}
	if o.om && h.created != 0 {
		out = append(out, f.name+"_created"+renderLabels(h.lbls, "", false)+" "+strconv.FormatFloat(float64(h.created)/1000, 'f', -1, 64))
	}
	return out
}

// render writes the model as Prometheus text or OpenMetrics.  It returns the payload and the set of
// family names whose label sets really ended up interleaved.
//
// nextTs tells, for the label sets of contiguous families, the timestamp (0 = none) of the series line
// that directly follows the last classic series of that label set; label sets followed by a metadata
// line or the end of the payload have no entry.
func render(r *rand.Rand, fams []*family, o writerOpts) ([]byte, map[string]bool, map[string]int64) {
	var sb strings.Builder
	inter := map[string]bool{}
	nextTs := map[string]int64{}
	for _, f := range fams {
		if o.comments && !o.om && r.IntN(4) == 0 {
			sb.WriteString("# a free comment\n")
		}
		fmt.Fprintf(&sb, "# HELP %s %s\n", f.name, f.help)
		switch f.kind {
		case "histogram":
			fmt.Fprintf(&sb, "# TYPE %s histogram\n", f.name)
			groups := make([][]string, len(f.hs))
			for i := range f.hs {
				h := f.hs[i]
				if f.interleave {
					h.created = 0 // keep interleaved inputs minimal: no _created lines
				}
				groups[i] = o.histLines(r, f, &h)
			}
			if f.interleave {
				// round robin, 1-2 lines of each label set in turn
				pos := make([]int, len(groups))
				for {
					progressed := false
					for g := range groups {
						n := 1 + r.IntN(2)
						if pos[g] == 0 {
							n = min(n, len(groups[g])-1) // never a whole label set in one go (every set has ≥ 2 lines)
						}
						for ; n > 0 && pos[g] < len(groups[g]); n-- {
							sb.WriteString(groups[g][pos[g]] + "\n")
							pos[g]++
							progressed = true
						}
					}
					if !progressed {
						break
					}
				}
				inter[f.name] = true
			} else {
				for gi, g := range groups {
					for _, l := range g {
						sb.WriteString(l + "\n")
					}
					h := &f.hs[gi]
					switch {
					case o.om && h.created != 0 && !o.skipST:
						nextTs[hsKey(f, h)] = 0 // its own _created line, which carries no timestamp
					case gi+1 < len(groups):
						nextTs[hsKey(f, h)] = f.hs[gi+1].ts
					}
				}
			}
		case "counter":
			fmt.Fprintf(&sb, "# TYPE %s counter\n", f.name)
			for _, s := range f.ss {
				n := f.name
				if o.om {
					n += "_total"
				}
				sb.WriteString(n + renderLabels(s.lbls, "", false) + " " + fmtFloat(s.v) + o.ts(s.ts) + "\n")
			}
		case "gauge":
			fmt.Fprintf(&sb, "# TYPE %s gauge\n", f.name)
			for _, s := range f.ss {
				sb.WriteString(f.name + renderLabels(s.lbls, "", false) + " " + fmtFloat(s.v) + o.ts(s.ts) + "\n")
			}
		case "untyped_bucket":
			if o.om {
				fmt.Fprintf(&sb, "# TYPE %s unknown\n", f.name)
			} else {
				fmt.Fprintf(&sb, "# TYPE %s untyped\n", f.name)
			}
			for _, s := range f.ss {
				sb.WriteString(f.name + renderLabels(s.lbls, "", false) + " " + fmtFloat(s.v) + o.ts(s.ts) + "\n")
			}
		}
	}
	if o.om {
		sb.WriteString("# EOF\n")
	}
	return []byte(sb.String()), inter, nextTs
}

func hsKey(f *family, h *hseries) string { return f.name + "|" + lblKey(h.lbls) }

// ---------------------------------------------------------------- protobuf writer

func lp(l [][2]string) []*dto.LabelPair {
	var out []*dto.LabelPair
	for _, kv := range l {
		k, v := kv[0], kv[1]
		out = append(out, &dto.LabelPair{Name: &k, Value: &v})
	}
	return out
}

func tsProto(ms int64) *timestamppb.Timestamp {
	return &timestamppb.Timestamp{Seconds: ms / 1000, Nanos: int32(ms%1000) * 1e6}
}

func exProto(e *exm) *dto.Exemplar {
	if e == nil {
		return nil
	}
	v := e.v
	x := &dto.Exemplar{Label: lp(e.lbl), Value: &v}
	if e.hasTs {
		x.Timestamp = tsProto(e.ts)
	}
	return x
}

func isIntegral(h *hseries) bool {
	if h.count != math.Trunc(h.count) {
		return false
	}
	for _, b := range h.finite {
		if b.cum != math.Trunc(b.cum) {
			return false
		}
	}
	return true
}

func renderProto(fams []*family) []byte {
	var buf bytes.Buffer
	enc := expfmt.NewEncoder(&buf, expfmt.NewFormat(expfmt.TypeProtoDelim))
	for _, f := range fams {
		name, help := f.name, f.help
		mf := &dto.MetricFamily{Name: &name, Help: &help}
		var t dto.MetricType
		switch f.kind {
		case "histogram":
			t = dto.MetricType_HISTOGRAM
			for i := range f.hs {
				h := &f.hs[i]
				sum := h.sum
				ph := &dto.Histogram{SampleSum: &sum}
				integral := isIntegral(h)
				if integral {
					c := uint64(h.count)
					ph.SampleCount = &c
				} else {
					c := h.count
					ph.SampleCountFloat = &c
				}
				add := func(le, cum float64, e *exm) {
					b := &dto.Bucket{UpperBound: &le, Exemplar: exProto(e)}
					if integral {
						c := uint64(cum)
						b.CumulativeCount = &c
					} else {
						b.CumulativeCountFloat = &cum
					}
					ph.Bucket = append(ph.Bucket, b)
				}
				for _, b := range h.finite {
					add(b.le, b.cum, b.ex)
				}
				if h.hasInf {
					add(math.Inf(1), h.count, h.infEx)
				}
				if h.created != 0 {
					ph.CreatedTimestamp = tsProto(h.created)
				}
				if h.native {
					schema, zt, zc := int32(3), 0.001, uint64(2)
					off, ln := int32(1), uint32(2)
					ph.Schema, ph.ZeroThreshold, ph.ZeroCount = &schema, &zt, &zc
					ph.PositiveSpan = []*dto.BucketSpan{{Offset: &off, Length: &ln}}
					ph.PositiveDelta = []int64{1, 2}
				}
				m := &dto.Metric{Label: lp(h.lbls), Histogram: ph}
				if h.ts != 0 {
					ts := h.ts
					m.TimestampMs = &ts
				}
				mf.Metric = append(mf.Metric, m)
			}
		default:
			for _, s := range f.ss {
				v := s.v
				m := &dto.Metric{Label: lp(s.lbls)}
				switch f.kind {
				case "counter":
					t = dto.MetricType_COUNTER
					m.Counter = &dto.Counter{Value: &v}
				case "gauge":
					t = dto.MetricType_GAUGE
					m.Gauge = &dto.Gauge{Value: &v}
				default:
					t = dto.MetricType_UNTYPED
					m.Untyped = &dto.Untyped{Value: &v}
				}
				if s.ts != 0 {
					ts := s.ts
					m.TimestampMs = &ts
				}
				mf.Metric = append(mf.Metric, m)
			}
		}
		mf.Type = &t
		core.Must(enc.Encode(mf), "expfmt protobuf encode")
	}
	return buf.Bytes()
}

// ---------------------------------------------------------------- expectation

type expHist struct {
	family   string
	labels   string
	ts       int64
	hkey     string
	exReq    []string // exemplar keys that must be present
	exOpt    []string // exemplar keys that may be dropped (protobuf, no timestamp)
	st       int64
	rendered string
	hasNext  bool  // a series line follows the last classic series of this label set …
	nextTs   int64 // … with this timestamp (0 = none)
}

// matchMode relaxes the comparison towards one of the recorded failure mechanisms.
type matchMode struct {
	nextTs    bool // the entry carries the timestamp of the following series line
	staleExTs bool // exemplars without a timestamp in the input may come out with one
}

func exKey(e *exm) string {
	var ss []string
	for _, kv := range e.lbl {
		ss = append(ss, kv[0], kv[1])
	}
	return expo.Ex{Labels: labels.FromStrings(ss...).String(), Value: e.v, HasTs: e.hasTs, Ts: e.ts}.Key()
}

func expected(f *family, h *hseries, format string, wantST bool) expHist {
	ss := []string{"__name__", f.name}
	for _, kv := range h.lbls {
		ss = append(ss, kv[0], kv[1])
	}
	fh := &histogram.FloatHistogram{Schema: histogram.CustomBucketsSchema, Count: h.count, Sum: h.sum}
	prev := 0.0
	for _, b := range h.finite {
		fh.CustomValues = append(fh.CustomValues, b.le)
		fh.PositiveBuckets = append(fh.PositiveBuckets, b.cum-prev)
		prev = b.cum
	}
	fh.PositiveBuckets = append(fh.PositiveBuckets, h.count-prev)
	fh.PositiveSpans = []histogram.Span{{Offset: 0, Length: uint32(len(fh.PositiveBuckets))}}
	e := expHist{family: f.name, labels: labels.FromStrings(ss...).String(), ts: h.ts, hkey: gen.FloatHistKey(fh)}
	if format != "text" {
		exs := []*exm{}
		for _, b := range h.finite {
			exs = append(exs, b.ex)
		}
		exs = append(exs, h.infEx)
		for _, x := range exs {
			if x == nil {
				continue
			}
			if format == "proto" && !x.hasTs {
				e.exOpt = append(e.exOpt, exKey(x))
			} else {
				e.exReq = append(e.exReq, exKey(x))
			}
		}
	}
	if wantST {
		e.st = h.created
	}
	e.rendered = fmt.Sprintf("%s t=%d bounds=%v buckets=%v count=%v sum=%v exemplars=%d+%d st=%d", e.labels, e.ts, fh.CustomValues, fh.PositiveBuckets, h.count, h.sum, len(e.exReq), len(e.exOpt), e.st)
	return e
}

// matches reports whether a parsed histogram entry is the expected NHCB.
func (e *expHist) matches(en *expo.Entry, checkST bool, m matchMode) bool {
	if en.Labels.String() != e.labels || en.HistKey() != e.hkey {
		return false
	}
	wantTs := e.ts
	if m.nextTs {
		if !e.hasNext || e.nextTs == e.ts {
			return false
		}
		wantTs = e.nextTs
	}
	if (wantTs != 0) != en.HasTs || (en.HasTs && en.Ts != wantTs) {
		return false
	}
	if checkST && en.ST != e.st {
		return false
	}
	got := map[string]int{}
	var gotWithTs []expo.Ex
	for _, x := range en.Ex {
		got[x.Key()]++
		if x.HasTs {
			gotWithTs = append(gotWithTs, x)
		}
	}
	stale := 0
	for _, k := range e.exReq {
		if got[k] > 0 {
			got[k]--
			continue
		}
		if !m.staleExTs {
			return false
		}
		// k renders an exemplar without timestamp ("labels value"): accept the same exemplar with one
		hit := false
		for _, x := range gotWithTs {
			y := x
			y.HasTs, y.Ts = false, 0
			if y.Key() == k && got[x.Key()] > 0 {
				got[x.Key()]--
				hit = true
				stale++
				break
			}
		}
		if !hit {
			return false
		}
	}
	if m.staleExTs && stale == 0 {
		return false
	}
	for _, k := range e.exOpt {
		if got[k] > 0 {
			got[k]--
		}
	}
	for _, n := range got {
		if n != 0 {
			return false
		}
	}
	return true
}

// baseName maps a series name to its histogram family (if it is one of its classic series).
func baseName(name string, histFams map[string]bool) (string, bool) {
	for _, suf := range []string{"_bucket", "_sum", "_count"} {
		if b, ok := strings.CutSuffix(name, suf); ok && histFams[b] {
			return b, true
		}
	}
	return name, false
}

func famOf(name string, histFams map[string]bool) string {
	if b, ok := baseName(name, histFams); ok {
		return b
	}
	if b, ok := strings.CutSuffix(name, "_created"); ok && histFams[b] {
		return b
	}
	return name
}

// ---------------------------------------------------------------- the case

type formatRun struct {
	name    string
	ct      string
	payload []byte
	inter   map[string]bool
	nextTs  map[string]int64
	readST  bool
	opts    textparse.ParserOptions
}

func parse(c *core.Case, fr *formatRun, convert, keep bool) ([]expo.Entry, error) {
	o := fr.opts
	o.ConvertClassicHistogramsToNHCB = convert
	o.KeepClassicOnClassicAndNativeHistograms = keep
	p, err := textparse.New(fr.payload, fr.ct, labels.NewSymbolTable(), o)
	if p == nil {
		core.Must(fmt.Errorf("textparse.New(%s): %v", fr.ct, err), "parser")
	}
	return expo.ReadAll(p, expo.ReadOpts{StartTimestamps: fr.readST})
}

func run(c *core.Case) {
	r := c.Rng
	fams := genModel(r)
	skipST := r.IntN(2) == 0
	wo := writerOpts{leFirst: r.IntN(4) == 0, intLeDot0: r.IntN(2) == 0, comments: true, skipST: skipST}
	text, interT, nextT := render(r, fams, wo)
	wo.om = true
	om, interO, nextO := render(r, fams, wo)
	pb := renderProto(fams)
	runs := []*formatRun{
		{name: "text", ct: expo.CTText, payload: text, inter: interT, nextTs: nextT},
		{name: "om", ct: expo.CTOM, payload: om, inter: interO, nextTs: nextO, readST: skipST, opts: textparse.ParserOptions{OpenMetricsSkipSTSeries: skipST}},
		{name: "proto", ct: expo.CTProto, payload: pb, inter: map[string]bool{}, readST: true},
	}
	histFams := map[string]bool{}
	for _, f := range fams {
		if f.kind == "histogram" {
			histFams[f.name] = true
		}
	}
	sum := sha256.Sum256(append(append(append([]byte{}, text...), om...), pb...))
	formatsWithBig := 0
	for _, fr := range runs {
		big := 0
		for _, keep := range []bool{false, true} {
			base, err := parse(c, fr, false, keep)
			if err != nil {
				core.Must(fmt.Errorf("%s payload rejected by the non-converting parser: %v\n%s", fr.name, err, clip(fr.payload)), "harness payload")
			}
			got, err := parse(c, fr, true, keep)
			if err != nil {
				kind := "nhcb-parse-error"
				if len(fr.inter) > 0 {
					kind = kindInterleaved + "-parse-error"
				}
				c.Violatef(kind, "%s, keep=%v: converting parse fails with %v, the non-converting parse succeeds\npayload:\n%s", fr.name, keep, err, clip(fr.payload))
				continue
			}
			n := compare(c, fr, fams, histFams, base, got, keep)
			if !keep {
				big = n
			}
		}
		if big > 0 {
			formatsWithBig++
		}
		c.Count("payloads_"+fr.name, 1)
		if len(fr.inter) > 0 {
			c.Count("payloads_with_interleaved_label_sets_"+fr.name, 1)
		}
	}
	if formatsWithBig == len(runs) {
		c.Nontrivial(fmt.Sprintf("%x", sum[:12]))
	}
	if c.Idx < 3 {
		c.Sample(map[string]any{"text_payload": clip(text), "families": len(fams), "openmetrics_skip_st_series": skipST})
	}
}

func clip(b []byte) string {
	if len(b) > 2500 {
		return string(b[:2500]) + "…"
	}
	if len(b) > 0 && bytes.IndexByte(b, 0) >= 0 {
		return fmt.Sprintf("%q", b)
	}
	return string(b)
}

// problems collects the mismatches of one converting parse, grouped by failure mechanism.
type problems struct {
	byKind map[string][]string
	fams   map[string]map[string]bool // kind -> family names involved
}

func (p *problems) add(kind, fam, format string, args ...any) {
	if p.byKind == nil {
		p.byKind, p.fams = map[string][]string{}, map[string]map[string]bool{}
	}
	if p.fams[kind] == nil {
		p.fams[kind] = map[string]bool{}
	}
	p.fams[kind][fam] = true
	if len(p.byKind[kind]) < 10 {
		p.byKind[kind] = append(p.byKind[kind], fmt.Sprintf(format, args...))
	}
}

// compare checks one converting parse against the model and the non-converting parse.  It returns
// the number of classic histograms with ≥2 finite buckets found converted exactly as expected.
func compare(c *core.Case, fr *formatRun, fams []*family, histFams map[string]bool, base, got []expo.Entry, keep bool) int {
	const generic = "nhcb-mismatch"
	// ---- expectation: histograms
	var exp []expHist
	nativeLS := map[string]bool{} // label strings (base name) of series carrying an exponential histogram
	big := map[string]bool{}
	for _, f := range fams {
		if f.kind != "histogram" {
			continue
		}
		for i := range f.hs {
			h := &f.hs[i]
			hh := *h
			if fr.name != "proto" && f.interleave {
				hh.created = 0
			}
			e := expected(f, &hh, fr.name, fr.readST)
			if nt, ok := fr.nextTs[hsKey(f, h)]; ok {
				e.hasNext, e.nextTs = true, nt
			}
			if fr.name == "proto" && h.native {
				nativeLS[e.labels] = true
				continue
			}
			exp = append(exp, e)
			if len(h.finite) >= 2 {
				big[e.labels] = true
			}
		}
	}
	var baseHist, baseSeries, gotHist, gotSeries []*expo.Entry
	for i := range base {
		switch base[i].Kind {
		case textparse.EntryHistogram:
			baseHist = append(baseHist, &base[i])
		case textparse.EntrySeries:
			baseSeries = append(baseSeries, &base[i])
		}
	}
	var pr problems
	for i := range got {
		switch got[i].Kind {
		case textparse.EntryHistogram:
			gotHist = append(gotHist, &got[i])
			if got[i].H != nil && got[i].FH != nil {
				// textparse.Parser.Histogram: "the respective other return value being nil"
				pr.add(generic, famOf(got[i].Labels.Get("__name__"), histFams), "Histogram() returned an integer AND a float histogram for one entry: %s", got[i].Short())
			}
		case textparse.EntrySeries:
			gotSeries = append(gotSeries, &got[i])
		}
	}
	// ---- histogram entries
	used := make([]bool, len(gotHist))
	// exponential histograms of the baseline must come through unchanged
	for _, b := range baseHist {
		found := false
		for j, g := range gotHist {
			if !used[j] && g.SampleKey(fr.readST) == b.SampleKey(fr.readST) {
				used[j], found = true, true
				break
			}
		}
		if !found {
			pr.add(generic, famOf(b.Labels.Get("__name__"), histFams), "exponential histogram of the non-converting parse is missing or changed: %s", b.Short())
		}
	}
	okBig := 0
	find := func(e *expHist, m matchMode) *expo.Entry {
		for j, g := range gotHist {
			if !used[j] && e.matches(g, fr.readST, m) {
				used[j] = true
				return g
			}
		}
		return nil
	}
	// strict matches first, so that a relaxed match never steals the entry of another expectation
	matched := make([]bool, len(exp))
	for i := range exp {
		if find(&exp[i], matchMode{}) != nil {
			matched[i] = true
			if big[exp[i].labels] {
				okBig++
			}
		}
		if len(exp[i].exOpt) > 0 {
			c.Count("protobuf_nhcb_exemplars_without_timestamp_optional", int64(len(exp[i].exOpt)))
		}
	}
	for i := range exp {
		e := &exp[i]
		if matched[i] {
			continue
		}
		textual := fr.name != "proto"
		if g := find(e, matchMode{staleExTs: true}); g != nil && textual {
			pr.add(kindStaleExTs, e.family, "NHCB exemplar without timestamp in the input comes out with a timestamp: expected %s, got %s", e.rendered, g.Short())
			continue
		}
		if g := find(e, matchMode{nextTs: true}); g != nil && textual {
			pr.add(kindNextTs, e.family, "NHCB carries the timestamp of the following series line instead of its own: expected %s, got %s", e.rendered, g.Short())
			continue
		}
		if g := find(e, matchMode{nextTs: true, staleExTs: true}); g != nil && textual {
			pr.add(kindNextTs, e.family, "NHCB carries the timestamp of the following series line instead of its own: expected %s, got %s", e.rendered, g.Short())
			pr.add(kindStaleExTs, e.family, "NHCB exemplar without timestamp in the input comes out with a timestamp: expected %s, got %s", e.rendered, g.Short())
			continue
		}
		pr.add(generic, e.family, "expected NHCB not emitted: %s", e.rendered)
	}
	for j, g := range gotHist {
		if !used[j] {
			what := "unexpected histogram entry"
			if nativeLS[g.Labels.String()] && ((g.H != nil && g.H.UsesCustomBuckets()) || (g.FH != nil && g.FH.UsesCustomBuckets())) {
				what = "NHCB emitted for a series that already has an exponential histogram"
			}
			pr.add(generic, famOf(g.Labels.Get("__name__"), histFams), "%s: %s", what, g.Short())
		}
	}

	// ---- float series
	var want []*expo.Entry
	for _, b := range baseSeries {
		if _, isClassic := baseName(b.Labels.Get("__name__"), histFams); isClassic && !keep {
			// classic series of a converted histogram (the classic series of a native+classic protobuf
			// metric do not appear in the keep=false baseline at all)
			continue
		}
		want = append(want, b)
	}
	seriesKind := generic
	if keep {
		seriesKind = "nhcb-keep-classic-mismatch"
	}
	keys := func(es []*expo.Entry, withEx bool) []string {
		out := make([]string, len(es))
		for i, e := range es {
			if withEx {
				out[i] = e.SampleKey(fr.readST)
			} else {
				cp := *e
				cp.Ex = nil
				out[i] = cp.SampleKey(fr.readST)
			}
		}
		return out
	}
	wk, gk := keys(want, true), keys(gotSeries, true)
	if strings.Join(wk, "\n") != strings.Join(gk, "\n") {
		wn, gn := keys(want, false), keys(gotSeries, false)
		onlyConsumed := keep && fr.name == "om" && strings.Join(wn, "\n") == strings.Join(gn, "\n")
		if onlyConsumed {
			for i := range want {
				if wk[i] == gk[i] {
					continue
				}
				_, isClassic := baseName(want[i].Labels.Get("__name__"), histFams)
				if isClassic && len(want[i].Ex) > 0 && len(gotSeries[i].Ex) == 0 {
					pr.add(kindKeepExemplar, famOf(want[i].Labels.Get("__name__"), histFams), "kept classic series lost its exemplar: without conversion %s, with conversion+keep %s", want[i].Short(), gotSeries[i].Short())
				} else {
					pr.add(seriesKind, famOf(want[i].Labels.Get("__name__"), histFams), "series differs in its exemplars: without conversion %s, with conversion %s", want[i].Short(), gotSeries[i].Short())
				}
			}
		} else {
			cnt := map[string]int{}
			for _, k := range wk {
				cnt[k]++
			}
			for _, k := range gk {
				cnt[k]--
			}
			multisetEqual := true
			for _, n := range cnt {
				if n != 0 {
					multisetEqual = false
				}
			}
			if multisetEqual {
				for i := range wk {
					if wk[i] != gk[i] {
						pr.add(seriesKind, famOf(want[i].Labels.Get("__name__"), histFams), "float series order changed at position %d: want %s, got %s", i, want[i].Short(), gotSeries[i].Short())
						pr.add(seriesKind, famOf(gotSeries[i].Labels.Get("__name__"), histFams), "(second family of the order change)")
						break
					}
				}
			} else {
				for i, k := range wk {
					if cnt[k] > 0 {
						cnt[k]--
						pr.add(seriesKind, famOf(want[i].Labels.Get("__name__"), histFams), "float series of the non-converting parse missing or changed (keep=%v): %s", keep, want[i].Short())
					}
				}
				for i, k := range gk {
					if cnt[k] < 0 {
						cnt[k]++
						pr.add(seriesKind, famOf(gotSeries[i].Labels.Get("__name__"), histFams), "float series not in the non-converting parse (keep=%v): %s", keep, gotSeries[i].Short())
					}
				}
			}
		}
	}
	c.Count("classic_histograms_expected", int64(len(exp)))
	c.Count("classic_histograms_converted_exactly", int64(func() int {
		n := 0
		for _, m := range matched {
			if m {
				n++
			}
		}
		return n
	}()))

	// ---- report, one violation per failure mechanism
	kinds := make([]string, 0, len(pr.byKind))
	for k := range pr.byKind {
		kinds = append(kinds, k)
	}
	sort.Strings(kinds)
	for _, k := range kinds {
		kind := k
		names := keysOf(pr.fams[k])
		if k == generic || k == "nhcb-keep-classic-mismatch" {
			// the probed finding: everything that is wrong concerns families whose label sets were interleaved
			allInter := true
			for _, n := range names {
				if !fr.inter[n] {
					allInter = false
				}
			}
			if allInter {
				kind = kindInterleaved
			}
		}
		c.Violatef(kind, "%s payload, keep-classic=%v, families involved %v (interleaved in this payload: %v):\n  %s\npayload:\n%s", fr.name, keep, names, keysOf(fr.inter), strings.Join(pr.byKind[k], "\n  "), clip(fr.payload))
	}
	return okBig
}

func keysOf(m map[string]bool) []string {
	var ks []string
	for k := range m {
		ks = append(ks, k)
	}
	sort.Strings(ks)
	return ks
}
