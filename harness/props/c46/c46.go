// Package c46: the notifier drops only the oldest alerts and preserves order (runtime monitor
// around notifier.Manager with fake Alertmanagers injected through Options.Do).
package c46

import (
	"verif/internal/core"
)

func init() {
	core.Register(&core.Prop{
		ID:        "C46",
		Title:     "The notifier drops only the oldest alerts and preserves order",
		Level:     "fault_enumeration",
		Technique: "runtime monitor: producer log of Manager.Send vs consumer logs of fake Alertmanagers (Options.Do), reference FIFO queue in lockstep scenarios, interleaving-independent order/conservation laws in free-running scenarios, injected request failures, set changes and Stop",
		LevelText: "Generated scenarios drive the real notifier.Manager (ApplyConfig, Run, Send, Stop) with fake Alertmanagers behind Options.Do; request failures (HTTP 500, transport error), logical latency, queue overflow, Alertmanager-set changes (target-group updates, configuration reloads) and Stop are injected at PRNG-chosen points. Lockstep scenarios serialise the steps using the fake's gate and the observe point notifier.sendloop.idle, so a reference FIFO queue (capacity bound, oldest dropped first, consumer takes any non-empty prefix up to the batch maximum) decides every single request, the counters at every step boundary and the drain on Stop exactly. Free-running scenarios let concurrent producers, a set changer and Stop race (also under -race) and check what holds under every interleaving: order consistent with the happens-before order of the Send calls, no duplicate or foreign alert, batch bound, no loss unless an overflow was possible, no loss among alerts that cannot have been the oldest of a full queue, dropped/errors counters covering every loss at a logical quiescent point, every alert whose Send returned before Stop attempted before Run returns when draining. Held on the observed scenarios only.",
		LevelNote: "Reductions against the planned monitor: (1) the conservation law is 'every loss is covered by dropped_total (overflow + failed requests) and errors_total covers failed requests' because the notifier counts a failed request in both counters, so the planned sum received+dropped+errors would double count; counters above the reference are tolerated (the statement only demands that losses are counted). (2) Alertmanagers removed by a set change or configuration change are checked for order, duplicates and batch bound only. (3) In free-running scenarios quiescence is established with a sentinel alert (newest of every queue) answered and the loop back at notifier.sendloop.idle instead of the queue-length gauge, which has a window between taking a batch and handing it to Do. (4) No httptest variant. (5) Around an Alertmanager removal or Stop the lockstep harness lets go of the requests it holds after a 150 ms patience (a schedule choice only, so that a notifier that waits for its send loops is not dead-locked by the harness) and checks what arrives afterwards as an ordered, duplicate-free subset of the reference queue instead of exact prefixes; the drain check (everything queued at Stop attempted before Run returns) stays exact. Two known findings share one root cause (stop() drains without joining the loop goroutine), see FINDINGS.txt. Trusted: JSON payload ids identify alerts; the fake's entry order is the order of reception.",
		DesignRef: "DESIGN.md §5 C46",
		Rule:      "case = one generated scenario (lockstep: 12–40 steps of send/answer/park/set change/reload and a final Stop; free: 1–3 concurrent producers with 4–25 Send calls each, optional changer and Stop at a PRNG point); non-trivial iff at least two requests reached the fakes and an overflow, a failed request or a Stop with queued alerts / during sending occurred; distinct by scenario transcript",
		Assumptions: []string{
			"a fake Alertmanager behind Options.Do observes exactly what a real one would receive (the payload is the marshalled batch)",
			"Manager.Send is synchronous: when it returns the alerts are in the queues of the current members",
		},
		Cases: func(variant string, tier core.Tier) int {
			switch variant {
			case "default":
				if tier == core.Thorough {
					return 20000
				}
				return 1200
			case "race":
				if tier == core.Thorough {
					return 4000
				}
				return 300
			}
			return 0
		},
		Variants:       []string{"race"},
		Run:            run,
		MinNontrivial:  func(t core.Tier) int { return 150 },
		CaseTimeoutSec: 300,
	})
}

func run(c *core.Case) {
	if c.Rng.IntN(100) < 55 {
		runLockstep(c)
	} else {
		runFree(c)
	}
}
