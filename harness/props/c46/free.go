package c46

import (
	"fmt"
	"math/rand/v2"
	"runtime"
	"sort"
	"strings"
	"sync"
	"time"

	"github.com/prometheus/prometheus/notifier"

	"verif/internal/core"
)

// Free-running mode: concurrent producers, an Alertmanager-set changer and Stop run against each
// other without the harness serialising them.  The oracle uses only what is true under every
// interleaving: order consistent with the happens-before order of the Send calls, no duplicates,
// no foreign alerts, batch bound, losses only when an overflow was possible and never among the
// alerts that cannot have been the oldest, counters at a logical quiescent point, drain on Stop.

type sendRec struct {
	start, end int64
	specs      []alertSpec
}

type freeAM struct {
	n, set  int
	url     string
	rec     *amRec
	initial bool // member before the first Send
	removed bool
	added   bool // joined while producers were running
}

const sentinelID = 9000000

type changeOp struct {
	at   int64 // executed once that many Send calls have begun
	kind string
	set  int
}

func runFree(c *core.Case) {
	r := c.Rng
	capacity := 3 + r.IntN(18)
	maxBatch := 1 + r.IntN(6)
	if r.IntN(8) == 0 {
		maxBatch = capacity + r.IntN(3)
	}
	drain := r.IntN(2) == 0
	cfg := cfgState{dropLow: r.IntN(2) == 0, mark: r.IntN(2) == 0}
	nsets := 1 + r.IntN(2)
	for i := 0; i < nsets; i++ {
		cfg.sets = append(cfg.sets, setCfg{dropB: r.IntN(2) == 0})
	}
	// producers
	nprod := 1 + r.IntN(3)
	type plan struct {
		batches [][]alertSpec
		yields  []int
	}
	plans := make([]plan, nprod)
	totalSends, totalAlerts := 0, 0
	for p := range plans {
		n := 4 + r.IntN(22)
		if c.Tier == core.Thorough {
			n += r.IntN(30)
		}
		next := p*100000 + 1
		for i := 0; i < n; i++ {
			sz := 1 + r.IntN(4)
			switch r.IntN(12) {
			case 0:
				sz = capacity + r.IntN(3)
			case 1:
				sz = 1 + r.IntN(capacity)
			}
			var b []alertSpec
			for j := 0; j < sz; j++ {
				b = append(b, alertSpec{id: next, low: r.IntN(7) == 0, b: r.IntN(6) == 0, long: r.IntN(10) == 0})
				next++
			}
			totalAlerts += len(b)
			plans[p].batches = append(plans[p].batches, b)
			plans[p].yields = append(plans[p].yields, r.IntN(4))
		}
		totalSends += n
	}
	// changer plan
	var ops []changeOp
	if r.IntN(2) == 0 {
		for k := 1 + r.IntN(4); k > 0; k-- {
			ops = append(ops, changeOp{at: int64(r.IntN(totalSends + 1)), kind: []string{"reapply", "reapply", "add", "remove"}[r.IntN(4)], set: r.IntN(nsets)})
		}
		sort.Slice(ops, func(i, j int) bool { return ops[i].at < ops[j].at })
	}
	midStop := r.IntN(100) < 35
	stopAt := int64(r.IntN(totalSends + 1))
	// roomy scenarios: the queue can hold everything, so nothing at all may be lost
	roomy := r.IntN(100) < 40
	if roomy {
		capacity = totalAlerts + 2
	}
	w := newWorld(c, capacity, maxBatch, drain)
	defer w.finish()
	core.Must(w.mgr.ApplyConfig(cfg.build()), "ApplyConfig")
	w.startRun()

	var ams []*freeAM
	members := map[int][]int{}
	nextAM := 0
	newAM := func(set int, initial bool) *freeAM {
		a := &freeAM{n: nextAM, set: set, url: cfg.url(set, nextAM), initial: initial, added: !initial}
		nextAM++
		failP := []int{0, 0, 15, 40}[r.IntN(4)]
		lat := []int{0, 0, 1, 2, 6}[r.IntN(5)]
		a.rec = w.register(a.url, false, c.SubRng(a.url), failP, lat)
		ams = append(ams, a)
		members[set] = append(members[set], a.n)
		return a
	}
	for s := 0; s < nsets; s++ {
		for k := 1 + r.IntN(2); k > 0; k-- {
			newAM(s, true)
		}
	}
	if !w.pushTsets(tsetsFor(members, nsets)) {
		return
	}

	var sendsMu sync.Mutex
	var sends []*sendRec
	var wg sync.WaitGroup
	prodDone := make(chan struct{})
	for p := range plans {
		wg.Add(1)
		go func(p int) {
			defer wg.Done()
			for i, b := range plans[p].batches {
				alerts := make([]*notifier.Alert, len(b))
				ids := make([]int, len(b))
				for j, sp := range b {
					alerts[j], ids[j] = mkAlert(sp), sp.id
				}
				w.send(alerts, ids)
				w.mu.Lock()
				sr := &sendRec{start: w.sendStart[ids[0]], end: w.sendEnd[ids[0]], specs: b}
				w.mu.Unlock()
				sendsMu.Lock()
				sends = append(sends, sr)
				sendsMu.Unlock()
				for y := plans[p].yields[i]; y > 0; y-- {
					runtime.Gosched()
				}
			}
		}(p)
	}
	go func() { wg.Wait(); close(prodDone) }()
	isProdDone := func() bool {
		select {
		case <-prodDone:
			return true
		default:
			return false
		}
	}

	changerDone := make(chan struct{})
	var changeLog []string
	go func() {
		defer close(changerDone)
		for _, op := range ops {
			if !w.waitFor("producers progress", func() bool { return w.sendsBegun >= op.at || isProdDone() }) {
				return
			}
			select {
			case <-w.stopCh:
				return
			default:
			}
			switch op.kind {
			case "reapply": // identical configuration: the send loops must simply carry over
				core.Must(w.mgr.ApplyConfig(cfg.build()), "ApplyConfig")
			case "add":
				newAM(op.set, false)
				if !w.pushTsets(tsetsFor(members, nsets)) {
					return
				}
			case "remove":
				// never the first member of a set: it stays as the conserved observer
				if len(members[op.set]) < 2 {
					continue
				}
				n := members[op.set][len(members[op.set])-1]
				members[op.set] = members[op.set][:len(members[op.set])-1]
				for _, a := range ams {
					if a.n == n {
						a.removed = true
						// a notifier that waits for the send loop of a removed Alertmanager must
						// not wait for Send calls that the removal itself blocks
						w.mu.Lock()
						a.rec.latency = 0
						w.cond.Broadcast()
						w.mu.Unlock()
					}
				}
				if !w.pushTsets(tsetsFor(members, nsets)) {
					return
				}
			}
			changeLog = append(changeLog, op.kind)
		}
	}()

	quiescent := false
	if midStop {
		if !w.waitFor("producers progress", func() bool { return w.sendsBegun >= stopAt || isProdDone() }) {
			return
		}
	} else {
		if !w.waitFor("producers and changer finish", func() bool {
			select {
			case <-changerDone:
				return isProdDone()
			default:
				return false
			}
		}) {
			return
		}
		// the sentinel is the newest alert of every queue: once an Alertmanager has answered the
		// request carrying it and its send loop is back at notifier.sendloop.idle, that queue is
		// empty and all counters are final
		w.mu.Lock()
		w.noLatency = true
		w.cond.Broadcast()
		w.mu.Unlock()
		sp := alertSpec{id: sentinelID}
		w.send([]*notifier.Alert{mkAlert(sp)}, []int{sp.id})
		w.mu.Lock()
		sends = append(sends, &sendRec{start: w.sendStart[sp.id], end: w.sendEnd[sp.id], specs: []alertSpec{sp}})
		w.mu.Unlock()
		for _, a := range ams {
			if a.removed {
				continue
			}
			ok := w.waitFor("sentinel answered by "+a.url+" and its loop idle again", func() bool {
				for _, b := range a.rec.batches {
					if b.exitSeq != 0 && inSlice(b.ids, sentinelID) {
						return w.idle[b.gid] > b.idleAtExit
					}
				}
				return false
			})
			if !ok {
				return
			}
		}
		quiescent = true
	}
	var mets map[string]map[string]float64
	if quiescent {
		mets = w.metrics()
	}
	stopSeq := w.tick()
	w.mu.Lock()
	w.noLatency = true
	w.cond.Broadcast()
	w.mu.Unlock()
	close(w.stopCh)
	w.mgr.Stop()
	if !w.waitFor("Manager.Run returns after Stop", func() bool {
		select {
		case <-w.runDone:
			return true
		default:
			return false
		}
	}) {
		return
	}
	runDoneSeq := w.tick()
	select {
	case <-prodDone:
	case <-timeAfter():
		c.Inconclusive("watchdog: producers did not finish")
		return
	}
	select {
	case <-changerDone:
	case <-timeAfter():
		c.Inconclusive("watchdog: changer did not finish")
		return
	}
	for i := 0; i < 10; i++ {
		runtime.Gosched()
	}

	// maxOccupancy: upper bound of the queue length of a over time (an alert counts from the start
	// of its Send call until the request carrying it enters the fake).  Callers hold w.mu.
	maxOccupancy := func(a *freeAM) int {
		type ev struct {
			t int64
			d int
		}
		var evs []ev
		for _, s := range sends {
			n := 0
			for _, sp := range s.specs {
				if cfg.survives(a.set, sp) {
					n++
				}
			}
			evs = append(evs, ev{s.start, n})
		}
		for _, b := range a.rec.batches {
			evs = append(evs, ev{b.seq, -len(b.ids)})
		}
		sort.Slice(evs, func(i, j int) bool { return evs[i].t < evs[j].t })
		occ, maxOcc := 0, 0
		for _, e := range evs {
			occ += e.d
			if occ > maxOcc {
				maxOcc = occ
			}
		}
		return maxOcc
	}
	// drainMissing: alerts whose Send had returned before Stop that a was never handed / was
	// handed only after Run returned.  Callers hold w.mu.
	drainMissing := func(a *freeAM) (missing, late []int) {
		got := map[int]int64{}
		for _, b := range a.rec.batches {
			for _, id := range b.ids {
				if _, dup := got[id]; !dup {
					got[id] = b.seq
				}
			}
		}
		for _, s := range sends {
			if s.end == 0 || s.end > stopSeq {
				continue
			}
			for _, sp := range s.specs {
				if !cfg.survives(a.set, sp) {
					continue
				}
				if t, ok := got[sp.id]; !ok {
					missing = append(missing, sp.id)
				} else if t > runDoneSeq {
					late = append(late, sp.id)
				}
			}
		}
		return missing, late
	}
	if midStop && drain {
		// A request that is still on its way (taken from the queue by the loop goroutine, not yet
		// handed to Do) is given a grace period to show up; this only decides which of two
		// violation kinds is reported, never whether one is.
		t0 := time.Now()
		for {
			pending := false
			w.mu.Lock()
			for _, a := range ams {
				if !a.initial || a.removed || maxOccupancy(a) > capacity {
					continue
				}
				if m, _ := drainMissing(a); len(m) > 0 {
					pending = true
				}
			}
			w.mu.Unlock()
			if !pending || time.Since(t0) > 20*time.Second {
				break
			}
			time.Sleep(20 * time.Millisecond)
		}
	}

	w.mu.Lock()
	for _, a := range ams {
		sort.SliceStable(a.rec.batches, func(i, j int) bool { return a.rec.batches[i].seq < a.rec.batches[j].seq })
	}
	w.mu.Unlock()
	// ---- evaluation over the logs ----------------------------------------------------------
	w.mu.Lock()
	defer w.mu.Unlock()
	if w.harnessErr != "" {
		panic(core.HarnessError{Msg: w.harnessErr})
	}
	specs := map[int]alertSpec{}
	sendOf := map[int]*sendRec{}
	posInSend := map[int]int{}
	for _, s := range sends {
		for i, sp := range s.specs {
			specs[sp.id], sendOf[sp.id], posInSend[sp.id] = sp, s, i
		}
	}
	desc := fmt.Sprintf("capacity=%d maxBatch=%d drain=%v producers=%d sends=%d changes=%v midStop=%v", capacity, maxBatch, drain, nprod, len(sends), changeLog, midStop)
	if len(w.unknown) > 0 {
		c.Violatef("request-to-unknown-url", "requests went to URLs that were never configured: %v (%s)", w.unknown, desc)
	}
	var totalRecv, totalBatches, totalLost, totalFail int
	sawOverflowPossible := false
	for _, a := range ams {
		blog := func() string {
			var sb strings.Builder
			for _, b := range a.rec.batches {
				fmt.Fprintf(&sb, "\n  t=%d..%d gid=%d (run=%d) outcome=%d ids=%v", b.seq, b.exitSeq, b.gid, w.runGID, b.outcome, b.ids)
			}
			return sb.String()
		}
		got := map[int]int64{} // id -> Do entry time
		failedIDs := map[int]bool{}
		nOK, nFail := 0, 0
		var maxStart int64
		var maxStartID int
		var maxStartBatch *batchRec
		type lastSeen struct {
			id int
			b  *batchRec
		}
		lastOfProducer := map[int]lastSeen{}
		inverted := false
		bad := false
		for _, b := range a.rec.batches {
			totalBatches++
			if len(b.ids) > maxBatch {
				c.Violatef("batch-too-large", "%s received a request with %d alerts, max batch size is %d (%s)", a.url, len(b.ids), maxBatch, desc)
				bad = true
			}
			if len(b.ids) == 0 {
				c.Violatef("empty-request", "%s received a request without alerts (%s)", a.url, desc)
				bad = true
			}
			for _, id := range b.ids {
				sp, known := specs[id]
				if !known || sendOf[id].start > b.seq {
					c.Violatef("unknown-alert", "%s received alert id %d that no Send call had handed over at that time (%s)", a.url, id, desc)
					bad = true
					continue
				}
				if !cfg.survives(a.set, sp) {
					c.Violatef("unexpected-alert", "%s received alert id %d which alert relabeling drops (%+v) (%s)", a.url, id, sp, desc)
					bad = true
				}
				if _, dup := got[id]; dup {
					c.Violatef("duplicate-delivery", "%s received alert id %d twice (%s)", a.url, id, desc)
					bad = true
				}
				got[id] = b.seq
				// order: consistent with the happens-before order of the Send calls, and with the
				// argument order inside one producer
				s := sendOf[id]
				inversion := func(other int, ob *batchRec, why string) {
					// One mechanism gets its own kind: with DrainOnShutdown the goroutine that stops a
					// send loop (Manager.Run) drains the queue itself while the loop goroutine may still
					// hold a batch it took earlier, so two goroutines deliver to one Alertmanager.
					if inverted {
						return
					}
					inverted = true
					kind := "order-inversion"
					if drain && ob.gid != b.gid && (ob.gid == w.runGID) != (b.gid == w.runGID) {
						kind = "order-inversion-drain-vs-loop-goroutine"
					}
					c.Violatef(kind, "%s received alert %d after alert %d although %s; the requests entered the Alertmanager at t=%d (goroutine %d) and t=%d (goroutine %d), Manager.Run is goroutine %d, Stop at t=%d (%s)\nrequests of this Alertmanager:%s", a.url, id, other, why, ob.seq, ob.gid, b.seq, b.gid, w.runGID, stopSeq, desc, blog())
					bad = true
				}
				if s.end != 0 && s.end < maxStart {
					inversion(maxStartID, maxStartBatch, fmt.Sprintf("its Send call returned (t=%d) before the Send call of the other began (t=%d)", s.end, maxStart))
				} else if id != sentinelID {
					p := id / 100000
					if last, ok := lastOfProducer[p]; ok && id < last.id {
						inversion(last.id, last.b, "the same producer handed it over earlier")
					}
				}
				if id != sentinelID {
					lastOfProducer[id/100000] = lastSeen{id, b}
				}
				if s.start > maxStart {
					maxStart, maxStartID, maxStartBatch = s.start, id, b
				}
			}
			if b.outcome == ocOK {
				nOK += len(b.ids)
			} else {
				nFail += len(b.ids)
				for _, id := range b.ids {
					failedIDs[id] = true
				}
			}
		}
		totalRecv += nOK + nFail
		totalFail += nFail
		if bad || !a.initial || a.removed {
			continue
		}
		// Alertmanagers that were members for the whole run: conservation
		in := 0
		var input []alertSpec
		for _, s := range sends {
			for _, sp := range s.specs {
				if cfg.survives(a.set, sp) {
					in++
					input = append(input, sp)
				}
			}
		}
		maxOcc := maxOccupancy(a)
		overflowPossible := maxOcc > capacity
		if overflowPossible {
			sawOverflowPossible = true
		}
		if quiescent {
			lost := in - nOK - nFail
			totalLost += lost
			if lost > 0 && !overflowPossible {
				c.Violatef("loss-without-overflow", "%s: %d alerts were neither delivered nor in a failed request although its queue can never have held more than %d alerts (capacity %d) (%s)", a.url, lost, maxOcc, capacity, desc)
			}
			mm := mets[a.url]
			if mm == nil {
				c.Violatef("metrics-missing", "%s: no per-Alertmanager counters for a current member (%s)", a.url, desc)
			} else {
				if int(mm["dropped"]) < lost+nFail {
					c.Violatef("loss-not-counted", "%s: %d alerts lost (%d never delivered, %d in failed requests) but dropped_total=%v (%s)", a.url, lost+nFail, lost, nFail, mm["dropped"], desc)
				}
				if int(mm["errors"]) < nFail {
					c.Violatef("error-not-counted", "%s: %d alerts in failed requests but errors_total=%v (%s)", a.url, nFail, mm["errors"], desc)
				}
			}
			// an alert lost to overflow was the oldest in a full queue: at least `capacity`
			// alerts that may be newer must exist
			for _, sp := range input {
				if _, ok := got[sp.id]; ok {
					continue
				}
				s := sendOf[sp.id]
				newer := 0
				for _, o := range input {
					so := sendOf[o.id]
					switch {
					case so == s:
						if posInSend[o.id] > posInSend[sp.id] {
							newer++
						}
					case so.end != 0 && so.end < s.start: // strictly older
					default:
						newer++
					}
				}
				if newer < capacity {
					c.Violatef("overflow-victim-not-oldest", "%s never received alert %d, but at most %d alerts can be newer than it: with capacity %d it can never have been the oldest alert of a full queue (%s)", a.url, sp.id, newer, capacity, desc)
					break
				}
			}
		}
		if midStop && drain && !overflowPossible {
			missing, late := drainMissing(a)
			if len(missing) > 0 {
				c.Violatef("drain-incomplete", "DrainOnShutdown: Run returned but %s was never handed alerts %v whose Send had returned before Stop was called (no overflow possible: max occupancy %d ≤ %d) (%s)\nrequests of this Alertmanager:%s", a.url, missing, maxOcc, capacity, desc, blog())
			} else if len(late) > 0 {
				// same mechanism as the order inversion: Run does not wait for the loop goroutine,
				// which still holds a batch it took from the queue before the stop signal
				c.Violatef("drain-request-after-run-returned", "DrainOnShutdown: alerts %v (Send returned before Stop was called) were handed to %s only after Manager.Run had returned (t=%d), by the send-loop goroutine (%s)\nrequests of this Alertmanager:%s", late, a.url, runDoneSeq, desc, blog())
			}
			c.Count("free_drain_checks", 1)
		}
	}
	c.Count("free_cases", 1)
	c.Count("alerts_received_total", int64(totalRecv))
	c.Count("requests_total", int64(totalBatches))
	c.Count("alertmanagers_total", int64(len(ams)))
	c.Count("free_send_calls", int64(len(sends)))
	c.Count("free_alerts_lost_to_overflow", int64(totalLost))
	feat := map[string]bool{"overflow_possible": sawOverflowPossible, "failed_request": totalFail > 0, "stop_while_sending": midStop, "set_change_during_sends": len(changeLog) > 0, "drain_on_shutdown": drain, "concurrent_producers": nprod > 1, "quiescent_counter_check": quiescent, "roomy_queue": roomy}
	var fs []string
	for name, b := range feat {
		if b {
			c.Seen("free_features", name)
			fs = append(fs, name)
		}
	}
	sort.Strings(fs)
	if totalBatches >= 2 && (sawOverflowPossible || totalFail > 0 || midStop) {
		c.Nontrivial("free", desc, fmt.Sprint(plans), fmt.Sprint(ops))
	}
	if c.Idx < 12 && c.Idx >= 6 {
		c.Sample(map[string]any{"mode": "free", "scenario": desc, "features": strings.Join(fs, ","), "received": totalRecv, "requests": totalBatches, "lost_to_overflow": totalLost})
	}
}

var _ = rand.IntN

func timeAfter() <-chan time.Time { return time.After(watchdog) }
