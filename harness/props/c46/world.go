package c46

import (
	"bytes"
	"context"
	"encoding/json"
	"errors"
	"fmt"
	"io"
	"math/rand/v2"
	"net/http"
	"runtime"
	"strconv"
	"strings"
	"sync"
	"sync/atomic"
	"time"

	"github.com/prometheus/client_golang/prometheus"
	dto "github.com/prometheus/client_model/go"
	"github.com/prometheus/common/model"
	"github.com/prometheus/common/promslog"

	"github.com/prometheus/prometheus/config"
	"github.com/prometheus/prometheus/discovery/targetgroup"
	"github.com/prometheus/prometheus/model/labels"
	"github.com/prometheus/prometheus/model/relabel"
	"github.com/prometheus/prometheus/notifier"

	"verif/internal/core"
	"verif/internal/sched"
)

// watchdog is the generous wall-clock limit for any single logical wait; it only ever yields
// an inconclusive case, never a verdict.
const watchdog = 90 * time.Second

const (
	ocOK   = 0 // 200
	ocHTTP = 1 // 500
	ocErr  = 2 // transport error
)

// batchRec is one request observed by a fake Alertmanager (recorded when Options.Do is entered).
type batchRec struct {
	seq     int64 // global logical time of Do entry
	exitSeq int64 // global logical time of Do exit (0 = still executing)
	ids     []int
	gid     int64 // goroutine that handed the request to Do
	blocked bool  // lockstep: waits on release
	outcome int
	release chan int

	idleAtExit int64 // hits of notifier.sendloop.idle by gid when Do returned
}

// amRec is the consumer log of one fake Alertmanager (keyed by URL).
type amRec struct {
	url       string
	batches   []*batchRec
	gated     bool // lockstep: Do blocks until the harness releases the request
	auto      *rand.Rand
	failP     int // auto mode: per-cent of failing requests
	latency   int // free mode: Do returns only after that many further Send calls started
	executing int
}

// world is the observation state of one case.
type world struct {
	c    *core.Case
	mu   sync.Mutex
	cond *sync.Cond
	seq  atomic.Int64 // logical clock: every observed event takes a ticket

	ams map[string]*amRec

	// producer log
	sendStart  map[int]int64 // alert id -> logical time its Send call started
	sendEnd    map[int]int64 // alert id -> logical time its Send call returned
	sendsBegun int64
	noLatency  bool

	// hook observations
	idle     map[int64]int64 // goroutine id -> hits of notifier.sendloop.idle
	parkNext map[int64]bool
	parked   map[int64]chan struct{}

	ctl      *sched.Controller
	mgr      *notifier.Manager
	reg      *prometheus.Registry
	tsets    chan map[string][]*targetgroup.Group
	runDone  chan struct{}
	runGID   int64
	drainers map[int64]bool // goroutines in which the harness ran ApplyConfig / target updates
	stopTick chan struct{}
	stopCh   chan struct{} // closed by the harness right before it calls Manager.Stop
	timedOut bool
	unknown  []string

	harnessErr string
}

func (w *world) tick() int64 { return w.seq.Add(1) }

func curGID() int64 {
	var buf [64]byte
	b := buf[:runtime.Stack(buf[:], false)]
	b = bytes.TrimPrefix(b, []byte("goroutine "))
	i := bytes.IndexByte(b, ' ')
	if i < 0 {
		return -1
	}
	n, _ := strconv.ParseInt(string(b[:i]), 10, 64)
	return n
}

func newWorld(c *core.Case, capacity, maxBatch int, drain bool) *world {
	w := &world{
		c: c, ams: map[string]*amRec{},
		sendStart: map[int]int64{}, sendEnd: map[int]int64{},
		drainers: map[int64]bool{},
		idle:     map[int64]int64{}, parkNext: map[int64]bool{}, parked: map[int64]chan struct{}{},
		tsets:   make(chan map[string][]*targetgroup.Group),
		runDone: make(chan struct{}), stopTick: make(chan struct{}), stopCh: make(chan struct{}),
	}
	w.cond = sync.NewCond(&w.mu)
	w.ctl = sched.Install()
	w.ctl.OnHit(func(site string, _ *sched.Actor) {
		if site != "notifier.sendloop.idle" {
			return
		}
		g := curGID()
		w.mu.Lock()
		w.idle[g]++
		var ch chan struct{}
		if w.parkNext[g] {
			delete(w.parkNext, g)
			ch = make(chan struct{})
			w.parked[g] = ch
		}
		w.cond.Broadcast()
		w.mu.Unlock()
		if ch != nil {
			<-ch
		}
	})
	w.reg = prometheus.NewRegistry()
	w.mgr = notifier.NewManager(&notifier.Options{
		QueueCapacity:   capacity,
		MaxBatchSize:    maxBatch,
		DrainOnShutdown: drain,
		Do:              w.do,
		Registerer:      w.reg,
	}, model.UTF8Validation, promslog.NewNopLogger())
	go func() { // wakes waiters so that the watchdog can be evaluated
		t := time.NewTicker(40 * time.Millisecond)
		defer t.Stop()
		for {
			select {
			case <-t.C:
				w.mu.Lock()
				w.cond.Broadcast()
				w.mu.Unlock()
			case <-w.stopTick:
				return
			}
		}
	}()
	return w
}

func (w *world) startRun() {
	started := make(chan struct{})
	go func() {
		w.mu.Lock()
		w.runGID = curGID()
		w.mu.Unlock()
		close(started)
		w.mgr.Run(w.tsets)
		close(w.runDone)
	}()
	<-started
}

// waitFor blocks until pred (evaluated under w.mu) holds.  false = watchdog fired (case is
// marked inconclusive).
func (w *world) waitFor(what string, pred func() bool) bool {
	t0 := time.Now()
	w.mu.Lock()
	defer w.mu.Unlock()
	for !pred() {
		if w.timedOut || time.Since(t0) > watchdog {
			if !w.timedOut {
				w.timedOut = true
				w.c.Inconclusive("watchdog: %s did not happen within %s", what, watchdog)
			}
			return false
		}
		w.cond.Wait()
	}
	return true
}

func (w *world) am(url string) *amRec {
	a := w.ams[url]
	if a == nil {
		a = &amRec{url: url, auto: rand.New(rand.NewPCG(uint64(len(w.ams))+1, 99))}
		w.ams[url] = a
		w.unknown = append(w.unknown, url)
	}
	return a
}

// register declares a fake Alertmanager before the notifier can reach it.
func (w *world) register(url string, gated bool, auto *rand.Rand, failP, latency int) *amRec {
	w.mu.Lock()
	defer w.mu.Unlock()
	a := &amRec{url: url, gated: gated, auto: auto, failP: failP, latency: latency}
	w.ams[url] = a
	return a
}

type postedAlert struct {
	Labels map[string]string `json:"labels"`
}

// do is notifier.Options.Do: the fake Alertmanager.
func (w *world) do(ctx context.Context, _ *http.Client, req *http.Request) (*http.Response, error) {
	entry := w.tick() // the request counts as received when Do is invoked
	body, err := io.ReadAll(req.Body)
	var posted []postedAlert
	if err == nil {
		err = json.Unmarshal(body, &posted)
	}
	if err != nil {
		w.mu.Lock()
		w.harnessErr = "request body unreadable or not a JSON alert list: " + err.Error()
		w.mu.Unlock()
	}
	ids := make([]int, 0, len(posted))
	for _, p := range posted {
		id, err := strconv.Atoi(p.Labels["id"])
		if err != nil {
			id = -1
		}
		ids = append(ids, id)
	}
	g := curGID()
	w.mu.Lock()
	a := w.am(req.URL.String())
	b := &batchRec{seq: entry, ids: ids, gid: g}
	a.batches = append(a.batches, b)
	a.executing++
	if a.gated {
		b.blocked = true
		b.release = make(chan int, 1)
	} else {
		b.outcome = ocOK
		if x := a.auto.IntN(100); x < a.failP {
			b.outcome = ocHTTP + x%2
		}
		w.cond.Broadcast()
		if a.latency > 0 && g != w.runGID {
			// logical latency: the response comes after `latency` further Send calls have begun
			until := w.sendsBegun + int64(a.latency)
			for w.sendsBegun < until && !w.noLatency && !w.timedOut && a.latency > 0 {
				w.cond.Wait()
			}
		}
	}
	w.cond.Broadcast()
	w.mu.Unlock()
	oc, blocked := 0, false
	w.mu.Lock()
	oc, blocked = b.outcome, b.blocked
	w.mu.Unlock()
	if blocked {
		oc = <-b.release
	}
	w.mu.Lock()
	b.outcome = oc
	a.executing--
	b.exitSeq = w.tick()
	b.idleAtExit = w.idle[g]
	w.cond.Broadcast()
	w.mu.Unlock()
	switch oc {
	case ocHTTP:
		return &http.Response{Status: "500 Internal Server Error", StatusCode: 500, Body: io.NopCloser(strings.NewReader("no"))}, nil
	case ocErr:
		return nil, errors.New("injected transport failure")
	}
	return &http.Response{Status: "200 OK", StatusCode: 200, Body: io.NopCloser(strings.NewReader(""))}, nil
}

// send calls Manager.Send and logs its start and return in logical time.
func (w *world) send(alerts []*notifier.Alert, ids []int) {
	start := w.tick()
	w.mu.Lock()
	for _, id := range ids {
		w.sendStart[id] = start
	}
	w.sendsBegun++
	w.cond.Broadcast()
	w.mu.Unlock()
	w.mgr.Send(alerts...)
	end := w.tick()
	w.mu.Lock()
	for _, id := range ids {
		w.sendEnd[id] = end
	}
	w.cond.Broadcast()
	w.mu.Unlock()
}

// finish releases everything that may still block and stops the manager.
func (w *world) finish() {
	w.mu.Lock()
	w.noLatency = true
	for _, a := range w.ams {
		a.gated = false
		for _, b := range a.batches {
			if b.blocked && b.exitSeq == 0 {
				select {
				case b.release <- ocOK:
				default:
				}
			}
		}
	}
	for g, ch := range w.parked {
		close(ch)
		delete(w.parked, g)
	}
	w.parkNext = map[int64]bool{}
	w.cond.Broadcast()
	w.mu.Unlock()
	w.mgr.Stop()
	select {
	case <-w.runDone:
	case <-time.After(watchdog):
		w.c.Inconclusive("watchdog: Manager.Run did not return within %s after Stop", watchdog)
	}
	close(w.stopTick)
	w.ctl.OnHit(nil)
	w.ctl.Uninstall()
}

// ---- alert and configuration generation ------------------------------------------------

type alertSpec struct {
	id   int
	low  bool // sev="low": dropped by the global alert relabeling when the rule is active
	b    bool // team="b": dropped by the per-Alertmanager-config relabeling of sets that have the rule
	long bool
}

func mkAlert(s alertSpec) *notifier.Alert {
	ls := []string{"alertname", "A" + strconv.Itoa(s.id%7), "id", strconv.Itoa(s.id)}
	sev, team := "high", "a"
	if s.low {
		sev = "low"
	}
	if s.b {
		team = "b"
	}
	ls = append(ls, "sev", sev, "team", team)
	ann := labels.EmptyLabels()
	if s.long {
		ann = labels.FromStrings("summary", strings.Repeat("x", 300))
	}
	return &notifier.Alert{Labels: labels.FromStrings(ls...), Annotations: ann, StartsAt: time.Unix(1700000000+int64(s.id), 0)}
}

type setCfg struct {
	gen   int
	dropB bool
}

type cfgState struct {
	dropLow bool
	mark    bool // a replace rule that rewrites a label (forces the copy-on-relabel path)
	ext     int
	sets    []setCfg
}

func dropRule(label, value string) *relabel.Config {
	rc := &relabel.Config{
		SourceLabels:         model.LabelNames{model.LabelName(label)},
		Separator:            ";",
		Regex:                relabel.MustNewRegexp(value),
		Replacement:          "$1",
		Action:               relabel.Drop,
		NameValidationScheme: model.UTF8Validation,
	}
	core.Must(rc.Validate(model.UTF8Validation), "relabel rule")
	return rc
}

func markRule() *relabel.Config {
	rc := &relabel.Config{
		SourceLabels:         model.LabelNames{"team"},
		Separator:            ";",
		Regex:                relabel.MustNewRegexp("(.*)"),
		TargetLabel:          "relabeled",
		Replacement:          "t-$1",
		Action:               relabel.Replace,
		NameValidationScheme: model.UTF8Validation,
	}
	core.Must(rc.Validate(model.UTF8Validation), "relabel rule")
	return rc
}

func (s cfgState) prefix(set int) string { return fmt.Sprintf("s%dg%d", set, s.sets[set].gen) }

func (s cfgState) url(set, am int) string {
	return fmt.Sprintf("http://am%d:9093/%s/api/v2/alerts", am, s.prefix(set))
}

func (s cfgState) build() *config.Config {
	cfg := &config.Config{}
	cfg.GlobalConfig.MetricNameValidationScheme = model.UTF8Validation
	cfg.GlobalConfig.ExternalLabels = labels.FromStrings("cluster", "c"+strconv.Itoa(s.ext))
	if s.mark {
		cfg.AlertingConfig.AlertRelabelConfigs = append(cfg.AlertingConfig.AlertRelabelConfigs, markRule())
	}
	if s.dropLow {
		cfg.AlertingConfig.AlertRelabelConfigs = append(cfg.AlertingConfig.AlertRelabelConfigs, dropRule("sev", "low"))
	}
	for i, sc := range s.sets {
		ac := config.DefaultAlertmanagerConfig
		ac.Timeout = model.Duration(time.Hour)
		ac.PathPrefix = "/" + s.prefix(i)
		if sc.dropB {
			ac.AlertRelabelConfigs = []*relabel.Config{dropRule("team", "b")}
		}
		cfg.AlertingConfig.AlertmanagerConfigs = append(cfg.AlertingConfig.AlertmanagerConfigs, &ac)
	}
	return cfg
}

// survives is the reference reading of "survives alert relabeling" for the generated rules.
func (s cfgState) survives(set int, a alertSpec) bool {
	if s.dropLow && a.low {
		return false
	}
	if s.sets[set].dropB && a.b {
		return false
	}
	return true
}

func tsetsFor(members map[int][]int, nsets int) map[string][]*targetgroup.Group {
	out := map[string][]*targetgroup.Group{}
	for i := 0; i < nsets; i++ {
		tg := &targetgroup.Group{Source: "static/" + strconv.Itoa(i)}
		for _, n := range members[i] {
			tg.Targets = append(tg.Targets, model.LabelSet{model.AddressLabel: model.LabelValue(fmt.Sprintf("am%d:9093", n))})
		}
		out["config-"+strconv.Itoa(i)] = []*targetgroup.Group{tg}
	}
	return out
}

// pushTsets hands a target-group map to Manager.Run and returns once the reload it triggers
// has completed (the second, empty map can only be received after the first reload).
func (w *world) pushTsets(ts map[string][]*targetgroup.Group) bool {
	for i := 0; i < 2; i++ {
		if i == 1 {
			ts = map[string][]*targetgroup.Group{} // touches no set whenever it is processed
		}
		select {
		case w.tsets <- ts:
		case <-w.stopCh:
			return false
		case <-time.After(watchdog):
			w.c.Inconclusive("watchdog: Manager.Run did not take a target-group update within %s", watchdog)
			w.mu.Lock()
			w.timedOut = true
			w.mu.Unlock()
			return false
		}
	}
	return true
}

// metrics reads the per-Alertmanager counters from the registry.
func (w *world) metrics() map[string]map[string]float64 {
	mfs, err := w.reg.Gather()
	core.Must(err, "gather")
	out := map[string]map[string]float64{}
	for _, mf := range mfs {
		name := mf.GetName()
		short := ""
		switch name {
		case "prometheus_notifications_dropped_total":
			short = "dropped"
		case "prometheus_notifications_errors_total":
			short = "errors"
		case "prometheus_notifications_sent_total":
			short = "sent"
		case "prometheus_notifications_queue_length":
			short = "queue"
		default:
			continue
		}
		for _, m := range mf.GetMetric() {
			am := ""
			for _, lp := range m.GetLabel() {
				if lp.GetName() == "alertmanager" {
					am = lp.GetValue()
				}
			}
			if out[am] == nil {
				out[am] = map[string]float64{}
			}
			out[am][short] = metricValue(m)
		}
	}
	return out
}

func metricValue(m *dto.Metric) float64 {
	if m.Counter != nil {
		return m.Counter.GetValue()
	}
	if m.Gauge != nil {
		return m.Gauge.GetValue()
	}
	return 0
}
