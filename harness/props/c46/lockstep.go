package c46

import (
	"fmt"
	"math/rand/v2"
	"runtime"
	"sort"
	"strings"
	"time"

	"github.com/prometheus/prometheus/notifier"

	"verif/internal/core"
)

// Lockstep mode: every step of the scenario is executed to its logical end before the next one
// starts (a send loop is then blocked inside the fake Alertmanager, parked at the observe point
// notifier.sendloop.idle, or waiting for work with an empty queue), so a reference queue written
// from the property text predicts exactly what each Alertmanager may receive next.

type lsAM struct {
	n, set   int
	url      string
	rec      *amRec
	live     bool // member of its set, manager not stopped
	queue    []int
	inflight *batchRec
	parked   bool
	gid      int64
	consumed int
	in       int // alerts handed to this Alertmanager's queue (after relabeling)
	ok, fail int
	overflow int
	victims  map[int]bool // ids the reference queue dropped on overflow (oldest first)
	got      map[int]bool
	batches  int
	failed   bool

	// tail mode (after the Alertmanager was removed or the manager stopped): the notifier may
	// deliver what is left from two goroutines, so requests are checked as a set with order
	tail     bool
	tailPos  map[int]int   // id -> position in the reference queue at the transition
	tailSeen map[int]int64 // id -> logical time of the request that carried it
	lastPos  int
	lastB    *batchRec
}

type lockstep struct {
	c        *core.Case
	r        *rand.Rand
	w        *world
	capacity int
	maxBatch int
	drain    bool
	cfg      cfgState
	ams      []*lsAM // all Alertmanagers ever created
	members  map[int][]int
	nextAM   int
	nextID   int
	specs    map[int]alertSpec
	log      []string
	maxGen   int
	dead     bool // the reference model lost sync (a violation was reported) or the watchdog fired

	sawOverflow, sawFail, sawDrainWork, sawRemoval, sawRelabelDrop bool
}

func (l *lockstep) logf(format string, a ...any) {
	s := fmt.Sprintf(format, a...)
	l.log = append(l.log, s)
	l.c.Logf("%s", s)
}

func (l *lockstep) liveAMs() []*lsAM {
	var out []*lsAM
	for _, a := range l.ams {
		if a.live {
			out = append(out, a)
		}
	}
	return out
}

// absorb checks the requests the fake Alertmanager has logged since the last call against the
// reference queue: each must be a non-empty prefix of it, no longer than the maximum batch size.
func (l *lockstep) absorb(a *lsAM) {
	if a.tail {
		l.absorbTail(a)
		return
	}
	l.w.mu.Lock()
	bs := append([]*batchRec(nil), a.rec.batches[a.consumed:]...)
	type snap struct {
		blocked bool
		exited  bool
		outcome int
	}
	snaps := make([]snap, len(bs))
	for i, b := range bs {
		snaps[i] = snap{b.blocked, b.exitSeq != 0, b.outcome}
	}
	l.w.mu.Unlock()
	for i, b := range bs {
		a.consumed++
		a.batches++
		if a.failed {
			continue
		}
		l.logf("  recv %s ids=%v", a.url, b.ids)
		if len(b.ids) > l.maxBatch {
			l.c.Violatef("batch-too-large", "%s received a request with %d alerts, max batch size is %d: %v\n%s", a.url, len(b.ids), l.maxBatch, b.ids, l.transcript())
			a.failed, l.dead = true, true
			continue
		}
		if len(b.ids) == 0 {
			l.c.Violatef("empty-request", "%s received a request without alerts\n%s", a.url, l.transcript())
			a.failed, l.dead = true, true
			continue
		}
		pref := len(b.ids) <= len(a.queue)
		if pref {
			for j, id := range b.ids {
				if a.queue[j] != id {
					pref = false
					break
				}
			}
		}
		if !pref {
			kind := "fifo-order"
			why := "is not a prefix of what the reference FIFO queue holds"
			for _, id := range b.ids {
				_, known := l.specs[id]
				switch {
				case !known:
					kind, why = "unknown-alert", fmt.Sprintf("alert id %d was never sent", id)
				case a.got[id]:
					kind, why = "duplicate-delivery", fmt.Sprintf("alert id %d was delivered before", id)
				case a.victims[id]:
					kind, why = "overflow-victim-not-oldest", fmt.Sprintf("alert id %d was the oldest queued alert at an overflow and must have been dropped in favour of newer ones, but it is delivered", id)
				case !inSlice(a.queue, id):
					kind, why = "unexpected-alert", fmt.Sprintf("alert id %d was not queued for this Alertmanager (relabel-dropped, or sent while it was not a member)", id)
				default:
					continue
				}
				break
			}
			l.c.Violatef(kind, "%s received %v but the reference queue is %v: %s\n%s", a.url, b.ids, a.queue, why, l.transcript())
			a.failed, l.dead = true, true
			continue
		}
		a.queue = a.queue[len(b.ids):]
		for _, id := range b.ids {
			a.got[id] = true
		}
		if a.gid == 0 && b.gid != l.w.runGID {
			a.gid = b.gid
		}
		s := snaps[i]
		if s.blocked && !s.exited {
			if a.inflight != nil {
				l.c.Violatef("concurrent-requests", "%s has two requests executing at once while the harness holds the first: %v and %v\n%s", a.url, a.inflight.ids, b.ids, l.transcript())
				a.failed, l.dead = true, true
				continue
			}
			a.inflight = b
		} else {
			l.account(a, b, s.outcome)
		}
	}
}

func (l *lockstep) account(a *lsAM, b *batchRec, outcome int) {
	if outcome == ocOK {
		a.ok += len(b.ids)
	} else {
		a.fail += len(b.ids)
		l.sawFail = true
	}
}

func inSlice(s []int, x int) bool {
	for _, v := range s {
		if v == x {
			return true
		}
	}
	return false
}

// expectDo waits for the next request of a (which the reference model says must come).
func (l *lockstep) expectDo(a *lsAM, why string) bool {
	ok := l.w.waitFor(fmt.Sprintf("request to %s (%s; reference queue %v)", a.url, why, a.queue), func() bool {
		return len(a.rec.batches) > a.consumed
	})
	if !ok {
		l.dead = true
		return false
	}
	l.absorb(a)
	return !l.dead
}

// settle brings every live send loop to its logical resting point.
func (l *lockstep) settle() {
	for _, a := range l.ams {
		if l.dead {
			return
		}
		l.absorb(a)
		if a.live && !a.failed && a.inflight == nil && !a.parked && len(a.queue) > 0 {
			l.expectDo(a, "idle loop with queued alerts")
		}
	}
}

// release lets the request a is executing return with the given outcome and waits until the
// send loop has reached its next resting point.
func (l *lockstep) release(a *lsAM, outcome int, park bool) {
	b := a.inflight
	if b == nil {
		return
	}
	g := b.gid
	a.gid = g
	l.w.mu.Lock()
	idle0 := l.w.idle[g]
	loopOwned := g != l.w.runGID
	if park && a.live && loopOwned {
		l.w.parkNext[g] = true
	} else {
		park = false
	}
	l.w.mu.Unlock()
	b.release <- outcome
	a.inflight = nil
	l.account(a, b, outcome)
	l.logf("release %s %v outcome=%d park=%v", a.url, b.ids, outcome, park)
	if !a.live || !loopOwned {
		return
	}
	switch {
	case park:
		if !l.w.waitFor("send loop of "+a.url+" parks at notifier.sendloop.idle", func() bool { return l.w.parked[g] != nil }) {
			l.dead = true
			return
		}
		a.parked = true
	case len(a.queue) > 0:
		l.expectDo(a, "after a released request")
	default:
		if !l.w.waitFor("send loop of "+a.url+" reaches notifier.sendloop.idle", func() bool { return l.w.idle[g] > idle0 }) {
			l.dead = true
		}
	}
}

func (l *lockstep) unpark(a *lsAM) {
	if !a.parked {
		return
	}
	a.parked = false
	l.w.mu.Lock()
	if ch := l.w.parked[a.gid]; ch != nil {
		close(ch)
		delete(l.w.parked, a.gid)
	}
	l.w.mu.Unlock()
	l.logf("unpark %s", a.url)
	if a.live && !a.failed && len(a.queue) > 0 {
		l.expectDo(a, "after unparking")
	}
}

func (l *lockstep) pickOutcome() int {
	switch x := l.r.IntN(100); {
	case x < 70:
		return ocOK
	case x < 85:
		return ocHTTP
	}
	return ocErr
}

func (l *lockstep) doSend() {
	n := 1 + l.r.IntN(3)
	switch l.r.IntN(10) {
	case 0:
		n = l.capacity + l.r.IntN(4) // at or above the queue capacity in one call
	case 1, 2:
		n = 1 + l.r.IntN(l.capacity)
	}
	var alerts []*notifier.Alert
	var ids []int
	var specs []alertSpec
	for i := 0; i < n; i++ {
		sp := alertSpec{id: l.nextID, low: l.r.IntN(6) == 0, b: l.r.IntN(5) == 0, long: l.r.IntN(8) == 0}
		l.nextID++
		l.specs[sp.id] = sp
		specs = append(specs, sp)
		ids = append(ids, sp.id)
		alerts = append(alerts, mkAlert(sp))
	}
	l.logf("send %v", ids)
	// reference: FIFO queue per Alertmanager, capacity bound, the oldest are dropped first
	for _, a := range l.liveAMs() {
		for _, sp := range specs {
			if !l.cfg.survives(a.set, sp) {
				l.sawRelabelDrop = true
				continue
			}
			a.in++
			a.queue = append(a.queue, sp.id)
		}
		if d := len(a.queue) - l.capacity; d > 0 {
			for _, id := range a.queue[:d] {
				a.victims[id] = true
			}
			a.overflow += d
			a.queue = append([]int(nil), a.queue[d:]...)
			l.sawOverflow = true
			l.logf("  reference: %s overflows, drops oldest %d", a.url, d)
		}
	}
	l.w.send(alerts, ids)
	l.settle()
}

func (l *lockstep) newAM(set int) *lsAM {
	n := l.nextAM
	l.nextAM++
	url := l.cfg.url(set, n)
	a := &lsAM{n: n, set: set, url: url, live: true, victims: map[int]bool{}, got: map[int]bool{}}
	a.rec = l.w.register(url, true, l.c.SubRng(url), 30, 0)
	l.ams = append(l.ams, a)
	return a
}

// patience is how long the harness keeps holding requests and parked loops while a removal or
// Stop is in progress before it lets them go.  It only selects the schedule (a notifier that
// waits for its send loops needs them released, one that does not returns at once); no verdict
// depends on it.
const patience = 150 * time.Millisecond

func (l *lockstep) beginTail(a *lsAM) {
	a.live = false
	a.tail = true
	a.tailPos = map[int]int{}
	a.tailSeen = map[int]int64{}
	for i, id := range a.queue {
		a.tailPos[id] = i
	}
	a.lastPos = -1
}

func (l *lockstep) tailMissing(a *lsAM) []int {
	var out []int
	for _, id := range a.queue {
		if _, ok := a.tailSeen[id]; !ok {
			out = append(out, id)
		}
	}
	return out
}

// absorbTail checks requests that arrive after the Alertmanager left the set or the manager was
// stopped: only alerts still queued at that moment, each once, in queue order.
func (l *lockstep) absorbTail(a *lsAM) {
	l.w.mu.Lock()
	bs := append([]*batchRec(nil), a.rec.batches[a.consumed:]...)
	outcomes := make(map[*batchRec]int, len(bs))
	for _, b := range bs {
		outcomes[b] = b.outcome
	}
	drainers := map[int64]bool{l.w.runGID: true}
	for g := range l.w.drainers {
		drainers[g] = true
	}
	l.w.mu.Unlock()
	sort.SliceStable(bs, func(i, j int) bool { return bs[i].seq < bs[j].seq })
	for _, b := range bs {
		a.consumed++
		a.batches++
		if a.failed {
			continue
		}
		l.logf("  recv(after removal/stop) %s ids=%v", a.url, b.ids)
		fail := func(kind, format string, args ...any) {
			l.c.Violatef(kind, "%s\n%s", fmt.Sprintf(format, args...), l.transcript())
			a.failed, l.dead = true, true
		}
		if len(b.ids) > l.maxBatch {
			fail("batch-too-large", "%s received a request with %d alerts, max batch size is %d: %v", a.url, len(b.ids), l.maxBatch, b.ids)
			continue
		}
		if len(b.ids) == 0 {
			fail("empty-request", "%s received a request without alerts", a.url)
			continue
		}
		for _, id := range b.ids {
			p, queued := a.tailPos[id]
			_, known := l.specs[id]
			switch {
			case !known:
				fail("unknown-alert", "%s received alert id %d that was never sent", a.url, id)
			case a.got[id]:
				fail("duplicate-delivery", "%s received alert id %d twice", a.url, id)
			case a.victims[id]:
				fail("overflow-victim-not-oldest", "%s received alert id %d, which was the oldest queued alert at an overflow and must have been dropped in favour of newer ones", a.url, id)
			case !queued:
				fail("unexpected-alert", "%s received alert id %d which was not queued for it (relabel-dropped, or sent after it was removed / the manager stopped)", a.url, id)
			case p < a.lastPos:
				kind := "fifo-order"
				if l.drain && a.lastB.gid != b.gid && drainers[a.lastB.gid] != drainers[b.gid] {
					kind = "order-inversion-drain-vs-loop-goroutine"
				}
				fail(kind, "%s received alert %d (queue position %d, request by goroutine %d at t=%d) after the newer alert at queue position %d (request by goroutine %d at t=%d); queue at removal/stop: %v; draining goroutines: %v", a.url, id, p, b.gid, b.seq, a.lastPos, a.lastB.gid, a.lastB.seq, a.queue, drainers)
			}
			if a.failed {
				break
			}
			a.lastPos, a.lastB = p, b
			a.got[id] = true
			a.tailSeen[id] = b.seq
		}
		if !a.failed {
			l.account(a, b, outcomes[b])
		}
	}
}

func (l *lockstep) ungate(as []*lsAM) {
	l.w.mu.Lock()
	for _, a := range as {
		a.rec.gated = false
	}
	l.w.mu.Unlock()
}

// letGo releases held requests and parked loops of Alertmanagers in tail mode without waiting.
func (l *lockstep) letGo(as []*lsAM) {
	for _, a := range as {
		if b := a.inflight; b != nil {
			oc := l.pickOutcome()
			b.release <- oc
			a.inflight = nil
			l.account(a, b, oc)
			l.logf("release(after removal/stop) %s %v outcome=%d", a.url, b.ids, oc)
		}
		if a.parked {
			a.parked = false
			l.w.mu.Lock()
			if ch := l.w.parked[a.gid]; ch != nil {
				close(ch)
				delete(l.w.parked, a.gid)
			}
			l.w.mu.Unlock()
			l.logf("unpark(after removal/stop) %s", a.url)
		}
	}
}

// retire runs op, which removes or stops the Alertmanagers as, making no assumption on whether
// the notifier waits for their send loops while the harness holds a request or parks a loop.
func (l *lockstep) retire(as []*lsAM, what string, op func() error) bool {
	l.ungate(as)
	for _, a := range as {
		l.absorb(a)
		l.beginTail(a)
	}
	if l.dead {
		return false
	}
	done := make(chan error, 1)
	go func() {
		g := curGID()
		l.w.mu.Lock()
		l.w.drainers[g] = true
		l.w.mu.Unlock()
		done <- op()
	}()
	var err error
	finished := false
	select {
	case err = <-done:
		finished = true
	case <-time.After(patience):
		l.c.Count("lockstep_patience_expired", 1)
	}
	l.letGo(as)
	if !finished {
		select {
		case err = <-done:
		case <-time.After(watchdog):
			l.c.Inconclusive("watchdog: %s did not complete within %s", what, watchdog)
			l.w.mu.Lock()
			l.w.timedOut = true
			l.w.mu.Unlock()
			l.dead = true
			return false
		}
	}
	if err != nil {
		if err == errWatchdog {
			l.dead = true
			return false
		}
		panic(core.HarnessError{Msg: what + ": " + err.Error()})
	}
	for _, a := range as {
		l.absorb(a)
	}
	return !l.dead
}

var errWatchdog = fmt.Errorf("watchdog")

func (l *lockstep) afterRemoval(as []*lsAM) {
	for _, a := range as {
		l.sawRemoval = true
		if l.drain && len(l.tailMissing(a)) == 0 {
			l.c.Count("removed_am_fully_drained", 1)
		}
	}
}

func (l *lockstep) doTsets(force bool) {
	newMembers := map[int][]int{}
	var removed []*lsAM
	var added []int // sets that get a new member
	for set := range l.cfg.sets {
		for _, n := range l.members[set] {
			if !force && l.r.IntN(5) == 0 {
				removed = append(removed, l.amByN(n))
				continue
			}
			newMembers[set] = append(newMembers[set], n)
		}
		if len(newMembers[set]) == 0 || (len(newMembers[set]) < 3 && l.r.IntN(3) == 0) {
			added = append(added, set)
		}
	}
	for _, set := range added {
		a := l.newAM(set)
		newMembers[set] = append(newMembers[set], a.n)
	}
	l.logf("tsets %v (removed %d, added %d)", newMembers, len(removed), len(added))
	ts := tsetsFor(newMembers, len(l.cfg.sets))
	if !l.retire(removed, "target-group update", func() error {
		if !l.w.pushTsets(ts) {
			return errWatchdog
		}
		return nil
	}) {
		return
	}
	l.members = newMembers
	l.afterRemoval(removed)
	l.settle()
}

func (l *lockstep) amByN(n int) *lsAM {
	for _, a := range l.ams {
		if a.n == n {
			return a
		}
	}
	panic(core.HarnessError{Msg: "unknown alertmanager index"})
}

func (l *lockstep) doApplyConfig() {
	next := l.cfg
	next.sets = append([]setCfg(nil), l.cfg.sets...)
	next.dropLow = l.r.IntN(2) == 0
	next.mark = l.r.IntN(2) == 0
	next.ext = l.r.IntN(3)
	changed := map[int]bool{}
	for i := range next.sets {
		switch l.r.IntN(6) {
		case 0:
			next.sets[i].gen = l.nextGen()
			changed[i] = true
		case 1:
			next.sets[i].dropB = !next.sets[i].dropB
			next.sets[i].gen = l.nextGen() // also a new URL space: no Alertmanager URL is ever reused
			changed[i] = true
		}
	}
	switch l.r.IntN(8) {
	case 0:
		if len(next.sets) > 1 {
			changed[len(next.sets)-1] = true
			next.sets = next.sets[:len(next.sets)-1]
		}
	case 1:
		if len(next.sets) < 3 {
			next.sets = append(next.sets, setCfg{gen: l.nextGen(), dropB: l.r.IntN(2) == 0})
		}
	}
	var removed []*lsAM
	for set := range changed {
		for _, n := range l.members[set] {
			removed = append(removed, l.amByN(n))
		}
	}
	sort.Slice(removed, func(i, j int) bool { return removed[i].n < removed[j].n })
	l.logf("applyconfig %+v (sets with a changed configuration: %v)", next, changed)
	newCfg := next.build()
	if !l.retire(removed, "ApplyConfig", func() error { return l.w.mgr.ApplyConfig(newCfg) }) {
		return
	}
	l.cfg = next
	for set := range changed {
		delete(l.members, set)
	}
	l.afterRemoval(removed)
	l.settle()
	if len(changed) > 0 && l.r.IntN(4) != 0 && !l.dead {
		l.doTsets(true)
	}
}

func (l *lockstep) nextGen() int {
	g := 0
	for _, s := range l.cfg.sets {
		if s.gen >= g {
			g = s.gen + 1
		}
	}
	if l.maxGen >= g {
		g = l.maxGen + 1
	}
	l.maxGen = g
	return g
}

// checkMetrics: every loss the reference counts must be visible in the notifier's counters.
func (l *lockstep) checkMetrics(when string) {
	m := l.w.metrics()
	for _, a := range l.liveAMs() {
		if a.failed {
			continue
		}
		mm, ok := m[a.url]
		if !ok {
			l.c.Violatef("metrics-missing", "%s: no per-Alertmanager counters in the registry for a current member (%s)\n%s", a.url, when, l.transcript())
			l.dead = true
			continue
		}
		lost := a.overflow + a.fail
		if int(mm["dropped"]) < lost {
			l.c.Violatef("loss-not-counted", "%s (%s): %d alerts lost (%d by overflow, %d in failed requests) but dropped_total=%v\n%s", a.url, when, lost, a.overflow, a.fail, mm["dropped"], l.transcript())
			l.dead = true
		}
		if int(mm["errors"]) < a.fail {
			l.c.Violatef("error-not-counted", "%s (%s): %d alerts were in failed requests but errors_total=%v\n%s", a.url, when, a.fail, mm["errors"], l.transcript())
			l.dead = true
		}
		if int(mm["dropped"]) == lost && int(mm["errors"]) == a.fail && int(mm["sent"]) == a.ok {
			l.c.Count("metric_checks_exact", 1)
		} else {
			l.c.Count("metric_checks_overcounting", 1)
		}
		// conservation in the reference itself (harness self-check)
		infl := 0
		if a.inflight != nil {
			infl = len(a.inflight.ids)
		}
		if a.in != a.ok+a.fail+a.overflow+len(a.queue)+infl {
			panic(core.HarnessError{Msg: fmt.Sprintf("reference model conservation broken for %s: in=%d ok=%d fail=%d overflow=%d queued=%d inflight=%d", a.url, a.in, a.ok, a.fail, a.overflow, len(a.queue), infl)})
		}
	}
}

// quiesce releases everything until every live queue is empty and every loop idle.
func (l *lockstep) quiesce() {
	for round := 0; round < 10000 && !l.dead; round++ {
		busy := false
		for _, a := range l.liveAMs() {
			if l.dead {
				return
			}
			if a.parked {
				l.unpark(a)
				busy = true
			}
			if a.inflight != nil {
				l.release(a, l.pickOutcome(), false)
				busy = true
			}
		}
		if !busy {
			break
		}
	}
	l.logf("quiescent")
}

func (l *lockstep) doStop() {
	pre := l.r.IntN(3) == 0
	if pre {
		l.quiesce()
	}
	if l.dead {
		return
	}
	l.checkMetrics("before Stop")
	if l.dead {
		return
	}
	live := l.liveAMs()
	queued := 0
	for _, a := range live {
		queued += len(a.queue)
	}
	if queued > 0 {
		l.sawDrainWork = true
	}
	l.logf("stop drain=%v queued=%d", l.drain, queued)
	// Send after Stop must not reach anybody
	late := alertSpec{id: l.nextID}
	l.nextID++
	l.specs[late.id] = late
	lateAlert := mkAlert(late)
	var runDoneSeq int64
	if !l.retire(live, "Stop", func() error {
		close(l.w.stopCh)
		l.w.mgr.Stop()
		l.w.send([]*notifier.Alert{lateAlert}, []int{late.id})
		if !l.w.waitFor("Manager.Run returns after Stop", func() bool {
			select {
			case <-l.w.runDone:
				return true
			default:
				return false
			}
		}) {
			return errWatchdog
		}
		runDoneSeq = l.w.tick()
		return nil
	}) {
		return
	}
	if l.drain {
		// Requests still on their way get a grace period; it only decides which of two violation
		// kinds is reported (never handed over / handed over after Run returned).
		t0 := time.Now()
		for {
			pending := false
			for _, a := range live {
				l.absorb(a)
				if !a.failed && len(l.tailMissing(a)) > 0 {
					pending = true
				}
			}
			if l.dead || !pending || time.Since(t0) > 20*time.Second {
				break
			}
			time.Sleep(20 * time.Millisecond)
		}
		for _, a := range live {
			if l.dead || a.failed {
				break
			}
			if m := l.tailMissing(a); len(m) > 0 {
				l.c.Violatef("drain-incomplete", "DrainOnShutdown: Run returned but %s was never handed the queued alerts %v (queue at Stop: %v)\n%s", a.url, m, a.queue, l.transcript())
				l.dead = true
				break
			}
			var lateIDs []int
			for _, id := range a.queue {
				if a.tailSeen[id] > runDoneSeq {
					lateIDs = append(lateIDs, id)
				}
			}
			if len(lateIDs) > 0 {
				l.c.Violatef("drain-request-after-run-returned", "DrainOnShutdown: queued alerts %v were handed to %s only after Manager.Run had returned (t=%d)\n%s", lateIDs, a.url, runDoneSeq, l.transcript())
				l.dead = true
				break
			}
		}
	}
	// what still trickles in (a loop that saw work and the stop signal at once may send one more
	// request) must still respect the order
	for i := 0; i < 20; i++ {
		runtime.Gosched()
	}
	for _, a := range l.ams {
		l.absorb(a)
	}
}

func (l *lockstep) transcript() string {
	lines := l.log
	if len(lines) > 120 {
		lines = lines[len(lines)-120:]
	}
	return fmt.Sprintf("capacity=%d maxBatch=%d drain=%v\n%s", l.capacity, l.maxBatch, l.drain, strings.Join(lines, "\n"))
}

func runLockstep(c *core.Case) {
	r := c.Rng
	l := &lockstep{c: c, r: r, specs: map[int]alertSpec{}, members: map[int][]int{}}
	l.capacity = 2 + r.IntN(10)
	l.maxBatch = 1 + r.IntN(5)
	if r.IntN(6) == 0 {
		l.maxBatch = l.capacity + r.IntN(3)
	}
	l.drain = r.IntN(2) == 0
	l.cfg = cfgState{dropLow: r.IntN(2) == 0, mark: r.IntN(2) == 0, ext: 0}
	nsets := 1 + r.IntN(2)
	for i := 0; i < nsets; i++ {
		l.cfg.sets = append(l.cfg.sets, setCfg{gen: 0, dropB: r.IntN(2) == 0})
	}
	l.w = newWorld(c, l.capacity, l.maxBatch, l.drain)
	defer l.w.finish()
	core.Must(l.w.mgr.ApplyConfig(l.cfg.build()), "ApplyConfig")
	l.w.startRun()
	l.logf("start %+v", l.cfg)
	l.doTsets(true)
	steps := 12 + r.IntN(30)
	if c.Tier == core.Thorough {
		steps += r.IntN(40)
	}
	for s := 0; s < steps && !l.dead; s++ {
		live := l.liveAMs()
		switch x := r.IntN(100); {
		case x < 50:
			l.doSend()
		case x < 75: // an executing request returns
			var cand []*lsAM
			for _, a := range live {
				if a.inflight != nil {
					cand = append(cand, a)
				}
			}
			if len(cand) == 0 {
				l.doSend()
				continue
			}
			l.release(cand[r.IntN(len(cand))], l.pickOutcome(), r.IntN(4) == 0)
		case x < 82:
			var cand []*lsAM
			for _, a := range live {
				if a.parked {
					cand = append(cand, a)
				}
			}
			if len(cand) > 0 {
				l.unpark(cand[r.IntN(len(cand))])
			}
		case x < 89:
			l.doTsets(false)
		case x < 95:
			l.doApplyConfig()
		default:
			l.quiesce()
			if !l.dead {
				l.checkMetrics("at a quiescent point")
			}
		}
	}
	if !l.dead {
		l.doStop()
	}
	l.w.mu.Lock()
	herr, unknown := l.w.harnessErr, l.w.unknown
	l.w.mu.Unlock()
	if herr != "" {
		panic(core.HarnessError{Msg: herr})
	}
	if len(unknown) > 0 && !c.Violated() {
		c.Violatef("request-to-unknown-url", "requests went to URLs that were never configured: %v\n%s", unknown, l.transcript())
	}
	// evidence
	var recvd, batches, in int
	for _, a := range l.ams {
		recvd += a.ok + a.fail
		batches += a.batches
		in += a.in
	}
	c.Count("lockstep_cases", 1)
	c.Count("alerts_queued_per_am_total", int64(in))
	c.Count("alerts_received_total", int64(recvd))
	c.Count("requests_total", int64(batches))
	c.Count("alertmanagers_total", int64(len(l.ams)))
	for name, b := range map[string]bool{"overflow": l.sawOverflow, "failed_request": l.sawFail, "stop_with_queued_alerts": l.sawDrainWork, "alertmanager_removed": l.sawRemoval, "relabel_drop": l.sawRelabelDrop, "drain_on_shutdown": l.drain} {
		if b {
			c.Seen("lockstep_features", name)
		}
	}
	if !l.dead && batches >= 2 && (l.sawOverflow || l.sawFail || l.sawDrainWork) {
		c.Nontrivial("lockstep", strings.Join(l.log, "|"))
	}
	if c.Idx < 6 {
		lines := l.log
		if len(lines) > 40 {
			lines = lines[:40]
		}
		c.Sample(map[string]any{"mode": "lockstep", "capacity": l.capacity, "max_batch": l.maxBatch, "drain_on_shutdown": l.drain, "transcript_head": lines})
	}
}
