// Package c17: optimized regex matching equals regexp semantics (differential monitor).
package c17

import (
	"fmt"
	"math/rand/v2"
	"regexp"
	"strings"
	"unicode"
	"unicode/utf8"

	"golang.org/x/text/unicode/norm"

	"github.com/prometheus/prometheus/model/labels"

	"verif/internal/core"
)

func init() {
	core.Register(&core.Prop{
		ID:        "C17",
		Title:     "Optimized regex matching equals regular-expression semantics",
		Level:     "exploration",
		Technique: "differential runtime monitor: FastRegexMatcher / Matcher vs Go regexp on generated pattern ASTs and derived strings",
		LevelText: "Generated regex ASTs (literals incl. Unicode case-fold pairs, alternations of literals and concatenations, wildcards, classes, captures, (?i), large alternations, anchors) are compiled by labels.NewFastRegexMatcher and by the standard regexp engine; every derived string (samples from the pattern, single-edit mutants, case flips, newline insertions, set members) must get the same verdict, SetMatches must be exactly the match set. Held on the observed (pattern,string) pairs only.",
		LevelNote: "Trusted: Go's regexp engine as the reference for '^(?s:p)$'. Patterns the reference rejects are skipped (counted).",
		DesignRef: "DESIGN.md §5 C17",
		Rule:      "case = one generated pattern with 30 (quick) / 60 (thorough) derived strings; non-trivial iff the pattern compiled, the matcher reports IsOptimized (a fast path is active) and both a matching and a non-matching string were observed; distinct by pattern text",
		Cases: func(variant string, tier core.Tier) int {
			if variant != "default" {
				return 0
			}
			if tier == core.Thorough {
				return 200000
			}
			return 6000
		},
		Run:           run,
		MinNontrivial: func(t core.Tier) int { return 500 },
	})
}

type node struct {
	kind     string // lit alt cat star plus quest dotstar dotplus dotquest dot class cap icase repeat begin end empty
	s        string
	kids     []*node
	min, max int
}

var alphabet = []string{"a", "b", "c", "A", "B", "x", "foo", "bar", "Foo", "-", "_", "0", "1", "k", "K", "s", "S", "ſ", "K", "é", "É", "ß", "ǆ", "ǅ", "\n", ".", "日本", "µ", "Μ", "ı", "İ", "i", "I", "ﬁ", "fi", "Å", "Å", "e\u0301", "dž", "²", "2"}

func genLit(r *rand.Rand) string {
	n := 1 + r.IntN(3)
	var sb strings.Builder
	for i := 0; i < n; i++ {
		sb.WriteString(alphabet[r.IntN(len(alphabet))])
	}
	return sb.String()
}

func gen(r *rand.Rand, depth int) *node {
	if depth <= 0 {
		switch r.IntN(10) {
		case 0:
			return &node{kind: "dotstar"}
		case 1:
			return &node{kind: "dotplus"}
		case 2:
			return &node{kind: "class", s: genClass(r)}
		default:
			return &node{kind: "lit", s: genLit(r)}
		}
	}
	switch r.IntN(22) {
	case 0, 1, 2:
		return &node{kind: "lit", s: genLit(r)}
	case 3, 4, 5:
		n := 2 + r.IntN(4)
		k := &node{kind: "alt"}
		for i := 0; i < n; i++ {
			if r.IntN(3) == 0 {
				k.kids = append(k.kids, gen(r, depth-1))
			} else {
				k.kids = append(k.kids, &node{kind: "lit", s: genLit(r)})
			}
		}
		return k
	case 6, 7, 8, 9:
		n := 2 + r.IntN(4)
		k := &node{kind: "cat"}
		for i := 0; i < n; i++ {
			k.kids = append(k.kids, gen(r, depth-1))
		}
		return k
	case 10:
		return &node{kind: "dotstar"}
	case 11:
		return &node{kind: "dotplus"}
	case 12:
		return &node{kind: "dotquest"}
	case 13:
		return &node{kind: "dot"}
	case 14:
		return &node{kind: "class", s: genClass(r)}
	case 15:
		return &node{kind: "cap", kids: []*node{gen(r, depth-1)}}
	case 16:
		return &node{kind: "icase", kids: []*node{gen(r, depth-1)}}
	case 17:
		return &node{kind: []string{"star", "plus", "quest"}[r.IntN(3)], kids: []*node{gen(r, depth-1)}}
	case 18:
		mn := r.IntN(3)
		return &node{kind: "repeat", kids: []*node{gen(r, depth-1)}, min: mn, max: mn + r.IntN(3)}
	case 19:
		return &node{kind: "empty"}
	case 20:
		// big alternation of literals (map-based matcher threshold is 16)
		n := 10 + r.IntN(60)
		if r.IntN(8) == 0 {
			n = 200 + r.IntN(1900)
		}
		k := &node{kind: "alt"}
		for i := 0; i < n; i++ {
			k.kids = append(k.kids, &node{kind: "lit", s: genLit(r) + fmt.Sprint(i%37)})
		}
		if r.IntN(3) == 0 { // prefixes with wildcards
			for i := 0; i < 3; i++ {
				k.kids = append(k.kids, &node{kind: "cat", kids: []*node{{kind: "lit", s: genLit(r)}, {kind: "dotstar"}}})
			}
		}
		return k
	default:
		return &node{kind: []string{"begin", "end"}[r.IntN(2)]}
	}
}

func genClass(r *rand.Rand) string {
	switch r.IntN(6) {
	case 0:
		return "[a-c]"
	case 1:
		return "[^a]"
	case 2:
		return `\d`
	case 3:
		return "[kK]"
	case 4:
		return `[^\n]`
	default:
		return `\w`
	}
}

func (n *node) String() string {
	switch n.kind {
	case "lit":
		return regexp.QuoteMeta(n.s)
	case "alt":
		parts := make([]string, len(n.kids))
		for i, k := range n.kids {
			parts[i] = k.String()
		}
		return "(?:" + strings.Join(parts, "|") + ")"
	case "cat":
		var sb strings.Builder
		for _, k := range n.kids {
			sb.WriteString(k.String())
		}
		return sb.String()
	case "dotstar":
		return ".*"
	case "dotplus":
		return ".+"
	case "dotquest":
		return ".?"
	case "dot":
		return "."
	case "class":
		return n.s
	case "cap":
		return "(" + n.kids[0].String() + ")"
	case "icase":
		return "(?i:" + n.kids[0].String() + ")"
	case "star":
		return "(?:" + n.kids[0].String() + ")*"
	case "plus":
		return "(?:" + n.kids[0].String() + ")+"
	case "quest":
		return "(?:" + n.kids[0].String() + ")?"
	case "repeat":
		return fmt.Sprintf("(?:%s){%d,%d}", n.kids[0].String(), n.min, n.max)
	case "begin":
		return "^"
	case "end":
		return "$"
	}
	return ""
}

// sample draws a string that the pattern is likely (not certainly) to match.
func (n *node) sample(r *rand.Rand, fold bool) string {
	switch n.kind {
	case "lit":
		if fold {
			return flipCase(r, n.s)
		}
		return n.s
	case "alt":
		return n.kids[r.IntN(len(n.kids))].sample(r, fold)
	case "cat":
		var sb strings.Builder
		for _, k := range n.kids {
			sb.WriteString(k.sample(r, fold))
		}
		return sb.String()
	case "dotstar", "dotplus", "dotquest", "dot":
		opts := []string{"", "x", "\n", "zz", "a\nb", "é"}
		if n.kind == "dotplus" || n.kind == "dot" {
			opts = opts[1:]
		}
		s := opts[r.IntN(len(opts))]
		if n.kind == "dot" || n.kind == "dotquest" {
			if s != "" {
				_, sz := utf8.DecodeRuneInString(s)
				s = s[:sz]
			}
		}
		return s
	case "class":
		return []string{"a", "b", "k", "K", "7", "_", "\n", "z"}[r.IntN(8)]
	case "cap":
		return n.kids[0].sample(r, fold)
	case "icase":
		return n.kids[0].sample(r, true)
	case "star", "plus", "quest", "repeat":
		lo, hi := 0, 2
		switch n.kind {
		case "plus":
			lo = 1
		case "quest":
			hi = 1
		case "repeat":
			lo, hi = n.min, n.max
		}
		cnt := lo
		if hi > lo {
			cnt += r.IntN(hi - lo + 1)
		}
		var sb strings.Builder
		for i := 0; i < cnt; i++ {
			sb.WriteString(n.kids[0].sample(r, fold))
		}
		return sb.String()
	}
	return ""
}

func flipCase(r *rand.Rand, s string) string {
	rs := []rune(s)
	for i, c := range rs {
		if r.IntN(2) == 0 {
			// walk the simple-fold orbit a random number of steps
			for k := r.IntN(3); k >= 0; k-- {
				c = unicode.SimpleFold(c)
			}
			rs[i] = c
		}
	}
	return string(rs)
}

func mutate(r *rand.Rand, s string) string {
	rs := []rune(s)
	switch r.IntN(8) {
	case 0: // delete
		if len(rs) > 0 {
			i := r.IntN(len(rs))
			rs = append(rs[:i:i], rs[i+1:]...)
		}
	case 1: // insert
		i := r.IntN(len(rs) + 1)
		ins := []rune(alphabet[r.IntN(len(alphabet))])
		rs = append(rs[:i:i], append(ins, rs[i:]...)...)
	case 2: // replace
		if len(rs) > 0 {
			rs[r.IntN(len(rs))] = []rune(alphabet[r.IntN(len(alphabet))])[0]
		}
	case 3: // newline insertion
		i := r.IntN(len(rs) + 1)
		rs = append(rs[:i:i], append([]rune{'\n'}, rs[i:]...)...)
	case 4: // case flip
		return flipCase(r, s)
	case 6: // compatibility-normalised form (a different string unless already NFKD)
		return norm.NFKD.String(s)
	case 7:
		return norm.NFKC.String(s)
	case 5: // duplicate / truncate
		if r.IntN(2) == 0 {
			return s + s
		}
		if len(rs) > 0 {
			rs = rs[:r.IntN(len(rs))]
		}
	}
	return string(rs)
}

// overlapping literals: an occurrence can overlap another one, so a matcher that scans for the
// literal must resume one character after a rejected occurrence, not after its end
var overlapLits = []string{"aa", "aaa", "abab", "aba", "-a-", "xyxy", "日日", "00", "a.a.", "AbAb"}

// genContains builds <wild> literal(s) <wild> patterns around self-overlapping literals.
func genContains(r *rand.Rand) *node {
	wild := func() *node {
		switch r.IntN(6) {
		case 0:
			return &node{kind: "dotstar"}
		case 1, 2:
			return &node{kind: "dotplus"}
		case 3:
			return &node{kind: "dotquest"}
		case 4:
			return &node{kind: "dot"}
		default:
			return &node{kind: "empty"}
		}
	}
	lit := func() *node {
		if r.IntN(3) == 0 {
			k := &node{kind: "alt"}
			for i := 0; i < 2+r.IntN(2); i++ {
				k.kids = append(k.kids, &node{kind: "lit", s: overlapLits[r.IntN(len(overlapLits))]})
			}
			return k
		}
		return &node{kind: "lit", s: overlapLits[r.IntN(len(overlapLits))]}
	}
	n := &node{kind: "cat", kids: []*node{wild(), lit(), wild()}}
	if r.IntN(3) == 0 {
		n.kids = append(n.kids, lit(), wild())
	}
	if r.IntN(4) == 0 {
		n = &node{kind: "cat", kids: []*node{{kind: "cap", kids: []*node{n.kids[0]}}, n.kids[1], {kind: "cap", kids: []*node{n.kids[2]}}}}
	}
	if r.IntN(5) == 0 {
		n = &node{kind: "icase", kids: []*node{n}}
	}
	return n
}

// overlapStrings returns strings in which the literals occur overlapping themselves.
func overlapStrings(r *rand.Rand) []string {
	var out []string
	for i := 0; i < 10; i++ {
		l := overlapLits[r.IntN(len(overlapLits))]
		rs := []rune(l)
		period := rs[:(len(rs)+1)/2]
		var sb strings.Builder
		if r.IntN(2) == 0 {
			sb.WriteString([]string{"", "z", "a", "\n"}[r.IntN(4)])
		}
		for k := 0; k < 2+r.IntN(4); k++ {
			sb.WriteString(string(period))
		}
		sb.WriteString(string(rs[:r.IntN(len(rs)+1)]))
		if r.IntN(2) == 0 {
			sb.WriteString([]string{"", "z", "a", "\n"}[r.IntN(4)])
		}
		out = append(out, sb.String())
	}
	return out
}

func run(c *core.Case) {
	r := c.Rng
	depth := 1 + r.IntN(4)
	ast := gen(r, depth)
	contains := r.IntN(6) == 0
	if contains {
		ast = genContains(r)
	}
	pat := ast.String()
	// occasionally use the raw top-level alternation syntax (a|b|c without group): this is
	// what optimizeAlternatingLiterals keys on.
	if ast.kind == "alt" && r.IntN(2) == 0 {
		pat = strings.TrimSuffix(strings.TrimPrefix(pat, "(?:"), ")")
	}
	ref, err := regexp.Compile("^(?s:" + pat + ")$")
	fm, ferr := labels.NewFastRegexMatcher(pat)
	if err != nil {
		c.Count("patterns_rejected_by_reference", 1)
		return
	}
	if ferr != nil {
		// the reference accepts "^(?s:p)$": label matchers must accept p as well
		c.Violatef("accept-mismatch", "pattern %q accepted by regexp (anchored) but NewFastRegexMatcher failed: %v", pat, ferr)
		return
	}
	mEq, err1 := labels.NewMatcher(labels.MatchRegexp, "l", pat)
	mNe, err2 := labels.NewMatcher(labels.MatchNotRegexp, "l", pat)
	if err1 != nil || err2 != nil {
		c.Violatef("accept-mismatch", "pattern %q: NewMatcher failed: %v %v", pat, err1, err2)
		return
	}
	nstr := 30
	if c.Tier == core.Thorough {
		nstr = 60
	}
	strs := []string{"", "\n"}
	if contains {
		strs = append(strs, overlapStrings(r)...)
		nstr += 10
	}
	for len(strs) < nstr {
		s := ast.sample(r, r.IntN(4) == 0)
		strs = append(strs, s)
		if len(strs) < nstr {
			strs = append(strs, mutate(r, s))
		}
	}
	set := fm.SetMatches()
	if len(set) > 0 {
		inSet := map[string]bool{}
		for _, s := range set {
			inSet[s] = true
			strs = append(strs, s)
			if len(set) < 40 {
				strs = append(strs, mutate(r, s))
			}
		}
		c.Count("patterns_with_set_matches", 1)
		for _, s := range strs {
			if inSet[s] != ref.MatchString(s) {
				c.Violatef("setmatches-mismatch", "pattern %q: SetMatches()=%q but reference match(%q)=%v", pat, trunc(set), s, ref.MatchString(s))
				break
			}
		}
	}
	matched, unmatched := 0, 0
	for _, s := range strs {
		want := ref.MatchString(s)
		if want {
			matched++
		} else {
			unmatched++
		}
		if got := fm.MatchString(s); got != want {
			c.Violatef("match-mismatch", "pattern %q string %q: FastRegexMatcher=%v reference=%v", pat, s, got, want)
			break
		}
		if got := mEq.Matches(s); got != want {
			c.Violatef("match-mismatch", "pattern %q string %q: Matcher(=~)=%v reference=%v", pat, s, got, want)
			break
		}
		if got := mNe.Matches(s); got != !want {
			c.Violatef("match-mismatch", "pattern %q string %q: Matcher(!~)=%v reference=%v", pat, s, got, !want)
			break
		}
	}
	c.Count("pairs_compared", int64(len(strs)))
	c.Count("pairs_matching", int64(matched))
	if fm.IsOptimized() {
		c.Count("patterns_optimized", 1)
	}
	c.Seen("top_node_kind", ast.kind)
	if fm.IsOptimized() && matched > 0 && unmatched > 0 {
		c.Nontrivial(pat)
	}
	if c.Idx < 3 {
		c.Sample(map[string]any{"pattern": trunc([]string{pat})[0], "strings": trunc(strs[:min(8, len(strs))]), "matched": matched, "unmatched": unmatched, "set_matches": len(set)})
	}
}

func trunc(ss []string) []string {
	out := make([]string, 0, len(ss))
	for i, s := range ss {
		if i >= 12 {
			out = append(out, "…")
			break
		}
		if len(s) > 200 {
			s = s[:200] + "…"
		}
		out = append(out, s)
	}
	return out
}
