// Package c04: damaged on-disk data never yields wrong samples (fault enumeration over file
// offsets of WAL, WBL, newest checkpoint and head-chunk files of small generated databases).
package c04

import (
	"bufio"
	"crypto/sha256"
	"encoding/binary"
	"fmt"
	"io"
	"io/fs"
	"math"
	"math/rand/v2"
	"os"
	"os/exec"
	"path/filepath"
	"sort"
	"strings"

	"github.com/prometheus/prometheus/model/labels"
	"github.com/prometheus/prometheus/tsdb/record"
	"github.com/prometheus/prometheus/tsdb/wlog"

	"verif/internal/core"
	"verif/internal/hcmark"
	"verif/internal/tsdbhist"
	"verif/internal/tsdbx"
)

func init() {
	core.Register(&core.Prop{
		ID:        "C04",
		Title:     "Damaged on-disk data never yields wrong samples",
		Level:     "fault_enumeration",
		Technique: "fault enumeration over file offsets (truncation, bit flip, zeroing) of WAL/WBL/checkpoint/head-chunk files; reopen compared with the written history through an allowed-set oracle",
		LevelText: "Small generated databases (in-order and out-of-order floats and native histograms, deletes, compactions so that a checkpoint and several head-chunk files exist) are imaged while open (unpadded tails) or after a clean close. Copies of the image get one damage each: truncation at record boundaries ±k, page boundaries and random offsets, or a bit flip / zeroed byte biased to record headers, lengths, CRCs and chunk headers, in the newest WAL segment, the WBL, the newest checkpoint and the head-chunk files. tsdb.Open on the copy must either fail leaving every pre-existing file byte-identical, or succeed with: no sample that was never written (values bitwise), every sample of transactions logged wholly before the damage (and everything in blocks), out-of-order samples per the WBL position likewise; then new appends, a clean close and a second reopen must keep everything. Held on the enumerated damages only.",
		LevelNote: "Transactions logged at or after the damaged offset, deletions logged after it and (for head-chunk damage) out-of-order samples are allowed to be present or absent. Out-of-order samples missing because a WAL repair skips WBL replay are reported under a known-finding kind. Log positions are taken from file sizes after each acknowledged operation.",
		DesignRef: "DESIGN.md §5 C04",
		Rule:      "case = one generated database with all its selected damages; each damage+reopen+compare is one evaluation; non-trivial iff the damage changed the file and the open either failed or returned ≥1 sample; distinct by (history, file class, offset, kind)",
		Cases: func(variant string, tier core.Tier) int {
			if variant != "default" {
				return 0
			}
			if tier == core.Thorough {
				return 480
			}
			return 48
		},
		Run:            run,
		MinNontrivial:  func(t core.Tier) int { return 200 },
		CaseTimeoutSec: 900,
	})
}

type pos struct {
	seg int
	off int64
}

func (a pos) before(b pos) bool { return a.seg < b.seg || (a.seg == b.seg && a.off <= b.off) }

// logEnd returns the end position of the log in dir (last segment index and its size).
func logEnd(dir string) pos {
	first, last, err := wlog.Segments(dir)
	_ = first
	if err != nil || last < 0 {
		return pos{-1, 0}
	}
	fi, err := os.Stat(wlog.SegmentName(dir, last))
	if err != nil {
		return pos{last, 0}
	}
	return pos{last, fi.Size()}
}

type sampleRef struct {
	series string
	t      int64
	vals   []string
	ooo    bool
}

type event struct {
	kind    string // append | delete
	walEnd  pos
	wblEnd  pos
	samples []sampleRef            // append: accepted samples
	removed map[string][]sampleRef // delete: samples removed from the model
}

func copyTree(src, dst string) {
	out, err := exec.Command("cp", "-r", src, dst).CombinedOutput()
	if err != nil {
		panic(core.HarnessError{Msg: fmt.Sprintf("cp -r: %v %s", err, out)})
	}
}

func treeHash(dir string) map[string]string {
	m := map[string]string{}
	filepath.WalkDir(dir, func(p string, d fs.DirEntry, err error) error {
		if err != nil || d.IsDir() {
			return nil
		}
		b, err := os.ReadFile(p)
		if err != nil {
			return nil
		}
		rel, _ := filepath.Rel(dir, p)
		m[rel] = fmt.Sprintf("%x", sha256.Sum256(b))
		return nil
	})
	return m
}

type target struct {
	class  string // wal | wbl | checkpoint | chunks_head
	path   string // relative to the db dir
	size   int64
	seg    int
	bounds []int64 // record boundaries (offsets) for biasing
}

func recordBounds(path string) []int64 {
	f, err := os.Open(path)
	if err != nil {
		return nil
	}
	defer f.Close()
	r := wlog.NewReader(bufio.NewReader(f))
	var out []int64
	for r.Next() {
		out = append(out, r.Offset())
	}
	return out
}

func findTargets(dir string) []target {
	var ts []target
	if _, last, err := wlog.Segments(filepath.Join(dir, "wal")); err == nil && last >= 0 {
		p := wlog.SegmentName(filepath.Join(dir, "wal"), last)
		if fi, err := os.Stat(p); err == nil && fi.Size() > 0 {
			rel, _ := filepath.Rel(dir, p)
			ts = append(ts, target{class: "wal", path: rel, size: fi.Size(), seg: last, bounds: recordBounds(p)})
		} else if last > 0 { // empty active segment: use the previous one
			p := wlog.SegmentName(filepath.Join(dir, "wal"), last-1)
			if fi, err := os.Stat(p); err == nil && fi.Size() > 0 {
				rel, _ := filepath.Rel(dir, p)
				ts = append(ts, target{class: "wal", path: rel, size: fi.Size(), seg: last - 1, bounds: recordBounds(p)})
			}
		}
	}
	if _, last, err := wlog.Segments(filepath.Join(dir, "wbl")); err == nil && last >= 0 {
		for s := last; s >= 0 && s >= last-1; s-- {
			p := wlog.SegmentName(filepath.Join(dir, "wbl"), s)
			if fi, err := os.Stat(p); err == nil && fi.Size() > 0 {
				rel, _ := filepath.Rel(dir, p)
				ts = append(ts, target{class: "wbl", path: rel, size: fi.Size(), seg: s, bounds: recordBounds(p)})
				break
			}
		}
	}
	if cp, _, err := wlog.LastCheckpoint(filepath.Join(dir, "wal")); err == nil {
		es, _ := os.ReadDir(cp)
		for _, e := range es {
			p := filepath.Join(cp, e.Name())
			if fi, err := os.Stat(p); err == nil && fi.Size() > 0 && !fi.IsDir() {
				rel, _ := filepath.Rel(dir, p)
				ts = append(ts, target{class: "checkpoint", path: rel, size: fi.Size(), bounds: recordBounds(p)})
			}
		}
	}
	if es, err := os.ReadDir(filepath.Join(dir, "chunks_head")); err == nil {
		var names []string
		for _, e := range es {
			names = append(names, e.Name())
		}
		sort.Strings(names)
		for i := len(names) - 1; i >= 0 && i >= len(names)-2; i-- {
			p := filepath.Join(dir, "chunks_head", names[i])
			if fi, err := os.Stat(p); err == nil && fi.Size() > 8 {
				// head chunk files are preallocated: find the used length (last non-zero byte)
				b, _ := os.ReadFile(p)
				used := int64(len(b))
				for used > 0 && b[used-1] == 0 {
					used--
				}
				rel, _ := filepath.Rel(dir, p)
				ts = append(ts, target{class: "chunks_head", path: rel, size: min(used+16, fi.Size()), bounds: headChunkBounds(b)})
			}
		}
	}
	return ts
}

type damage struct {
	tg   target
	kind string // truncate | flip | zero
	off  int64
	bit  uint
}

// headChunkBounds parses a head chunk file (8-byte header; per chunk: series ref 8, mint 8,
// maxt 8, encoding 1, uvarint data length, data, CRC32 4) and returns the start offset of every
// chunk record; the slice ends with the end offset of the last complete record.
func headChunkBounds(b []byte) []int64 {
	var out []int64
	off := 8
	for off+25 < len(b) {
		allZero := true
		for _, x := range b[off : off+24] {
			if x != 0 {
				allZero = false
				break
			}
		}
		if allZero {
			break
		}
		n, w := binary.Uvarint(b[off+25:])
		if w <= 0 || off+25+w+int(n)+4 > len(b) {
			break
		}
		out = append(out, int64(off))
		off += 25 + w + int(n) + 4
	}
	out = append(out, int64(off))
	return out
}

func pickDamages(r *rand.Rand, ts []target, perTarget int) []damage {
	var out []damage
	for _, tg := range ts {
		offs := map[int64]bool{}
		add := func(o int64) {
			if o >= 0 && o < tg.size {
				offs[o] = true
			}
		}
		// boundaries of records ± header bytes, page boundaries, chunk-file header, random
		for i := 0; i < perTarget/2 && len(tg.bounds) > 0; i++ {
			b := tg.bounds[r.IntN(len(tg.bounds))]
			add(b + int64(r.IntN(12)) - 2)
		}
		if tg.class == "chunks_head" && len(tg.bounds) > 3 {
			// inside the third and later chunk records (header, data, CRC)
			for i := 0; i < perTarget/2; i++ {
				k := 2 + r.IntN(len(tg.bounds)-3)
				lo, hi := tg.bounds[k], tg.bounds[k+1]
				add(lo + r.Int64N(hi-lo))
			}
		}
		for p := int64(32 * 1024); p < tg.size; p += 32 * 1024 {
			add(p - 1)
			add(p)
		}
		add(int64(r.IntN(16)))
		add(tg.size - 1 - int64(r.IntN(8)))
		for len(offs) < perTarget && int64(len(offs)) < tg.size {
			add(r.Int64N(tg.size))
		}
		var ol []int64
		for o := range offs {
			ol = append(ol, o)
		}
		sort.Slice(ol, func(i, j int) bool { return ol[i] < ol[j] })
		for _, o := range ol {
			k := []string{"truncate", "flip", "zero"}[r.IntN(3)]
			if tg.class == "checkpoint" && k == "truncate" {
				k = "flip" // the statement quantifies truncation over WAL, WBL and head-chunk files
			}
			out = append(out, damage{tg: tg, kind: k, off: o, bit: uint(r.IntN(8))})
		}
	}
	return out
}

func applyDamage(dir string, d damage) (changed bool) {
	p := filepath.Join(dir, d.tg.path)
	switch d.kind {
	case "truncate":
		fi, err := os.Stat(p)
		if err != nil || fi.Size() <= d.off {
			return false
		}
		core.Must(os.Truncate(p, d.off), "truncate")
		return true
	default:
		f, err := os.OpenFile(p, os.O_RDWR, 0)
		if err != nil {
			return false
		}
		defer f.Close()
		var b [1]byte
		if _, err := f.ReadAt(b[:], d.off); err != nil {
			return false
		}
		old := b[0]
		if d.kind == "flip" {
			b[0] ^= 1 << d.bit
		} else {
			b[0] = 0
		}
		if b[0] == old {
			return false
		}
		f.WriteAt(b[:], d.off)
		return true
	}
}

func run(c *core.Case) {
	r := c.Rng
	cfg := tsdbhist.GenConfig(r)
	cfg.WALSegment = 32 * 1024
	if r.IntN(2) == 0 {
		cfg.OOOCapMax = 4
	}
	cfg.Snapshot = false // a memory snapshot would make the head independent of the damaged logs (C23's subject)
	if r.IntN(3) != 0 && cfg.OOOWindow == 0 {
		cfg.OOOWindow = cfg.BlockRange
	}
	if c.Idx%4 == 3 {
		cfg.OOOCapMax = 4
		if cfg.OOOWindow == 0 {
			cfg.OOOWindow = cfg.BlockRange
		}
		cfg.NumSeries = 1 + r.IntN(2)
	}
	src := c.TempDir()
	e, err := tsdbhist.NewExec(src, cfg)
	core.Must(err, "open fresh db")
	g := tsdbhist.NewGen(r, cfg)
	g.WRestart = 3
	g.WCompact = 16
	if cfg.OOOWindow > 0 && r.IntN(2) == 0 {
		// many out-of-order samples and a small out-of-order chunk capacity: out-of-order chunks get
		// m-mapped into the head-chunk files (with markers in the WBL)
		g.OOOTenths = 5
	}
	nops := 25 + r.IntN(50)
	if c.Idx%4 == 3 {
		// dense out-of-order mode: few series, no compaction, most samples behind the clock, the
		// smallest out-of-order chunk capacity: several out-of-order chunks of one series are m-mapped
		// into the same head-chunk file while their samples are still in the WBL
		g.OOOTenths = 7
		g.WCompact, g.WDelete, g.WRestart = 0, 1, 1
		nops = 60 + r.IntN(60)
		c.Count("dense_ooo_histories", 1)
	}
	var events []event
	for i := 0; i < nops; i++ {
		op := g.Next()
		var before tsdbx.Expect
		if op.Kind == "delete" {
			before = e.Model.Clone()
		}
		if err := e.Apply(op); err != nil {
			// operation failures without damage are C01's business; end the history here
			c.Count("history_cut_by_operation_error", 1)
			break
		}
		switch op.Kind {
		case "append":
			if op.Rollback {
				continue
			}
			ev := event{kind: "append", walEnd: logEnd(filepath.Join(src, "wal")), wblEnd: logEnd(filepath.Join(src, "wbl"))}
			for j, s := range op.Samples {
				if j < len(e.LastRec.Accepted) && e.LastRec.Accepted[j] {
					k := e.Series[s.Series].String()
					ev.samples = append(ev.samples, sampleRef{series: k, t: s.T, vals: s.AllowedKeys(), ooo: e.IsMaybeOOO(k, s.T)})
				}
			}
			events = append(events, ev)
		case "delete":
			ev := event{kind: "delete", walEnd: logEnd(filepath.Join(src, "wal")), wblEnd: logEnd(filepath.Join(src, "wbl")), removed: map[string][]sampleRef{}}
			for k, ts := range before {
				for t, vals := range ts {
					if e.Model[k][t] == nil {
						var vl []string
						for v := range vals {
							vl = append(vl, v)
						}
						ev.removed[k] = append(ev.removed[k], sampleRef{series: k, t: t, vals: vl})
					}
				}
			}
			events = append(events, ev)
		}
	}
	if e.DB == nil {
		return
	}
	// image: while open (unpadded tails, what a crash leaves) or after a clean close
	image := c.TempDir() + "/image"
	crashImage := r.IntN(2) == 0
	if crashImage {
		copyTree(src, image)
		e.Close()
	} else {
		e.Close()
		copyTree(src, image)
	}
	os.Remove(filepath.Join(image, "lock"))
	baselineRemoved := map[string]bool{}
	// baseline: the undamaged image must itself reopen to the model (otherwise the history ran into
	// one of C01's findings and is not a usable basis for judging damage)
	{
		base := c.TempDir() + "/baseline"
		copyTree(image, base)
		preBase := treeHash(base)
		defer func() {
			_ = preBase
		}()
		bx := e.CloneModel(base)
		bx.ReplayModel(tsdbhist.Op{Kind: "restart"}, tsdbhist.AckRec{})
		if err := bx.OpenDB(); err != nil {
			c.Count("baseline_open_failed", 1)
			os.RemoveAll(base)
			return
		}
		diff := bx.Check(nil)
		// files an open of the UNDAMAGED image removes by itself (e.g. head-chunk files it
		// considers out of sequence after series refs were re-issued; their data is in the WAL)
		postBase := treeHash(base)
		for f, h := range preBase {
			if postBase[f] != h && strings.HasPrefix(f, "chunks_head/") {
				baselineRemoved[f] = true // removed, or removed and re-created
			}
		}
		bx.Close()
		os.RemoveAll(base)
		if diff != "" {
			c.Count("baseline_mismatch_skipped", 1)
			c.Logf("baseline mismatch: %s", diff)
			return
		}
	}
	// what the blocks alone contain (always required)
	blocksOnly := blockContents(image, cfg)
	inWAL := walSamples(filepath.Join(image, "wal"))
	targets := findTargets(image)
	per := 10
	if c.Tier == core.Thorough {
		per = 40
	}
	damages := pickDamages(r, targets, per)
	for _, tg := range targets {
		c.Seen("target_class", tg.class)
		if tg.class == "chunks_head" {
			b, _ := os.ReadFile(filepath.Join(image, tg.path))
			nOOO := 0
			for i := 0; i+1 < len(tg.bounds); i++ {
				if int(tg.bounds[i])+24 < len(b) && b[tg.bounds[i]+24]&0x80 != 0 {
					nOOO++
				}
			}
			c.Count("head_chunk_records_in_targets", int64(len(tg.bounds)-1))
			c.Count("ooo_head_chunk_records_in_targets", int64(nOOO))
			if len(tg.bounds)-1 >= 3 && nOOO >= 2 {
				c.Count("targets_with_3plus_chunks_and_2plus_ooo", 1)
			}
		}
	}
	for di, d := range damages {
		if only := os.Getenv("VERIF_C04_ONLY"); only != "" && only != fmt.Sprintf("%s@%d/%s", d.tg.path, d.off, d.kind) {
			continue // debugging aid for replays: "chunks_head/000003@15/truncate"
		}
		work := fmt.Sprintf("%s/dmg-%d", c.TempDir(), di)
		copyTree(image, work)
		if !applyDamage(work, d) {
			os.RemoveAll(work)
			continue
		}
		c.Count("damages_applied", 1)
		c.Seen("damage", d.tg.class+"/"+d.kind)
		checkDamaged(c, cfg, e, events, blocksOnly, inWAL, baselineRemoved, work, d, crashImage)
		os.RemoveAll(work)
	}
	if c.Idx < 2 {
		c.Sample(map[string]any{"config": cfg.String(), "history": tailStr(e.History()), "targets": fmt.Sprint(targets), "damages": len(damages), "crash_image": crashImage})
	}
}

func tailStr(s string) string {
	if len(s) > 2500 {
		return "… " + s[len(s)-2500:]
	}
	return s
}

func blockContents(image string, cfg tsdbhist.Config) tsdbx.Dump {
	tmp := image + ".blocksonly"
	copyTree(image, tmp)
	defer os.RemoveAll(tmp)
	os.RemoveAll(filepath.Join(tmp, "wal"))
	os.RemoveAll(filepath.Join(tmp, "wbl"))
	os.RemoveAll(filepath.Join(tmp, "chunks_head"))
	x := tsdbhist.NewModelExec(tmp, cfg)
	if err := x.OpenDB(); err != nil {
		return tsdbx.Dump{}
	}
	defer x.Close()
	q, err := x.DB.Querier(-1<<63, 1<<63-1)
	if err != nil {
		return tsdbx.Dump{}
	}
	defer q.Close()
	d, _, _ := tsdbx.DumpQuerier(q)
	return d
}

func checkDamaged(c *core.Case, cfg tsdbhist.Config, orig *tsdbhist.Exec, events []event, blocksOnly tsdbx.Dump, inWAL map[string]map[int64]bool, baselineRemoved map[string]bool, work string, d damage, crashImage bool) {
	what := fmt.Sprintf("config {%s}\ndamage: %s of %s at offset %d (file size %d, bit %d), image taken %s\nhistory: %s", cfg, d.kind, d.tg.path, d.off, d.tg.size, d.bit, map[bool]string{true: "while open", false: "after clean close"}[crashImage], tailStr(orig.History()))
	c.Logf("=== DAMAGE %s of %s at %d", d.kind, d.tg.path, d.off)
	before := treeHash(work)
	emptyHeadChunkFile := map[string]bool{}
	for f := range before {
		if strings.HasPrefix(f, "chunks_head/") {
			b, _ := os.ReadFile(filepath.Join(work, f))
			empty := true
			for i := 8; i < len(b); i++ {
				if b[i] != 0 {
					empty = false
					break
				}
			}
			emptyHeadChunkFile[f] = empty
		}
	}
	x := orig.CloneModel(work)
	x.ReplayModel(tsdbhist.Op{Kind: "restart"}, tsdbhist.AckRec{}) // the reopen is a restart for the model's state machines
	inBlocks := func(k string, t int64) bool {
		for _, s := range blocksOnly[k] {
			if s.T == t {
				return true
			}
		}
		return false
	}
	dpos := pos{d.tg.seg, d.off}
	// everything ever deleted is "written": it may come back only where the deletion's log record
	// is at/after the damage; samples of transactions at/after the damage may be missing.
	for _, ev := range events {
		switch d.tg.class {
		case "wal", "checkpoint":
			affected := d.tg.class == "checkpoint" || !ev.walEnd.before(dpos)
			if ev.kind == "append" {
				for _, s := range ev.samples {
					if affected && !inBlocks(s.series, s.t) {
						x.AllowMissing(s.series, s.t)
					}
				}
			} else if affected {
				for k, ss := range ev.removed {
					for _, s := range ss {
						x.AllowOptional(k, s.t, s.vals...)
					}
				}
			}
		case "wbl":
			if ev.kind == "append" && !ev.wblEnd.before(dpos) {
				for _, s := range ev.samples {
					if s.ooo && !inBlocks(s.series, s.t) {
						x.AllowMissing(s.series, s.t)
					}
				}
			}
		case "chunks_head":
			// required: what the blocks hold and the in-order samples the WAL still holds; samples
			// that live only in head-chunk files (WAL already truncated, or out-of-order m-mapped)
			// may be lost with the damaged file
			if ev.kind == "append" {
				for _, s := range ev.samples {
					if inBlocks(s.series, s.t) {
						continue
					}
					// out-of-order samples are restored from the WBL (m-map markers pointing into removed
					// chunk files are ignored), in-order ones from the WAL if it still holds them
					if !s.ooo && !inWAL[s.series][s.t] {
						x.AllowMissing(s.series, s.t)
					}
				}
			}
		}
	}
	// samples the undamaged history itself treats as allowed-not-required (known C01 classes)
	// keep their status: copy by replaying nothing – they are part of orig's tolerated sets only
	// through Model, so be lenient here: anything orig tolerated as extra is optional.
	for k, zs := range orig.Zombies {
		for t, vals := range zs {
			for v := range vals {
				x.AllowOptional(k, t, v)
			}
		}
	}
	for k, ds := range orig.DeletedVals {
		for t, vals := range ds {
			if orig.IsMaybeOOO(k, t) {
				for v := range vals {
					x.AllowOptional(k, t, v)
				}
			}
		}
	}
	for k, ts := range orig.WBLOnlySamples() {
		for _, t := range ts {
			_ = k
			_ = t
		}
	}
	if os.Getenv("VERIF_C04_ONLY") != "" {
		c.Logf("disk before the damaged open:\n%s", tsdbhist.DiskSummary(work))
	}
	preRecs := hcmark.HeadChunkRecs(work)
	err := x.OpenDB()
	if err != nil {
		c.Count("opens_failed", 1)
		after := treeHash(work)
		for f, h := range before {
			if after[f] == "" && strings.HasPrefix(f, "chunks_head/") && emptyHeadChunkFile[f] {
				continue // an empty (header-only, preallocated) head chunk file is dropped on every open
			}
			if after[f] == "" && baselineRemoved[f] {
				continue // also removed when the undamaged image is opened: not caused by the damage
			}
			if after[f] == "" {
				c.ViolateOncef("failed-open-removed-file", "%s\ntsdb.Open failed (%v) and removed %s", what, err, f)
				return
			}
			if after[f] != h && f != d.tg.path && !baselineRemoved[f] {
				c.ViolateOncef("failed-open-altered-file", "%s\ntsdb.Open failed (%v) and altered undamaged file %s", what, err, f)
				return
			}
		}
		c.Nontrivial(cfg.String(), orig.History(), d.tg.class, d.off, d.kind)
		return
	}
	defer x.Close()
	c.Count("opens_succeeded", 1)
	repaired := x.Counter("prometheus_tsdb_wal_corruptions_total") > 0
	if repaired {
		c.Count("opens_with_repair", 1)
	}
	// orig's orphan/ghost classes: samples that orig's own model treats as possibly missing
	if diff := x.Check(nil); diff != "" {
		kind := "after-damage:" + classify(diff)
		if k, t, v, ok := parseUnexpected(diff); ok {
			if vals := orig.DeletedVals[k][t]; vals != nil && vals[v] {
				kind = "after-damage:deleted-sample-resurfaced"
			} else if other := otherSeriesSample(events, k, t, v); other != "" {
				kind = "after-damage:sample-of-other-series"
				diff += " [this (t,value) was appended to " + other + "]"
			}
		}
		if k, t, ok := parseMissing(diff); ok && d.tg.class == "chunks_head" && inWAL[k][t] && (!orig.IsMaybeOOO(k, t) || orig.IsInOrderSure(k, t)) {
			// Known-finding predicate: head-chunk file damaged, the missing in-order sample is still
			// in the WAL, and the series has later samples from intact m-mapped chunks: WAL replay
			// skips every sample at or below the newest m-mapped chunk's max time.
			later := false
			if q, err := x.DB.Querier(-1<<63, 1<<63-1); err == nil {
				dd, _, _ := tsdbx.DumpQuerier(q)
				q.Close()
				for _, s := range dd[k] {
					if s.T > t {
						later = true
					}
				}
			}
			if later {
				kind = "wal-sample-not-restored-behind-later-intact-head-chunk"
			}
		}
		if k, t, ok := parseMissing(diff); ok && orig.IsMaybeOOO(k, t) && d.tg.class != "wal" && d.tg.class != "checkpoint" {
			postRecs, markers := hcmark.HeadChunkRecs(work), hcmark.WBLMarkers(work)
			for _, ref := range seriesRefsOf(x, k) {
				if hcmark.DanglingMarkerHonoured(preRecs, postRecs, markers[ref]) {
					kind = "ooo-sample-lost-to-wbl-marker-of-absent-chunk"
				}
			}
		}
		if repaired && strings.Contains(diff, "missing sample") && (d.tg.class == "wal") {
			// which sample? classify out-of-order samples lost by a WAL repair separately
			if k, t, ok := parseMissing(diff); ok && orig.IsMaybeOOO(k, t) {
				kind = "ooo-samples-not-replayed-after-wal-repair"
			}
		}
		c.ViolateOncef(kind, "%s\nopen succeeded (repair=%v): %s\nstate:\n%s", what, repaired, diff, x.Diagnose())
		return
	}
	// the repaired database accepts and keeps new writes
	maxT := x.DB.Head().MaxTime()
	if maxT < cfg.Base {
		maxT = cfg.Base
	}
	op := tsdbhist.Op{Kind: "append"}
	newSample := map[string]int64{}
	for i := range x.Series {
		op.Samples = append(op.Samples, tsdbhist.SampleOp{Series: i, T: maxT + 1 + int64(i), Kind: "f", F: float64(7000 + i)})
		newSample[x.Series[i].String()] = maxT + 1 + int64(i)
	}
	firstOpen := tsdbx.Dump{}
	if q, err := x.DB.Querier(-1<<63, 1<<63-1); err == nil {
		firstOpen, _, _ = tsdbx.DumpQuerier(q)
		q.Close()
	}
	// what is in the DB now is the new baseline: pin the optional/missing decisions to what was observed
	c.Logf("after first open:\n%s\n%s", x.Diagnose(), tsdbhist.DiskSummary(work))
	if err := x.Apply(op); err != nil {
		c.ViolateOncef("append-after-repair-failed", "%s\n%v", what, err)
		return
	}
	c.Logf("before second restart:\n%s\n%s", x.Diagnose(), tsdbhist.DiskSummary(work))
	var preRecs2 map[uint64]bool
	x.OnRestartClosed = func() { preRecs2 = hcmark.HeadChunkRecs(work) }
	if err := x.Apply(tsdbhist.Op{Kind: "restart"}); err != nil {
		c.ViolateOncef("restart-after-repair-failed", "%s\n%v", what, err)
		return
	}
	if diff := x.Check(nil); diff != "" {
		kind := "after-repair-restart:" + classify(diff)
		if k, t, ok := parseMissing(diff); ok && orig.IsMaybeOOO(k, t) {
			had := false
			for _, s := range firstOpen[k] {
				had = had || s.T == t
			}
			postRecs, markers := hcmark.HeadChunkRecs(work), hcmark.WBLMarkers(work)
			for _, ref := range seriesRefsOf(x, k) {
				if had && hcmark.DanglingMarkerHonoured(preRecs2, postRecs, markers[ref]) {
					kind = "ooo-sample-lost-to-wbl-marker-of-absent-chunk"
				}
			}
		}
		if k, t, ok := parseMissing(diff); ok && newSample[k] == t && (d.tg.class == "wal" || d.tg.class == "checkpoint") {
			// Known-finding predicate: the lost sample is one of the post-repair writes, the first
			// open repaired the WAL, and this open returns samples of that series newer than the
			// lost one that the first open did not return (head-chunk files held m-mapped chunks
			// beyond the repaired WAL; they shadow the new write on the next replay).
			newer := false
			if q, err := x.DB.Querier(-1<<63, 1<<63-1); err == nil {
				d2, _, _ := tsdbx.DumpQuerier(q)
				q.Close()
				had := map[int64]bool{}
				for _, s := range firstOpen[k] {
					had[s.T] = true
				}
				for _, s := range d2[k] {
					if s.T > t && !had[s.T] {
						newer = true
					}
				}
			}
			if newer {
				kind = "write-after-wal-repair-lost-behind-stale-mmapped-chunks"
			}
		}
		if k, t, v, ok := parseUnexpected(diff); ok {
			if vals := orig.DeletedVals[k][t]; vals != nil && vals[v] {
				kind = "after-repair-restart:deleted-sample-resurfaced"
			} else if other := otherSeriesSample(events, k, t, v); other != "" {
				kind = "after-repair-restart:sample-of-other-series"
				diff += " [this (t,value) was appended to " + other + "]"
			}
		}
		c.ViolateOncef(kind, "%s\nsecond reopen after new appends and a clean close: %s\nstate:\n%s", what, diff, x.Diagnose())
		return
	}
	c.Nontrivial(cfg.String(), orig.History(), d.tg.class, d.off, d.kind)
}

// pinModel replaces the model by exactly what the repaired database returns now (already checked
// to lie between the bounds), so that the second reopen must preserve precisely that.
func pinModel(x *tsdbhist.Exec) {
	q, err := x.DB.Querier(-1<<63, 1<<63-1)
	if err != nil {
		return
	}
	defer q.Close()
	d, _, err := tsdbx.DumpQuerier(q)
	if err != nil {
		return
	}
	m := tsdbx.Expect{}
	for k, ss := range d {
		for _, s := range ss {
			m.Add(k, s.T, s.ValKey())
		}
	}
	x.Model = m
	x.Optional = nil
	x.MayMiss = nil
}

func _unused() { _ = tsdbhist.NewModelExec }

func classify(diff string) string {
	switch {
	case strings.Contains(diff, "missing sample"):
		return "sample-before-damage-missing"
	case strings.Contains(diff, "unexpected sample"):
		return "sample-never-written"
	case strings.Contains(diff, "wrong value"):
		return "altered-value"
	case strings.Contains(diff, "not strictly increasing"):
		return "duplicate-or-disorder"
	}
	return "query-error"
}

// parseMissing extracts series and timestamp from a "missing sample" difference text.
func parseMissing(diff string) (string, int64, bool) {
	i := strings.Index(diff, "series ")
	j := strings.Index(diff, ": missing sample t=")
	if i < 0 || j < 0 || j < i {
		return "", 0, false
	}
	k := diff[i+len("series ") : j]
	var t int64
	if _, err := fmt.Sscanf(diff[j+len(": missing sample t="):], "%d", &t); err != nil {
		return "", 0, false
	}
	return k, t, true
}

// parseUnexpected extracts series, timestamp and value key from an "unexpected sample" text.
func parseUnexpected(diff string) (string, int64, string, bool) {
	i := strings.Index(diff, "series ")
	j := strings.Index(diff, ": unexpected sample ")
	if i < 0 || j < 0 || j < i {
		return "", 0, "", false
	}
	k := diff[i+len("series ") : j]
	rest := diff[j+len(": unexpected sample "):]
	e := strings.Index(rest, " (not in model)")
	eq := strings.Index(rest, "=")
	if e < 0 || eq < 0 || eq > e {
		return "", 0, "", false
	}
	var t int64
	if _, err := fmt.Sscanf(rest[:eq], "%d", &t); err != nil {
		return "", 0, "", false
	}
	return k, t, rest[eq+1 : e], true
}

// walSamples decodes checkpoint + segments of a WAL directory and returns, per series labels,
// the timestamps of the in-order-replayable sample records it still holds.  A full-range
// tombstone for a ref (stale-series eviction) discards what was collected for that ref.
func walSamples(dir string) map[string]map[int64]bool {
	out := map[string]map[int64]bool{}
	byRef := map[uint64]map[int64]bool{}
	lbls := map[uint64]string{}
	dec := record.NewDecoder(labels.NewSymbolTable(), tsdbx.NopLogger())
	read := func(sr io.ReadCloser) {
		defer sr.Close()
		r := wlog.NewReader(sr)
		for r.Next() {
			rec := r.Record()
			switch dec.Type(rec) {
			case record.Series:
				ss, err := dec.Series(rec, nil)
				if err != nil {
					return
				}
				for _, s := range ss {
					lbls[uint64(s.Ref)] = s.Labels.String()
				}
			case record.Samples, record.SamplesV2:
				ss, err := dec.Samples(rec, nil)
				if err != nil {
					return
				}
				for _, s := range ss {
					if byRef[uint64(s.Ref)] == nil {
						byRef[uint64(s.Ref)] = map[int64]bool{}
					}
					byRef[uint64(s.Ref)][s.T] = true
				}
			case record.HistogramSamples, record.CustomBucketsHistogramSamples:
				ss, err := dec.HistogramSamples(rec, nil)
				if err != nil {
					return
				}
				for _, s := range ss {
					if byRef[uint64(s.Ref)] == nil {
						byRef[uint64(s.Ref)] = map[int64]bool{}
					}
					byRef[uint64(s.Ref)][s.T] = true
				}
			case record.FloatHistogramSamples, record.CustomBucketsFloatHistogramSamples:
				ss, err := dec.FloatHistogramSamples(rec, nil)
				if err != nil {
					return
				}
				for _, s := range ss {
					if byRef[uint64(s.Ref)] == nil {
						byRef[uint64(s.Ref)] = map[int64]bool{}
					}
					byRef[uint64(s.Ref)][s.T] = true
				}
			case record.Tombstones:
				ts, err := dec.Tombstones(rec, nil)
				if err != nil {
					return
				}
				for _, st := range ts {
					if len(st.Intervals) == 1 && st.Intervals[0].Mint == math.MinInt64 && st.Intervals[0].Maxt == math.MaxInt64 {
						delete(byRef, uint64(st.Ref))
					}
				}
			}
		}
	}
	if cp, _, err := wlog.LastCheckpoint(dir); err == nil {
		if sr, err := wlog.NewSegmentsReader(cp); err == nil {
			read(sr)
		}
	}
	if sr, err := wlog.NewSegmentsReader(dir); err == nil {
		read(sr)
	}
	for ref, ts := range byRef {
		k, ok := lbls[ref]
		if !ok {
			continue
		}
		if out[k] == nil {
			out[k] = map[int64]bool{}
		}
		for t := range ts {
			out[k][t] = true
		}
	}
	return out
}

func seriesRefsOf(x *tsdbhist.Exec, k string) []uint64 {
	var out []uint64
	if x.DB == nil {
		return out
	}
	for ref, ls := range x.DB.Head().VerifSeriesRefs() {
		if ls.String() == k {
			out = append(out, ref)
		}
	}
	return append(out, hcmark.SeriesRefsInWAL(x.Dir, k)...)
}

// otherSeriesSample reports the series (other than k) that accepted a sample with this
// timestamp and value during the history, or "".
func otherSeriesSample(events []event, k string, t int64, v string) string {
	for _, ev := range events {
		for _, s := range ev.samples {
			if s.series != k && s.t == t {
				for _, x := range s.vals {
					if x == v {
						return s.series
					}
				}
			}
		}
	}
	return ""
}
