// Package c42: remote read (SAMPLES and STREAMED_XOR_CHUNKS, through the real handler and the
// real client-side decoders) returns the same series and samples as a local query.
package c42

import (
	"context"
	"fmt"
	"math"
	"math/rand/v2"
	"net/http/httptest"
	"net/url"
	"sort"
	"strings"
	"time"

	config_util "github.com/prometheus/common/config"
	"github.com/prometheus/common/model"

	"github.com/prometheus/prometheus/config"
	"github.com/prometheus/prometheus/model/histogram"
	"github.com/prometheus/prometheus/model/labels"
	"github.com/prometheus/prometheus/prompb"
	"github.com/prometheus/prometheus/storage"
	"github.com/prometheus/prometheus/storage/remote"
	"github.com/prometheus/prometheus/tsdb"
	"github.com/prometheus/prometheus/tsdb/chunkenc"

	"verif/internal/core"
	"verif/internal/gen"
	"verif/internal/tsdbx"
)

// kindSplit is the narrow class of the one expected finding: the streamed response legally
// splits a series over several frames, the client-side series set hands every frame out as a
// series of its own.  Predicate computed on the witness: response type streamed, the only
// difference to the local result is that label sets repeat CONSECUTIVELY and the concatenation
// of the repeated entries equals the local series exactly.
const kindSplit = "streamed-series-split-over-frames-returned-as-several-series"

// kindNegZero: second expected finding.  Predicate: SAMPLES response, the only differences to the
// local result are float samples whose local value is -0 (bits 0x8000000000000000) and whose
// remote value is +0 (gogo-proto omits a double field when `v != 0` is false, which is also
// true for -0).
const kindNegZero = "negative-zero-float-returned-as-positive-zero-in-sampled-response"

func init() {
	core.Register(&core.Prop{
		ID:        "C42",
		Title:     "Remote read returns the same data as a local query",
		Level:     "exploration",
		Technique: "differential runtime monitor: remote.NewReadHandler over HTTP + remote.NewReadClient/NewSampleAndChunkQueryableClient vs. the local tsdb Querier on the same DB",
		LevelText: "Per case a real tsdb.DB is filled with 2-8 generated series (floats incl. NaN payloads/stale markers, integer, float and custom-bucket native histograms, mixed series; small SamplesPerChunk so every series has many chunks) spread over one persisted block and the head. 6 (quick) / 10 (thorough) generated queries (1-3 matchers of all four types, time ranges cutting through chunks, point ranges, empty ranges, the all-time range, optional select hints) are answered (a) by the local Querier and (b) through remote.NewReadHandler behind an httptest server, read by remote.NewReadClient wrapped in NewSampleAndChunkQueryableClient (Querier and ChunkQuerier side), with response type SAMPLES or STREAMED_XOR_CHUNKS, maxBytesInFrame 64 B..1 MiB, server external labels, client external labels (equal, differing, extra), user matchers on external labels (equality only) and required matchers. Oracle: the remote series set must be exactly the local one (label sets = stored labels + server external labels where absent, minus the client-added external labels), every series with exactly the local samples in [mint,maxt] (timestamps, bitwise float values, canonical histogram keys, gauge flag); Seek(t)+drain on a fresh iterator must give the samples with timestamp >= t. Held on the observed queries only.",
		LevelNote: "Trusted: the local tsdb Querier as the reference for the stored data (its own correctness is C01/C16). Reductions: external-label semantics are only exercised where they are unambiguous (stored series never carry the external label names except one collision class without matchers on that name; matchers on external label names are equalities only); required matchers that are not all present make the expected result empty (documented semantics); series order is not compared; counter-reset hints other than the gauge flag are not compared (positional by design, C12); read_recent=false / ReadMultiple / sample limit are not driven. Two mechanisms fire on the unchanged tree and are reported under their own narrow kinds (FINDINGS.txt): a series that the streamed path hands out as several consecutive entries with the same label set (compared by the concatenation of the entries), and float samples stored as -0 that the SAMPLES response returns as +0 (all other values bitwise).",
		DesignRef: "DESIGN.md §5 C42",
		Rule:      "case = one generated DB + 6/10 queries with generated client/server configuration; a query is non-trivial iff the local result holds at least one sample and the remote answer was compared with it; distinct by (case, query index, query rendering)",
		Cases: func(variant string, tier core.Tier) int {
			if variant != "default" {
				return 0
			}
			if tier == core.Thorough {
				return 6000
			}
			return 300
		},
		Run:            run,
		MinNontrivial:  func(t core.Tier) int { return 400 },
		CaseTimeoutSec: 300,
	})
}

// ---------------------------------------------------------------- data

type seriesData struct {
	ls      labels.Labels
	kind    string
	samples []tsdbx.Sample
}

func genValue(r *rand.Rand, kind string, prev **gen.AbsHist) (tsdbx.Sample, bool) {
	k := kind
	if kind == "mixed" {
		k = []string{"float", "int", "floathist"}[r.IntN(3)]
	}
	switch k {
	case "float":
		return tsdbx.Sample{Kind: "f", F: gen.Float(r, true)}, true
	default:
		if gen.Chance(r, 25) {
			if k == "int" {
				return tsdbx.Sample{Kind: "h", H: gen.StaleHist()}, true
			}
			return tsdbx.Sample{Kind: "fh", FH: gen.StaleFloatHist()}, true
		}
		if *prev == nil || gen.Chance(r, 12) {
			*prev = gen.NewAbsHist(r, true)
		} else {
			*prev = (*prev).Mutate(r)
		}
		if k == "int" {
			h := (*prev).Int(r)
			if h.Validate() != nil {
				return tsdbx.Sample{}, false
			}
			return tsdbx.Sample{Kind: "h", H: h}, true
		}
		fh := (*prev).Float(r)
		if fh.Validate() != nil {
			return tsdbx.Sample{}, false
		}
		return tsdbx.Sample{Kind: "fh", FH: fh}, true
	}
}

func appendAll(db *tsdb.DB, r *rand.Rand, ser []*seriesData, ts []int64, present [][]bool, from, to int) error {
	app := db.Appender(context.Background())
	n := 0
	batch := 1 + r.IntN(80)
	for i := from; i < to; i++ {
		for si, sd := range ser {
			if !present[si][i] {
				continue
			}
			// find the sample with this timestamp
			idx := sort.Search(len(sd.samples), func(j int) bool { return sd.samples[j].T >= ts[i] })
			if idx >= len(sd.samples) || sd.samples[idx].T != ts[i] {
				continue
			}
			s := sd.samples[idx]
			var err error
			switch s.Kind {
			case "f":
				_, err = app.Append(0, sd.ls, s.T, s.F)
			case "h":
				_, err = app.AppendHistogram(0, sd.ls, s.T, s.H.Copy(), nil)
			case "fh":
				_, err = app.AppendHistogram(0, sd.ls, s.T, nil, s.FH.Copy())
			}
			if err != nil {
				return fmt.Errorf("append %s t=%d kind=%s: %w", sd.ls, s.T, s.Kind, err)
			}
			n++
		}
		if n >= batch {
			if err := app.Commit(); err != nil {
				return err
			}
			app = db.Appender(context.Background())
			n = 0
			batch = 1 + r.IntN(80)
		}
	}
	return app.Commit()
}

// ---------------------------------------------------------------- observation

type entry struct {
	key     string
	ls      labels.Labels
	samples []tsdbx.Sample
}

func isGauge(s tsdbx.Sample) bool {
	switch s.Kind {
	case "h":
		return s.H.CounterResetHint == histogram.GaugeType
	case "fh":
		return s.FH.CounterResetHint == histogram.GaugeType
	}
	return false
}

// drainSet reads a sample series set into a list (order and repetitions preserved).
func drainSet(ss storage.SeriesSet) ([]entry, error) {
	var out []entry
	for ss.Next() {
		s := ss.At()
		smp, err := tsdbx.IterSamples(s.Iterator(nil))
		if err != nil {
			return out, fmt.Errorf("series %s: %w", s.Labels(), err)
		}
		out = append(out, entry{key: s.Labels().String(), ls: s.Labels(), samples: smp})
	}
	return out, ss.Err()
}

func drainChunkSet(ss storage.ChunkSeriesSet, mint, maxt int64) ([]entry, error) {
	var out []entry
	for ss.Next() {
		s := ss.At()
		e := entry{key: s.Labels().String()}
		it := s.Iterator(nil)
		for it.Next() {
			m := it.At()
			if m.Chunk == nil {
				return out, fmt.Errorf("series %s: nil chunk", e.key)
			}
			smp, err := tsdbx.IterSamples(m.Chunk.Iterator(nil))
			if err != nil {
				return out, fmt.Errorf("series %s: %w", e.key, err)
			}
			for _, x := range smp {
				if x.T >= mint && x.T <= maxt { // chunk queriers may hand out whole chunks
					e.samples = append(e.samples, x)
				}
			}
		}
		if err := it.Err(); err != nil {
			return out, fmt.Errorf("series %s: %w", e.key, err)
		}
		out = append(out, e)
	}
	return out, ss.Err()
}

func tsList(s []tsdbx.Sample) []int64 {
	out := make([]int64, len(s))
	for i, x := range s {
		out[i] = x.T
	}
	if len(out) > 40 {
		out = append(out[:40:40], -1)
	}
	return out
}

// ---------------------------------------------------------------- query generation

type querySpec struct {
	mint, maxt int64
	user       []*labels.Matcher // as given to Select
	hints      *storage.SelectHints
	srvExt     map[string]string
	cliExt     map[string]string
	required   []*labels.Matcher
	respType   string // "samples" | "streamed"
	frame      int
	chunkSide  bool // read through ChunkQuerier of the client queryable
	sorted     bool
}

func (q querySpec) String() string {
	var ms []string
	for _, m := range q.user {
		ms = append(ms, m.String())
	}
	var rq []string
	for _, m := range q.required {
		rq = append(rq, m.String())
	}
	return fmt.Sprintf("range=[%d,%d] matchers={%s} hints=%v srvExt=%v cliExt=%v required={%s} resp=%s frame=%d chunkSide=%v sorted=%v",
		q.mint, q.maxt, strings.Join(ms, ","), q.hints != nil, q.srvExt, q.cliExt, strings.Join(rq, ","), q.respType, q.frame, q.chunkSide, q.sorted)
}

var extPool = [][2]string{{"ext_region", "eu"}, {"ext_replica", "r\"1"}, {"zz_ext", "日本"}, {"__ext", "a b"}}

func isExtName(n string) bool {
	for _, e := range extPool {
		if e[0] == n {
			return true
		}
	}
	return false
}

func genMatchers(r *rand.Rand, ser []*seriesData) []*labels.Matcher {
	type lv struct{ n, v string }
	var pool []lv
	for _, sd := range ser {
		sd.ls.Range(func(l labels.Label) { pool = append(pool, lv{l.Name, l.Value}) })
	}
	regexFor := func(v string) string {
		switch r.IntN(6) {
		case 0:
			return ".+"
		case 1:
			return ".*"
		case 2:
			if len(v) > 0 {
				_, sz := firstRune(v)
				return quote(v[:sz]) + ".*"
			}
			return ".*"
		case 3:
			return quote(v) + "|x|prod"
		case 4:
			return "(?i:" + quote(v) + ")"
		default:
			return quote(v)
		}
	}
	n := 1 + r.IntN(3)
	var out []*labels.Matcher
	// most matchers are derived from one target series so that the selector usually selects it
	var tpool []lv
	ser[r.IntN(len(ser))].ls.Range(func(l labels.Label) { tpool = append(tpool, lv{l.Name, l.Value}) })
	for i := 0; i < n; i++ {
		p := pool[r.IntN(len(pool))]
		onTarget := r.IntN(5) != 0
		if onTarget {
			p = tpool[r.IntN(len(tpool))]
		}
		if i == 0 && r.IntN(2) == 0 {
			// a broad first matcher so that most queries select something
			out = append(out, labels.MustNewMatcher(labels.MatchRegexp, "__name__", ".+"))
			continue
		}
		v := p.v
		if r.IntN(8) == 0 {
			v = gen.Pick(r, []string{"", "nope", "x", "prod"})
		}
		var mt labels.MatchType
		switch r.IntN(8) {
		case 0, 1, 2:
			mt = labels.MatchEqual
		case 3:
			mt = labels.MatchNotEqual
			if onTarget {
				v = gen.Pick(r, []string{"", "nope", "x", "prod"})
			}
		case 4, 5, 6:
			mt = labels.MatchRegexp
			v = regexFor(v)
		default:
			mt = labels.MatchNotRegexp
			if onTarget {
				v = gen.Pick(r, []string{"nope", "x|y", "pro.+"})
			} else {
				v = regexFor(v)
			}
		}
		m, err := labels.NewMatcher(mt, p.n, v)
		if err != nil {
			continue
		}
		out = append(out, m)
	}
	if len(out) == 0 {
		out = append(out, labels.MustNewMatcher(labels.MatchRegexp, "__name__", ".+"))
	}
	return out
}

func pickLabel(r *rand.Rand, ser []*seriesData) labels.Label {
	var ls []labels.Label
	ser[r.IntN(len(ser))].ls.Range(func(l labels.Label) { ls = append(ls, l) })
	return ls[r.IntN(len(ls))]
}

func firstRune(s string) (rune, int) {
	for i, c := range s {
		_ = i
		return c, len(string(c))
	}
	return 0, 0
}

func quote(s string) string {
	var sb strings.Builder
	for _, c := range s {
		if strings.ContainsRune(`\.+*?()|[]{}^$`, c) {
			sb.WriteByte('\\')
		}
		sb.WriteRune(c)
	}
	return sb.String()
}

func genQuery(r *rand.Rand, ser []*seriesData, ts []int64, split int) querySpec {
	q := querySpec{srvExt: map[string]string{}, cliExt: map[string]string{}}
	lo, hi := ts[0], ts[len(ts)-1]
	switch r.IntN(14) {
	case 0, 10, 11:
		q.mint, q.maxt = lo, hi
	case 1:
		q.mint, q.maxt = math.MinInt64, math.MaxInt64
	case 2: // point range on a sample timestamp
		t := ts[r.IntN(len(ts))]
		q.mint, q.maxt = t, t
	case 3: // outside the data
		if r.IntN(2) == 0 {
			q.mint, q.maxt = hi+1, hi+1000
		} else {
			q.mint, q.maxt = lo-1000, lo-1
		}
	case 4: // around the block/head border
		b := ts[min(split, len(ts)-1)]
		q.mint = gen.Int64Around(r, lo, b, b)
		q.maxt = gen.Int64Around(r, b, hi, b)
	default:
		a := ts[r.IntN(len(ts))] + int64(r.IntN(3)) - 1
		b := ts[r.IntN(len(ts))] + int64(r.IntN(3)) - 1
		if a > b {
			a, b = b, a
		}
		q.mint, q.maxt = a, b
	}
	if q.maxt < q.mint {
		q.maxt = q.mint
	}
	q.user = genMatchers(r, ser)
	if r.IntN(3) == 0 {
		q.hints = &storage.SelectHints{Start: q.mint, End: q.maxt}
		if r.IntN(2) == 0 {
			q.hints.Step = 1000
			q.hints.Func = "rate"
			q.hints.Range = 5000
		}
	}
	// server external labels
	nExt := []int{0, 1, 1, 2, 3}[r.IntN(5)]
	perm := r.Perm(len(extPool))
	for i := 0; i < nExt; i++ {
		q.srvExt[extPool[perm[i]][0]] = extPool[perm[i]][1]
	}
	// collision class: an external label named like a stored label; no matcher on that name, not a client label
	if r.IntN(6) == 0 {
		name := gen.Pick(r, []string{"env", "zone", "job"})
		used := false
		for _, m := range q.user {
			if m.Name == name {
				used = true
			}
		}
		if !used {
			q.srvExt[name] = "from-external"
		}
	}
	// client external labels
	switch r.IntN(9) {
	case 0, 6: // none
	case 1, 2, 3, 7, 8: // the same as the server's (the usual setup)
		for k, v := range q.srvExt {
			if isExtName(k) {
				q.cliExt[k] = v
			}
		}
	case 4: // one with a different value or unknown to the server ⇒ nothing can match
		e := extPool[r.IntN(len(extPool))]
		q.cliExt[e[0]] = e[1] + "-other"
	case 5: // subset
		for k, v := range q.srvExt {
			if isExtName(k) && r.IntN(2) == 0 {
				q.cliExt[k] = v
			}
		}
	}
	// user matchers on external label names (equality only)
	if r.IntN(7) == 0 {
		e := extPool[r.IntN(len(extPool))]
		if r.IntN(5) != 0 { // mostly one the server really has
			for _, x := range extPool {
				if _, ok := q.srvExt[x[0]]; ok {
					e = x
					break
				}
			}
		}
		v := e[1]
		if r.IntN(4) == 0 {
			v = "other"
		}
		q.user = append(q.user, labels.MustNewMatcher(labels.MatchEqual, e[0], v))
	}
	// required matchers
	if r.IntN(8) == 0 {
		var eq []*labels.Matcher
		for _, m := range q.user {
			if m.Type == labels.MatchEqual {
				eq = append(eq, m)
			}
		}
		if len(eq) == 0 && r.IntN(3) != 0 {
			// give the selector an equality matcher of a stored series so that the requirement can be met
			l := pickLabel(r, ser)
			m := labels.MustNewMatcher(labels.MatchEqual, l.Name, l.Value)
			q.user = append(q.user, m)
			eq = append(eq, m)
		}
		if len(eq) > 0 && r.IntN(4) != 0 {
			m := eq[r.IntN(len(eq))]
			q.required = append(q.required, labels.MustNewMatcher(labels.MatchEqual, m.Name, m.Value))
		} else {
			q.required = append(q.required, labels.MustNewMatcher(labels.MatchEqual, "job", "required-elsewhere"))
		}
	}
	q.respType = []string{"samples", "streamed", "streamed", "default"}[r.IntN(4)]
	q.frame = []int{64, 100, 200, 500, 1500, 4096, 1 << 20}[r.IntN(7)]
	q.chunkSide = r.IntN(4) == 0
	q.sorted = r.IntN(2) == 0
	return q
}

// expected computes the reference from the local querier's answer and the documented
// external-label / required-matcher semantics.
func expected(db *tsdb.DB, q querySpec, why *string) (map[string][]tsdbx.Sample, error) {
	exp := map[string][]tsdbx.Sample{}
	// required matchers: all must be present as equality matchers in the selector
	for _, rm := range q.required {
		found := false
		for _, m := range q.user {
			if m.Type == labels.MatchEqual && m.Name == rm.Name && m.Value == rm.Value {
				found = true
			}
		}
		if !found {
			*why = "required-matcher-absent"
			return exp, nil
		}
	}
	// matchers on external-label names are evaluated on the virtual label (server external
	// label where the series lacks it – stored series never carry these names)
	var raw []*labels.Matcher
	userNames := map[string]bool{}
	for _, m := range q.user {
		userNames[m.Name] = true
		if isExtName(m.Name) {
			if m.Value != q.srvExt[m.Name] {
				*why = "user-matcher-on-external-label-differs"
				return exp, nil
			}
			continue
		}
		raw = append(raw, m)
	}
	var added []string
	for k, v := range q.cliExt {
		if userNames[k] {
			continue
		}
		added = append(added, k)
		if q.srvExt[k] != v {
			*why = "client-external-label-not-on-server"
			return exp, nil
		}
	}
	lq, err := db.Querier(q.mint, q.maxt)
	if err != nil {
		return nil, err
	}
	defer lq.Close()
	ents, err := drainSet(lq.Select(context.Background(), true, q.hints, raw...))
	if err != nil {
		return nil, err
	}
	for _, e := range ents {
		if len(e.samples) == 0 {
			continue
		}
		b := labels.NewBuilder(e.ls)
		for k, v := range q.srvExt {
			if e.ls.Get(k) == "" {
				b.Set(k, v)
			}
		}
		b.Del(added...)
		exp[b.Labels().String()] = e.samples
	}
	if len(exp) == 0 {
		*why = "local-query-empty"
	}
	return exp, nil
}

// ---------------------------------------------------------------- run

func run(c *core.Case) {
	r := c.Rng
	dir := c.TempDir()
	opts := tsdb.DefaultOptions()
	opts.SamplesPerChunk = gen.Pick(r, []int{3, 5, 8, 20, 50, 120})
	opts.NoLockfile = true
	db, err := tsdb.Open(dir, tsdbx.NopLogger(), nil, opts, nil)
	core.Must(err, "tsdb.Open")
	defer db.Close()
	db.DisableCompactions()

	nSeries := 2 + r.IntN(7)
	lsets := gen.SeriesSet(r, nSeries)
	nTs := 20 + r.IntN(200)
	base := int64(r.IntN(1_000_000))
	if gen.Chance(r, 3) {
		base = 1_600_000_000_000 + int64(r.IntN(1_000_000))
	}
	ts := make([]int64, nTs)
	t := base
	for i := range ts {
		t += 1 + int64(r.IntN(1000))
		ts[i] = t
	}
	split := r.IntN(nTs + 1) // ts[:split] go to a block, the rest stays in the head
	if gen.Chance(r, 6) {
		split = 0
	}
	var ser []*seriesData
	present := make([][]bool, nSeries)
	total := 0
	for si, ls := range lsets {
		sd := &seriesData{ls: ls, kind: gen.Pick(r, []string{"float", "float", "int", "floathist", "mixed"})}
		present[si] = make([]bool, nTs)
		var prev *gen.AbsHist
		density := 1 + r.IntN(4)
		start, end := 0, nTs
		if gen.Chance(r, 4) { // series living only in a part of the time line
			start = r.IntN(nTs)
			end = start + r.IntN(nTs-start+1)
		}
		for i := start; i < end; i++ {
			if r.IntN(density) != 0 {
				continue
			}
			s, ok := genValue(r, sd.kind, &prev)
			if !ok {
				c.Count("generated_invalid_histograms_skipped", 1)
				continue
			}
			s.T = ts[i]
			sd.samples = append(sd.samples, s)
			present[si][i] = true
			total++
		}
		c.Seen("series_kind", sd.kind)
		ser = append(ser, sd)
	}
	if total == 0 {
		return
	}
	core.Must(appendAll(db, r, ser, ts, present, 0, split), "append phase 1")
	if split > 0 && db.Head().NumSeries() > 0 {
		h := db.Head()
		core.Must(db.CompactHead(tsdb.NewRangeHead(h, h.MinTime(), h.MaxTime())), "CompactHead")
	}
	core.Must(appendAll(db, r, ser, ts, present, split, nTs), "append phase 2")
	if gen.Chance(r, 3) {
		db.ForceHeadMMap()
	}
	c.Count("blocks", int64(len(db.Blocks())))
	c.Count("samples_stored", int64(total))

	nq := 6
	if c.Tier == core.Thorough {
		nq = 10
	}
	var cur querySpec
	cfgFn := func() config.Config {
		return config.Config{GlobalConfig: config.GlobalConfig{ExternalLabels: labels.FromMap(cur.srvExt)}}
	}
	handlers := map[int]*httptest.Server{}
	defer func() {
		for _, s := range handlers {
			s.Close()
		}
	}()
	var sample []any
	splitReported, negZeroReported := false, false
	for qi := 0; qi < nq; qi++ {
		q := genQuery(r, ser, ts, split)
		cur = q
		srv := handlers[q.frame]
		if srv == nil {
			srv = httptest.NewServer(remote.NewReadHandler(tsdbx.NopLogger(), nil, db, cfgFn, 0, 4, q.frame))
			handlers[q.frame] = srv
		}
		why := ""
		exp, err := expected(db, q, &why)
		core.Must(err, "local query")

		u, err := url.Parse(srv.URL)
		core.Must(err, "url")
		cc := &remote.ClientConfig{
			URL:              &config_util.URL{URL: u},
			Timeout:          model.Duration(120 * time.Second),
			HTTPClientConfig: config_util.DefaultHTTPClientConfig,
			ChunkedReadLimit: config.DefaultChunkedReadLimit,
		}
		switch q.respType {
		case "samples":
			cc.AcceptedResponseTypes = []prompb.ReadRequest_ResponseType{prompb.ReadRequest_SAMPLES}
		case "streamed":
			cc.AcceptedResponseTypes = []prompb.ReadRequest_ResponseType{prompb.ReadRequest_STREAMED_XOR_CHUNKS}
		}
		streamed := q.respType != "samples"
		rc, err := remote.NewReadClient("c42", cc)
		core.Must(err, "NewReadClient")
		qa := remote.NewSampleAndChunkQueryableClient(rc, labels.FromMap(q.cliExt), q.required, true, func() (int64, error) { return 0, nil })

		var got []entry
		var gerr error
		var seekErr string
		if q.chunkSide {
			cq, err := qa.ChunkQuerier(q.mint, q.maxt)
			core.Must(err, "client ChunkQuerier")
			got, gerr = drainChunkSet(cq.Select(context.Background(), q.sorted, q.hints, q.user...), q.mint, q.maxt)
			cq.Close()
		} else {
			rq, err := qa.Querier(q.mint, q.maxt)
			core.Must(err, "client Querier")
			got, gerr = drainSet(rq.Select(context.Background(), q.sorted, q.hints, q.user...))
			// Seek contract on fresh iterators (second read)
			if gerr == nil && len(got) > 0 && r.IntN(2) == 0 {
				seekErr = seekCheck(r, rq.Select(context.Background(), q.sorted, q.hints, q.user...), got)
			}
			rq.Close()
		}
		closeIdle(rc)
		c.Count("queries", 1)
		c.Seen("response_type", q.respType)
		if gerr != nil {
			c.Violatef("remote-read-error", "remote read failed where the local query succeeded: %v\nquery: %s", gerr, q)
			return
		}
		var negZero []string
		kind, detail, splits := compare(exp, got, &negZero)
		if kind == "" && len(negZero) > 0 {
			if streamed {
				kind, detail = "sample-value-mismatch", fmt.Sprintf("-0 stored, +0 returned in a streamed response: %v", negZero)
			} else {
				c.Count("queries_with_negative_zero_flattened", 1)
				if !negZeroReported {
					negZeroReported = true
					c.Violatef(kindNegZero, "%d float sample(s) stored as -0 (local querier: f:8000000000000000) were returned as +0 by the SAMPLES response; everything else equal. first: %s\nquery: %s", len(negZero), negZero[0], q)
				}
			}
		}
		if kind == "" && splits > 0 {
			if streamed {
				kind = kindSplit
			} else {
				kind = "duplicate-series-in-sampled-response"
			}
			detail = fmt.Sprintf("%d label set(s) were returned as several consecutive series entries (a series whose chunks exceed maxBytesInFrame=%d is split over frames; the client hands each frame out as a series); concatenated they equal the local series. entries: %s", splits, q.frame, renderEntries(got))
		}
		if kind != "" {
			if kind != kindSplit || !splitReported {
				c.Violatef(kind, "%s\nquery: %s\nopts: samplesPerChunk=%d blocks=%d", detail, q, opts.SamplesPerChunk, len(db.Blocks()))
			}
			if kind != kindSplit {
				return
			}
			splitReported = true
			c.Count("queries_with_split_series", 1)
		}
		if seekErr != "" {
			c.Violatef("seek-mismatch", "%s\nquery: %s", seekErr, q)
			return
		}
		ns := 0
		for _, v := range exp {
			ns += len(v)
		}
		c.Count("samples_compared", int64(ns))
		c.Count("series_compared", int64(len(exp)))
		if len(q.required) > 0 {
			c.Count("queries_with_required_matchers", 1)
		}
		if len(q.srvExt) > 0 {
			c.Count("queries_with_server_external_labels", 1)
		}
		if ns > 0 {
			c.Nontrivial(c.Idx, qi, q.String())
			c.Seen("nontrivial_shape", fmt.Sprintf("%s/frame<=%d/chunkSide=%v", q.respType, q.frame, q.chunkSide))
			if streamed && len(got) > len(exp) {
				c.Count("queries_streamed_multi_frame_series", 1)
			}
		} else {
			c.Count("queries_with_empty_expected_result", 1)
			c.Seen("empty_expected_reason", why)
		}
		if c.Idx < 3 && len(sample) < 2 {
			sample = append(sample, map[string]any{"query": q.String(), "expected_series": len(exp), "expected_samples": ns, "remote_entries": len(got)})
		}
	}
	if sample != nil {
		c.Sample(sample)
	}
}

func closeIdle(rc remote.ReadClient) {
	if cl, ok := rc.(*remote.Client); ok && cl.Client != nil {
		cl.Client.CloseIdleConnections()
	}
}

func renderEntries(es []entry) string {
	var sb strings.Builder
	for i, e := range es {
		if i >= 8 {
			sb.WriteString("…")
			break
		}
		fmt.Fprintf(&sb, "[%s: %v] ", e.key, tsList(e.samples))
	}
	return sb.String()
}

// compare merges consecutive entries with equal label sets and compares with the reference.
// Returns kind ("" = equal), detail and the number of label sets that had to be merged.
func compare(exp map[string][]tsdbx.Sample, got []entry, negZero *[]string) (string, string, int) {
	merged := map[string][]tsdbx.Sample{}
	splits := 0
	last := ""
	for i, e := range got {
		if _, seen := merged[e.key]; seen {
			if i > 0 && last == e.key {
				if len(merged[e.key]) > 0 && len(e.samples) > 0 && e.samples[0].T <= merged[e.key][len(merged[e.key])-1].T {
					return "duplicate-series-overlapping", fmt.Sprintf("label set %s returned several times with overlapping samples: %s", e.key, renderEntries(got)), 0
				}
				merged[e.key] = append(merged[e.key], e.samples...)
				splits++
				last = e.key
				continue
			}
			return "duplicate-series-non-consecutive", fmt.Sprintf("label set %s returned more than once, not consecutively: %s", e.key, renderEntries(got)), 0
		}
		merged[e.key] = append([]tsdbx.Sample{}, e.samples...)
		last = e.key
	}
	var keys []string
	for k := range exp {
		keys = append(keys, k)
	}
	for k, v := range merged {
		if _, ok := exp[k]; !ok && len(v) > 0 {
			keys = append(keys, k)
		}
	}
	sort.Strings(keys)
	for _, k := range keys {
		e, eok := exp[k]
		g := merged[k]
		if !eok {
			return "unexpected-series", fmt.Sprintf("remote returned series %s with samples %v which the local query does not return (local series: %v)", k, tsList(g), mapKeys(exp)), 0
		}
		if len(g) == 0 {
			return "missing-series", fmt.Sprintf("local query returns series %s with samples %v, remote read returned no samples for it (remote: %s)", k, tsList(e), renderEntries(got)), 0
		}
		if len(e) != len(g) {
			return "sample-set-mismatch", fmt.Sprintf("series %s: local %d samples %v, remote %d samples %v", k, len(e), tsList(e), len(g), tsList(g)), 0
		}
		for i := range e {
			if e[i].T != g[i].T {
				return "sample-set-mismatch", fmt.Sprintf("series %s: sample %d: local t=%d remote t=%d", k, i, e[i].T, g[i].T), 0
			}
			if e[i].Kind == "f" && g[i].Kind == "f" && math.Float64bits(e[i].F) == 1<<63 && math.Float64bits(g[i].F) == 0 {
				*negZero = append(*negZero, fmt.Sprintf("%s t=%d", k, e[i].T))
				continue
			}
			if e[i].ValKey() != g[i].ValKey() {
				return "sample-value-mismatch", fmt.Sprintf("series %s t=%d: local %s remote %s", k, e[i].T, e[i].ValKey(), g[i].ValKey()), 0
			}
			if isGauge(e[i]) != isGauge(g[i]) {
				return "gauge-flag-mismatch", fmt.Sprintf("series %s t=%d: local gauge=%v remote gauge=%v", k, e[i].T, isGauge(e[i]), isGauge(g[i])), 0
			}
		}
	}
	return "", "", splits
}

func mapKeys(m map[string][]tsdbx.Sample) []string {
	var out []string
	for k := range m {
		out = append(out, k)
	}
	sort.Strings(out)
	return out
}

// seekCheck: on a fresh iterator of every entry, Seek(t) followed by Next-draining must give
// exactly the entry's samples with timestamp >= t.
func seekCheck(r *rand.Rand, ss storage.SeriesSet, got []entry) string {
	i := 0
	for ss.Next() {
		if i >= len(got) {
			return "" // a differing second answer is not this check's business
		}
		s := ss.At()
		e := got[i]
		i++
		if len(e.samples) == 0 {
			continue
		}
		var t int64
		switch r.IntN(4) {
		case 0:
			t = e.samples[0].T - 1
		case 1:
			t = e.samples[len(e.samples)-1].T + 1
		default:
			t = e.samples[r.IntN(len(e.samples))].T + int64(r.IntN(3)) - 1
		}
		it := s.Iterator(nil)
		var out []tsdbx.Sample
		vt := it.Seek(t)
		for vt != chunkenc.ValNone {
			switch vt {
			case chunkenc.ValFloat:
				tt, v := it.At()
				out = append(out, tsdbx.Sample{T: tt, Kind: "f", F: v})
			case chunkenc.ValHistogram:
				tt, h := it.AtHistogram(nil)
				out = append(out, tsdbx.Sample{T: tt, Kind: "h", H: h.Copy()})
			case chunkenc.ValFloatHistogram:
				tt, fh := it.AtFloatHistogram(nil)
				out = append(out, tsdbx.Sample{T: tt, Kind: "fh", FH: fh.Copy()})
			}
			vt = it.Next()
		}
		if err := it.Err(); err != nil {
			return fmt.Sprintf("series %s: Seek(%d)+drain failed: %v", e.key, t, err)
		}
		var want []tsdbx.Sample
		for _, x := range e.samples {
			if x.T >= t {
				want = append(want, x)
			}
		}
		if len(want) != len(out) {
			return fmt.Sprintf("series %s: Seek(%d)+drain gave timestamps %v, Next-only read gives %v", e.key, t, tsList(out), tsList(want))
		}
		for j := range want {
			if want[j].T != out[j].T || want[j].ValKey() != out[j].ValKey() {
				return fmt.Sprintf("series %s: Seek(%d)+drain sample %d = %s, Next-only read gives %s", e.key, t, j, out[j], want[j])
			}
		}
	}
	return ""
}
