// Package c29: aggregations and binary operators follow the documented semantics (reference evaluator).
package c29

import (
	"fmt"
	"math"
	"math/rand/v2"
	"sort"
	"strings"
	"time"

	"github.com/prometheus/prometheus/model/labels"
	"github.com/prometheus/prometheus/promql/parser"

	"verif/internal/core"
	"verif/internal/gen"
	ref "verif/internal/promqlref"
)

func init() {
	core.Register(&core.Prop{
		ID:        "C29",
		Title:     "Aggregations and binary operators follow the documented semantics",
		Level:     "exploration",
		Technique: "reference-evaluator runtime monitor: real promql.Engine on a real tsdb.DB vs an evaluator written from docs/querying/operators.md",
		LevelText: "Generated float vectors (0-16 elements of three metrics with overlapping label sets, absent labels, NaN, +-Inf, -0, denormals, ties) are stored in a tsdb.DB; generated expressions (every aggregation incl. topk/bottomk/limitk/count_values/quantile with by/without, parameters k<=0, k>n, phi outside [0,1]; arithmetic, comparison (filter/bool) and set operators between vector/vector, vector/scalar, scalar/scalar with on/ignoring, group_left/group_right with include labels, fill/fill_left/fill_right on one-to-one matches; nesting depth <= 2) are run as instant queries on the real engine and compared with the reference evaluator: required errors (non-unique match groups, duplicate result label sets) must be errors; output label sets exact; count/group/count_values exact; min/max/topk/bottomk/limitk/selected values by value equality; + - * / % ^ atan2 by value equality (same IEEE operation); sum/avg within 1e-12 of sum|x|; stddev/stdvar within 1e-10 of the second moment; quantile inside the bracket of order statistics common to all quantile definitions; topk/bottomk result order as documented. Held on the observed queries only.",
		LevelNote: "Trusted: tsdb as sample store (self-checked), labels.Matcher. Reduction w.r.t. the planned monitor: quantile is only bracketed (the interpolation rule is not documented); stddev/stdvar/sum/avg on non-finite or overflowing input, count_values over +0 and -0, k that is not an integer are not value-checked; outcomes the documentation leaves open are accepted in every reading (name kept or dropped by unary minus / by a filtering comparison with on+group_right / for filled-in left sides; include label missing on the 'one' side but present on the 'many' side; which side's value a filtering comparison returns under group_right; errors for duplicate match groups that have no partner; pairs dropped by a filter that collide with other result labels); a nested expression whose operand is not exactly determined is executed but not compared. fill modifiers together with group modifiers are not generated. Histogram operands are out of scope (statement: float vectors).",
		DesignRef: "DESIGN.md §5 C29",
		Rule:      "case = one generated vector set in a fresh TSDB with 12 (quick) / 16 (thorough) generated expressions; an expression is non-trivial iff the reference determines its outcome and that outcome is a non-empty vector, a scalar or a required error; the case is non-trivial iff it has one; distinct by vectors+expressions",
		Cases: func(variant string, tier core.Tier) int {
			if variant != "default" {
				return 0
			}
			if tier == core.Thorough {
				return 25000
			}
			return 420
		},
		Run:            run,
		MinNontrivial:  func(t core.Tier) int { return 200 },
		CaseTimeoutSec: 120,
	})
}

const t0 = int64(1000000)

// ---------------------------------------------------------------- vectors

func genValue(r *rand.Rand, ties []float64) float64 {
	switch r.IntN(10) {
	case 0, 1, 2:
		return ties[r.IntN(len(ties))]
	case 3, 4:
		return gen.Float(r, false)
	case 5:
		return float64(r.IntN(7)) * 0.1
	default:
		return float64(r.IntN(40) - 10)
	}
}

func genDataset(r *rand.Rand) *ref.Dataset {
	ds := &ref.Dataset{}
	seen := map[string]bool{}
	ties := []float64{float64(r.IntN(10)), float64(r.IntN(10)), math.NaN(), 0}
	add := func(ls labels.Labels) {
		if seen[ls.String()] {
			return
		}
		seen[ls.String()] = true
		ds.Series = append(ds.Series, &ref.Series{Labels: ls, Samples: []ref.Smp{{T: t0, F: genValue(r, ties)}}})
	}
	pick := func(vals ...string) string { return vals[r.IntN(len(vals))] }
	mk := func(name string, kv ...string) labels.Labels {
		b := labels.NewBuilder(labels.EmptyLabels()).Set("__name__", name)
		for i := 0; i+1 < len(kv); i += 2 {
			if kv[i+1] != "" {
				b.Set(kv[i], kv[i+1])
			}
		}
		return b.Labels()
	}
	nl := r.IntN(8)
	if r.IntN(10) == 0 {
		nl = 0
	}
	var lsets []labels.Labels
	for i := 0; i < nl; i++ {
		ls := mk("l", "a", pick("x", "y", "z", "", "x"), "b", pick("1", "2", ""), "c", pick("p", "", ""))
		lsets = append(lsets, ls)
		add(ls)
	}
	nr := r.IntN(7)
	for i := 0; i < nr; i++ {
		var ls labels.Labels
		if len(lsets) > 0 && r.IntN(3) != 0 {
			// project a left label set so that matches exist
			src := lsets[r.IntN(len(lsets))]
			b := labels.NewBuilder(src).Set("__name__", "r")
			if r.IntN(2) == 0 {
				b.Del("c")
			}
			if r.IntN(3) == 0 {
				b.Del("b")
			}
			if r.IntN(2) == 0 {
				b.Set("info", pick("i1", "i2"))
			}
			ls = b.Labels()
		} else {
			ls = mk("r", "a", pick("x", "y", "w", ""), "b", pick("1", "3", ""), "info", pick("i1", "i2", ""))
		}
		add(ls)
	}
	n2 := r.IntN(4)
	for i := 0; i < n2; i++ {
		if len(lsets) > 0 && r.IntN(2) == 0 {
			add(labels.NewBuilder(lsets[r.IntN(len(lsets))]).Set("__name__", "l2").Labels())
		} else {
			add(mk("l2", "a", pick("x", "y", ""), "b", pick("1", "2", "")))
		}
	}
	return ds
}

// ---------------------------------------------------------------- expressions

var selTexts = []string{`l`, `l`, `l`, `r`, `r`, `l2`, `{__name__=~"l|l2"}`, `{__name__=~"l|r"}`, `{__name__=~"l.*|r"}`, `l{a="x"}`, `l{c=""}`, `r{info!=""}`, `nosuch`}

type egen struct {
	r *rand.Rand
	p parser.Parser
}

func (g *egen) sel() ref.Node {
	t := selTexts[g.r.IntN(len(selTexts))]
	ms, err := g.p.ParseMetricSelector(t)
	core.Must(err, "selector "+t)
	return &ref.Sel{Text: t, Ms: ms}
}

func (g *egen) num() *ref.Num {
	r := g.r
	switch r.IntN(12) {
	case 0:
		return &ref.Num{V: 0}
	case 1:
		return &ref.Num{V: math.NaN()}
	case 2:
		return &ref.Num{V: math.Inf(1)}
	case 3:
		return &ref.Num{V: math.Inf(-1)}
	case 4:
		return &ref.Num{V: -float64(1 + r.IntN(5))}
	case 5:
		return &ref.Num{V: float64(r.IntN(7)) * 0.1}
	case 6:
		return &ref.Num{V: 0.5}
	default:
		return &ref.Num{V: float64(r.IntN(12))}
	}
}

func (g *egen) subset(pool []string, maxN int) []string {
	var out []string
	seen := map[string]bool{}
	n := g.r.IntN(maxN + 1)
	for i := 0; i < n; i++ {
		x := pool[g.r.IntN(len(pool))]
		if !seen[x] {
			seen[x] = true
			out = append(out, x)
		}
	}
	return out
}

var aggOps = []string{"sum", "avg", "min", "max", "count", "group", "stddev", "stdvar", "quantile", "topk", "bottomk", "limitk", "count_values", "topk", "bottomk", "min", "max", "count", "sum"}
var exactAggOps = []string{"min", "max", "count", "group", "topk", "bottomk", "count", "min", "max"}

func (g *egen) agg(depth int, exactOnly bool) ref.Node {
	r := g.r
	a := &ref.Agg{}
	if exactOnly {
		a.Op = exactAggOps[r.IntN(len(exactAggOps))]
	} else {
		a.Op = aggOps[r.IntN(len(aggOps))]
	}
	if r.IntN(4) != 0 {
		a.HasClause = true
		a.Without = r.IntN(2) == 0
		pool := []string{"a", "b", "c", "info", "a", "b", "nolabel"}
		if r.IntN(12) == 0 {
			pool = append(pool, "__name__")
		}
		a.Grouping = g.subset(pool, 3)
		a.ClauseAfter = r.IntN(3) == 0
	}
	switch a.Op {
	case "topk", "bottomk", "limitk":
		switch r.IntN(8) {
		case 0:
			a.Param = 0
		case 1:
			a.Param = -float64(1 + r.IntN(3))
		case 2:
			a.Param = float64(10 + r.IntN(1000000))
		default:
			a.Param = float64(1 + r.IntN(4))
		}
	case "quantile":
		switch r.IntN(10) {
		case 0:
			a.Param = 0
		case 1:
			a.Param = 1
		case 2:
			a.Param = -0.5
		case 3:
			a.Param = 1.5
		case 4:
			a.Param = math.NaN()
		case 5:
			a.Param = 0.5
		default:
			a.Param = float64(r.IntN(101)) / 100
		}
	case "count_values":
		a.ParamStr = []string{"val", "val", "v", "info"}[r.IntN(4)]
	}
	if depth > 0 && r.IntN(3) == 0 {
		a.Arg = g.vector(depth-1, true)
	} else {
		a.Arg = g.sel()
	}
	return a
}

var arithOps = []string{"+", "-", "*", "/", "%", "^", "atan2"}
var cmpOps = []string{"==", "!=", ">", "<", ">=", "<="}
var setOps = []string{"and", "or", "unless"}

// vector returns an instant-vector expression.
func (g *egen) vector(depth int, exactOnly bool) ref.Node {
	r := g.r
	if depth <= 0 {
		return g.sel()
	}
	switch k := r.IntN(10); {
	case k < 3:
		return g.sel()
	case k < 6:
		return g.agg(depth-1, exactOnly)
	default:
		return g.bin(depth-1, exactOnly, true)
	}
}

func (g *egen) bin(depth int, exactOnly, wantVector bool) ref.Node {
	r := g.r
	b := &ref.Bin{}
	shape := r.IntN(10) // 0-5 vec/vec, 6-7 vec/scalar, 8 scalar/vec, 9 scalar/scalar (only at top: allowed anywhere as scalar operand? no: keep top)
	opClass := r.IntN(10)
	switch {
	case opClass < 4:
		b.Op = arithOps[r.IntN(len(arithOps))]
	case opClass < 7:
		b.Op = cmpOps[r.IntN(len(cmpOps))]
		b.Bool = r.IntN(3) == 0
	default:
		b.Op = setOps[r.IntN(len(setOps))]
		shape = r.IntN(6) // set operators: vector/vector only
	}
	if wantVector && shape == 9 {
		shape = 6
	}
	switch {
	case shape <= 5:
		b.L = g.vector(depth, true)
		b.R = g.vector(depth, true)
		if r.IntN(10) < 7 {
			pool := []string{"a", "b", "c", "info", "a", "b"}
			if r.IntN(2) == 0 {
				b.HasOn = true
			} else {
				b.HasIgn = true
			}
			b.MLabels = g.subset(pool, 3)
		}
		if !ref.IsSetOp(b.Op) {
			if r.IntN(10) < 4 {
				b.Group = []string{"left", "right"}[r.IntN(2)]
				if !b.HasOn && !b.HasIgn { // group modifiers need on(...) or ignoring(...)
					b.HasIgn = true
					b.MLabels = g.subset([]string{"a", "b", "c", "info"}, 2)
				}
				if r.IntN(3) != 0 {
					b.HasIncl = true
					for _, x := range g.subset([]string{"info", "c", "info", "b"}, 2) {
						if b.HasOn && contains(b.MLabels, x) {
							continue // "for on a label can only appear in one of the lists"
						}
						b.Include = append(b.Include, x)
					}
				}
			} else if r.IntN(10) < 3 {
				v1, v2 := g.num().V, g.num().V
				switch r.IntN(4) {
				case 0:
					b.FillL, b.FillR, b.FillOne = &v1, &v1, true
				case 1:
					b.FillL = &v1
				case 2:
					b.FillR = &v1
				default:
					b.FillL, b.FillR = &v1, &v2
				}
			}
		}
	case shape <= 7:
		b.L = g.vector(depth, true)
		b.R = g.num()
	case shape == 8:
		b.L = g.num()
		b.R = g.vector(depth, true)
	default:
		b.L = g.num()
		b.R = g.num()
		if ref.IsCmpOp(b.Op) {
			b.Bool = true
		}
	}
	return b
}

func contains(xs []string, s string) bool {
	for _, x := range xs {
		if x == s {
			return true
		}
	}
	return false
}

func (g *egen) top() ref.Node {
	switch k := g.r.IntN(20); {
	case k < 9:
		return g.agg(1, false)
	case k < 19:
		return g.bin(1, false, false)
	default:
		return &ref.Neg{X: g.vector(1, true)}
	}
}

// ---------------------------------------------------------------- run

func opClass(n ref.Node) string {
	switch x := n.(type) {
	case *ref.Agg:
		return "agg-" + x.Op
	case *ref.Bin:
		switch {
		case ref.IsSetOp(x.Op):
			return "binop-set"
		case ref.IsCmpOp(x.Op):
			return "binop-cmp"
		}
		return "binop-arith"
	case *ref.Neg:
		return "unary-minus"
	}
	return "selector"
}

func run(c *core.Case) {
	r := c.Rng
	ds := genDataset(r)
	st := ref.Load(c, ds, ref.StoreOpts{})
	defer st.Close()
	popts := parser.Options{EnableExperimentalFunctions: true, EnableBinopFillModifiers: true}
	eng := ref.NewEngine(ref.EngineOpts{Lookback: 5 * time.Minute, ParserOpts: popts})
	g := &egen{r: r, p: parser.NewParser(popts)}

	input := func(ms []*labels.Matcher) []ref.Elem {
		var out []ref.Elem
		for _, s := range ds.Select(ms) {
			out = append(out, ref.Elem{L: s.Labels, V: s.Samples[0].F})
		}
		return out
	}
	nq := 12
	if c.Tier == core.Thorough {
		nq = 16
	}
	nontrivial := false
	var texts []string
	var samples []map[string]any
	for qi := 0; qi < nq; qi++ {
		ast := g.top()
		q := ast.String()
		texts = append(texts, q)
		if _, err := g.p.ParseExpr(q); err != nil {
			panic(core.HarnessError{Msg: fmt.Sprintf("generated expression does not parse: %q: %v", q, err)})
		}
		want := ref.Eval(ast, input)
		out := st.Instant(eng, q, t0, 0)
		cls := opClass(ast)
		c.Count("queries", 1)
		c.Seen("op_class", cls)
		ctx := func() string {
			return fmt.Sprintf("query %q\nengine: err=%v vec=%v scalar=%v\nreference: %s\nvectors:\n%s", q, out.Err, out.Vec, fmtScalar(out.Scalar), want, ds)
		}
		if len(samples) < 3 && c.Idx < 3 {
			samples = append(samples, map[string]any{"query": q, "reference": want.String(), "engine_error": fmt.Sprint(out.Err), "engine": out.Vec.String()})
		}
		switch {
		case want.Unspec != "":
			c.Count("queries_outcome_not_determined_by_docs", 1)
			continue
		case want.Err != "":
			c.Count("queries_expecting_error", 1)
			if out.Err == nil && want.ErrKnownKind != "" {
				c.Violatef(want.ErrKnownKind, "the documentation requires an error (%s) but the query succeeded; explained by a recorded known finding\n%s", want.Err, ctx())
				continue
			}
			if out.Err == nil {
				kind := cls + "-missing-matching-error"
				if strings.Contains(want.Err, "duplicate label set") || strings.Contains(want.Err, "uniquely") {
					kind = cls + "-missing-duplicate-labelset-error"
				}
				c.Violatef(kind, "the documentation requires an error (%s) but the query succeeded\n%s", want.Err, ctx())
				return
			}
			nontrivial = true
			continue
		}
		if out.Err != nil {
			c.Violatef(cls+"-unexpected-error", "%s", ctx())
			return
		}
		if out.Dup != "" {
			c.Violatef(cls+"-malformed-result", "%s\n%s", out.Dup, ctx())
			return
		}
		if want.Scalar {
			if out.Scalar == nil {
				c.Violatef(cls+"-type", "scalar expected\n%s", ctx())
				return
			}
			if !want.Elems[0].Accepts(*out.Scalar) {
				c.Violatef(cls+"-value", "scalar value differs\n%s", ctx())
				return
			}
			nontrivial = true
			c.Count("scalar_results_checked", 1)
			continue
		}
		if out.Vec == nil {
			c.Violatef(cls+"-type", "vector expected\n%s", ctx())
			return
		}
		var got []ref.Got
		for _, k := range out.Order {
			got = append(got, ref.Got{L: out.LS[k], V: out.Vec[k].F})
			if out.Vec[k].H != nil {
				c.Violatef(cls+"-value", "histogram in the result of float inputs\n%s", ctx())
				return
			}
		}
		msg, known := want.Compare(got)
		for _, k := range known {
			c.Violatef(k, "deviation from the documentation that is a recorded known finding\n%s", ctx())
		}
		if msg != "" {
			what := "labels"
			if i := strings.Index(msg, ":"); i > 0 {
				what = msg[:i]
			}
			c.Violatef(cls+"-"+what, "%s\n%s", msg, ctx())
			return
		}
		if want.OrderCheck != nil {
			if msg := want.OrderCheck(got); msg != "" {
				c.Violatef(cls+"-order", "%s\n%s", msg, ctx())
				return
			}
			c.Count("orders_checked", 1)
		}
		c.Count("vector_results_checked", 1)
		c.Count("elements_checked", int64(len(got)))
		if want.Validate != nil {
			c.Count("results_checked_by_validator", 1)
		}
		if len(got) > 0 {
			nontrivial = true
		}
	}
	if nontrivial {
		c.Nontrivial(ds.String(), strings.Join(texts, "\n"))
	}
	if c.Idx < 3 {
		sort.Strings(texts)
		c.Sample(map[string]any{"vectors": strings.Split(strings.TrimSpace(ds.String()), "\n"), "queries": samples})
	}
}

func fmtScalar(f *float64) string {
	if f == nil {
		return "<nil>"
	}
	return fmt.Sprint(*f)
}
