// Package c54: storage.NewFanout merges primary and secondaries, secondaries are best effort,
// the primary is authoritative; committed appends reach every storage (fault enumeration).
package c54

import (
	"context"
	"errors"
	"fmt"
	"math/rand/v2"
	"sort"
	"strings"
	"sync"

	"github.com/prometheus/prometheus/model/histogram"
	"github.com/prometheus/prometheus/model/labels"
	"github.com/prometheus/prometheus/storage"
	"github.com/prometheus/prometheus/tsdb"
	"github.com/prometheus/prometheus/tsdb/chunks"
	"github.com/prometheus/prometheus/util/annotations"

	"verif/internal/core"
	"verif/internal/gen"
	"verif/internal/tsdbx"
)

// Kinds of the two expected findings (DESIGN.md §10 item 10); everything else keeps its own kind.
const (
	kindSecondaryCreation  = "secondary-failed-at-querier-creation"
	kindSecondaryLaterNext = "secondary-failed-after-first-next"
)

func init() {
	core.Register(&core.Prop{
		ID:        "C54",
		Title:     "Fanout storage merges primary and secondary data with best-effort secondaries",
		Level:     "fault_enumeration",
		Technique: "fault enumeration over fake storages wrapping real TSDB heads, statement-derived oracle on the fanout's results",
		LevelText: "Per case one primary and 1–3 secondaries (real tsdb.DB heads with generated overlapping/exclusive float and histogram series) are combined by storage.NewFanout. For a generated query (1–2 Selects with matchers and a time range, plus LabelValues/LabelNames) EVERY single-fault placement is enumerated: querier creation, Select, the k-th Next of each returned set (k = 1 … series+1), label queries – for each storage, for Querier and ChunkQuerier. Oracle from the statement: no fault ⇒ exact merge; primary fault ⇒ the query fails; secondary fault ⇒ the query succeeds, equals the exact merge of the remaining storages and a warning is reported. Then every single-fault placement on the write path (n-th Append on each storage, Commit on each storage) is enumerated for Appender and AppenderV2: a Commit that returns nil must have put every accepted sample into every storage, a failing primary commit must leave every secondary uncommitted and unchanged. Held on the enumerated placements of the generated contents only.",
		LevelNote: "Trusted: tsdb.DB heads as the data holders behind the fakes, labels.Matcher for the reference selection. Reductions: (1) with two Selects on one querier the warning is required on at least one of the two result sets (the statement says 'the query reports a warning'; secondary.go attaches it to the first set drained), and the Select that did not contain the fault may either include or exclude the failed secondary completely; (2) ChunkQuerier results are decoded and restricted to [mint,maxt] because chunk queriers may return whole chunks; (3) samples whose Append returned an error are 'don't care' after Commit; sub-appenders left without Commit/Rollback and behaviour after a caller Rollback are only counted, the statement is silent on them; (4) only single faults per scenario; Limit hints, exemplars, metadata, StartTime not driven.",
		DesignRef: "DESIGN.md §5 C54, §10 item 10",
		Rule:      "case = generated contents for 2–4 storages + one query shape; all single-fault placements enumerated (read: ~60–200, write: ~8–20 scenarios); non-trivial iff at least one fired secondary fault was judged on a secondary that held data visible in the no-fault result and exclusive to it, at least one primary read fault fired, and the primary-commit fault scenario ran; distinct by contents+query",
		Assumptions: []string{
			"a fault is an error returned by the storage at exactly one API point; faulty storages otherwise behave like healthy ones",
			"secondaries ignore the series reference handed over by the fanout (as remote storage does); the primary receives the caller's reference",
		},
		Cases: func(variant string, tier core.Tier) int {
			if variant != "default" {
				return 0
			}
			if tier == core.Thorough {
				return 40000
			}
			return 1200
		},
		Run:            run,
		MinNontrivial:  func(t core.Tier) int { return 300 },
		CaseTimeoutSec: 120,
	})
}

var errInjected = errors.New("c54 injected fault")

// ---------------------------------------------------------------- fault plan and environment

type plan struct {
	active  bool
	storage int    // 0 = primary, 1.. = secondaries
	point   string // querier | select | next | labelvalues | labelnames | append | commit
	sel     int    // ordinal of the Select call on the querier (select, next)
	n       int    // next: k-th Next call on the set (1-based); append: n-th append (1-based)
}

func (p plan) String() string {
	if !p.active {
		return "no-fault"
	}
	who := "primary"
	if p.storage > 0 {
		who = fmt.Sprintf("secondary#%d", p.storage)
	}
	switch p.point {
	case "select":
		return fmt.Sprintf("%s fails Select#%d", who, p.sel)
	case "next":
		return fmt.Sprintf("%s fails Next call %d of Select#%d", who, p.n, p.sel)
	case "append":
		return fmt.Sprintf("%s fails Append call %d", who, p.n)
	}
	return fmt.Sprintf("%s fails %s", who, p.point)
}

type session struct {
	opened     int
	committed  int
	commitFail int
	rolledBack int
}

type env struct {
	c      *core.Case
	dbs    []*tsdb.DB
	stores []storage.Storage
	fan    storage.Storage

	mu      sync.Mutex
	plan    plan
	fired   bool
	open    map[interface{ Close() error }]bool
	session []session
}

func (e *env) setPlan(p plan) {
	e.mu.Lock()
	e.plan, e.fired = p, false
	e.session = make([]session, len(e.dbs))
	e.mu.Unlock()
}

func (e *env) hit(st int, point string, sel, n int) bool {
	e.mu.Lock()
	defer e.mu.Unlock()
	p := e.plan
	if !p.active || p.storage != st || p.point != point {
		return false
	}
	switch point {
	case "select":
		if p.sel != sel {
			return false
		}
	case "next":
		if p.sel != sel || p.n != n {
			return false
		}
	case "append":
		if p.n != n {
			return false
		}
	}
	e.fired = true
	return true
}

func (e *env) nextPlanFor(st, sel int) (int, bool) {
	e.mu.Lock()
	defer e.mu.Unlock()
	p := e.plan
	if p.active && p.storage == st && p.point == "next" && p.sel == sel {
		return p.n, true
	}
	return 0, false
}

func (e *env) wasFired() bool {
	e.mu.Lock()
	defer e.mu.Unlock()
	return e.fired
}

func (e *env) track(q interface{ Close() error }) {
	e.mu.Lock()
	e.open[q] = true
	e.mu.Unlock()
}

func (e *env) untrack(q interface{ Close() error }) {
	e.mu.Lock()
	delete(e.open, q)
	e.mu.Unlock()
}

// closeLeaked closes the real queriers the fanout did not close and returns their number.
func (e *env) closeLeaked() int {
	e.mu.Lock()
	var qs []interface{ Close() error }
	for q := range e.open {
		qs = append(qs, q)
	}
	e.open = map[interface{ Close() error }]bool{}
	e.mu.Unlock()
	for _, q := range qs {
		q.Close()
	}
	return len(qs)
}

func injected(st int, what string) error {
	return fmt.Errorf("storage %d %s: %w", st, what, errInjected)
}

// ---------------------------------------------------------------- fake storage

type fakeStorage struct {
	e   *env
	idx int
	db  *tsdb.DB
}

func (s *fakeStorage) Querier(mint, maxt int64) (storage.Querier, error) {
	if s.e.hit(s.idx, "querier", 0, 0) {
		return nil, injected(s.idx, "Querier()")
	}
	q, err := s.db.Querier(mint, maxt)
	if err != nil {
		return nil, err
	}
	s.e.track(q)
	return &fakeQuerier{Querier: q, s: s}, nil
}

func (s *fakeStorage) ChunkQuerier(mint, maxt int64) (storage.ChunkQuerier, error) {
	if s.e.hit(s.idx, "querier", 0, 0) {
		return nil, injected(s.idx, "ChunkQuerier()")
	}
	q, err := s.db.ChunkQuerier(mint, maxt)
	if err != nil {
		return nil, err
	}
	s.e.track(q)
	return &fakeChunkQuerier{ChunkQuerier: q, s: s}, nil
}

func (s *fakeStorage) Appender(ctx context.Context) storage.Appender {
	s.e.mu.Lock()
	s.e.session[s.idx].opened++
	s.e.mu.Unlock()
	return &fakeAppender{Appender: s.db.Appender(ctx), s: s}
}

func (s *fakeStorage) AppenderV2(ctx context.Context) storage.AppenderV2 {
	s.e.mu.Lock()
	s.e.session[s.idx].opened++
	s.e.mu.Unlock()
	return &fakeAppenderV2{AppenderV2: s.db.AppenderV2(ctx), s: s}
}

func (s *fakeStorage) StartTime() (int64, error) { return s.db.StartTime() }
func (s *fakeStorage) Close() error              { return nil } // the environment closes the DBs

type fakeQuerier struct {
	storage.Querier
	s    *fakeStorage
	nsel int
}

func (q *fakeQuerier) Select(ctx context.Context, sorted bool, hints *storage.SelectHints, ms ...*labels.Matcher) storage.SeriesSet {
	sel := q.nsel
	q.nsel++
	if q.s.e.hit(q.s.idx, "select", sel, 0) {
		return storage.ErrSeriesSet(injected(q.s.idx, "Select"))
	}
	ss := q.Querier.Select(ctx, sorted, hints, ms...)
	if k, ok := q.s.e.nextPlanFor(q.s.idx, sel); ok {
		return &faultySet[storage.Series]{inner: ss, e: q.s.e, st: q.s.idx, sel: sel, k: k}
	}
	return ss
}

func (q *fakeQuerier) LabelValues(ctx context.Context, name string, hints *storage.LabelHints, ms ...*labels.Matcher) ([]string, annotations.Annotations, error) {
	if q.s.e.hit(q.s.idx, "labelvalues", 0, 0) {
		return nil, nil, injected(q.s.idx, "LabelValues")
	}
	return q.Querier.LabelValues(ctx, name, hints, ms...)
}

func (q *fakeQuerier) LabelNames(ctx context.Context, hints *storage.LabelHints, ms ...*labels.Matcher) ([]string, annotations.Annotations, error) {
	if q.s.e.hit(q.s.idx, "labelnames", 0, 0) {
		return nil, nil, injected(q.s.idx, "LabelNames")
	}
	return q.Querier.LabelNames(ctx, hints, ms...)
}

func (q *fakeQuerier) Close() error {
	q.s.e.untrack(q.Querier)
	return q.Querier.Close()
}

type fakeChunkQuerier struct {
	storage.ChunkQuerier
	s    *fakeStorage
	nsel int
}

func (q *fakeChunkQuerier) Select(ctx context.Context, sorted bool, hints *storage.SelectHints, ms ...*labels.Matcher) storage.ChunkSeriesSet {
	sel := q.nsel
	q.nsel++
	if q.s.e.hit(q.s.idx, "select", sel, 0) {
		return storage.ErrChunkSeriesSet(injected(q.s.idx, "Select"))
	}
	ss := q.ChunkQuerier.Select(ctx, sorted, hints, ms...)
	if k, ok := q.s.e.nextPlanFor(q.s.idx, sel); ok {
		return &faultySet[storage.ChunkSeries]{inner: ss, e: q.s.e, st: q.s.idx, sel: sel, k: k}
	}
	return ss
}

func (q *fakeChunkQuerier) LabelValues(ctx context.Context, name string, hints *storage.LabelHints, ms ...*labels.Matcher) ([]string, annotations.Annotations, error) {
	if q.s.e.hit(q.s.idx, "labelvalues", 0, 0) {
		return nil, nil, injected(q.s.idx, "LabelValues")
	}
	return q.ChunkQuerier.LabelValues(ctx, name, hints, ms...)
}

func (q *fakeChunkQuerier) LabelNames(ctx context.Context, hints *storage.LabelHints, ms ...*labels.Matcher) ([]string, annotations.Annotations, error) {
	if q.s.e.hit(q.s.idx, "labelnames", 0, 0) {
		return nil, nil, injected(q.s.idx, "LabelNames")
	}
	return q.ChunkQuerier.LabelNames(ctx, hints, ms...)
}

func (q *fakeChunkQuerier) Close() error {
	q.s.e.untrack(q.ChunkQuerier)
	return q.ChunkQuerier.Close()
}

type anySet[T any] interface {
	Next() bool
	At() T
	Err() error
	Warnings() annotations.Annotations
}

// faultySet fails on the k-th call of Next (the underlying set is not consulted for that call).
type faultySet[T any] struct {
	inner  anySet[T]
	e      *env
	st     int
	sel    int
	k      int
	calls  int
	failed bool
}

func (f *faultySet[T]) Next() bool {
	if f.failed {
		return false
	}
	f.calls++
	if f.e.hit(f.st, "next", f.sel, f.calls) {
		f.failed = true
		return false
	}
	return f.inner.Next()
}

func (f *faultySet[T]) At() T { return f.inner.At() }

func (f *faultySet[T]) Err() error {
	if f.failed {
		return injected(f.st, fmt.Sprintf("Next call %d", f.k))
	}
	return f.inner.Err()
}

func (f *faultySet[T]) Warnings() annotations.Annotations { return f.inner.Warnings() }

type fakeAppender struct {
	storage.Appender
	s    *fakeStorage
	napp int
}

func (a *fakeAppender) ref(r storage.SeriesRef) storage.SeriesRef {
	if a.s.idx == 0 {
		return r
	}
	return 0
}

func (a *fakeAppender) Append(ref storage.SeriesRef, l labels.Labels, t int64, v float64) (storage.SeriesRef, error) {
	a.napp++
	if a.s.e.hit(a.s.idx, "append", 0, a.napp) {
		return 0, injected(a.s.idx, "Append")
	}
	return a.Appender.Append(a.ref(ref), l, t, v)
}

func (a *fakeAppender) AppendHistogram(ref storage.SeriesRef, l labels.Labels, t int64, h *histogram.Histogram, fh *histogram.FloatHistogram) (storage.SeriesRef, error) {
	a.napp++
	if a.s.e.hit(a.s.idx, "append", 0, a.napp) {
		return 0, injected(a.s.idx, "AppendHistogram")
	}
	return a.Appender.AppendHistogram(a.ref(ref), l, t, h, fh)
}

func (a *fakeAppender) Commit() error   { return commitFake(a.s, a.Appender) }
func (a *fakeAppender) Rollback() error { return rollbackFake(a.s, a.Appender) }

type fakeAppenderV2 struct {
	storage.AppenderV2
	s    *fakeStorage
	napp int
}

func (a *fakeAppenderV2) Append(ref storage.SeriesRef, l labels.Labels, st, t int64, v float64, h *histogram.Histogram, fh *histogram.FloatHistogram, opts storage.AOptions) (storage.SeriesRef, error) {
	a.napp++
	if a.s.e.hit(a.s.idx, "append", 0, a.napp) {
		return 0, injected(a.s.idx, "AppendV2")
	}
	if a.s.idx != 0 {
		ref = 0
	}
	return a.AppenderV2.Append(ref, l, st, t, v, h, fh, opts)
}

func (a *fakeAppenderV2) Commit() error   { return commitFake(a.s, a.AppenderV2) }
func (a *fakeAppenderV2) Rollback() error { return rollbackFake(a.s, a.AppenderV2) }

func commitFake(s *fakeStorage, tx storage.AppenderTransaction) error {
	if s.e.hit(s.idx, "commit", 0, 0) {
		// a failing Commit rolls back (AppenderTransaction contract)
		tx.Rollback()
		s.e.mu.Lock()
		s.e.session[s.idx].commitFail++
		s.e.mu.Unlock()
		return injected(s.idx, "Commit")
	}
	err := tx.Commit()
	s.e.mu.Lock()
	s.e.session[s.idx].committed++
	s.e.mu.Unlock()
	return err
}

func rollbackFake(s *fakeStorage, tx storage.AppenderTransaction) error {
	err := tx.Rollback()
	s.e.mu.Lock()
	s.e.session[s.idx].rolledBack++
	s.e.mu.Unlock()
	return err
}

// ---------------------------------------------------------------- model

// content: series key → t → value key.
type content map[string]map[int64]string

func (m content) add(key string, t int64, vk string) {
	if m[key] == nil {
		m[key] = map[int64]string{}
	}
	m[key][t] = vk
}

func (m content) clone() content {
	c := content{}
	for k, v := range m {
		c[k] = map[int64]string{}
		for t, x := range v {
			c[k][t] = x
		}
	}
	return c
}

func contentOf(d tsdbx.Dump) content {
	m := content{}
	for k, ss := range d {
		for _, s := range ss {
			m.add(k, s.T, s.ValKey())
		}
	}
	return m
}

func equalContent(a, b content) string {
	for k, ma := range a {
		for t, v := range ma {
			if w, ok := b[k][t]; !ok || w != v {
				return fmt.Sprintf("series %s t=%d: %q vs %q (present=%v)", k, t, v, w, ok)
			}
		}
	}
	for k, mb := range b {
		for t, v := range mb {
			if _, ok := a[k][t]; !ok {
				return fmt.Sprintf("series %s t=%d: absent vs %q", k, t, v)
			}
		}
	}
	return ""
}

type query struct {
	ms     []*labels.Matcher
	sorted bool
}

func (q query) String() string {
	var parts []string
	for _, m := range q.ms {
		parts = append(parts, m.String())
	}
	return "{" + strings.Join(parts, ",") + "}"
}

func matches(ms []*labels.Matcher, ls labels.Labels) bool {
	for _, m := range ms {
		if !m.Matches(ls.Get(m.Name)) {
			return false
		}
	}
	return true
}

// world is the harness's knowledge of what each storage holds.
type world struct {
	lsets map[string]labels.Labels
	model []content // per storage
}

// expect builds the merged expectation over the storages not in `exclude`.
func (w *world) expect(ms []*labels.Matcher, mint, maxt int64, exclude int) tsdbx.Expect {
	e := tsdbx.Expect{}
	for i, m := range w.model {
		if i == exclude {
			continue
		}
		for key, smp := range m {
			if !matches(ms, w.lsets[key]) {
				continue
			}
			for t, vk := range smp {
				if t >= mint && t <= maxt {
					e.Add(key, t, vk)
				}
			}
		}
	}
	return e
}

// exclusiveVisible reports whether storage st holds a sample visible in (ms, range) that no other storage holds
// with that (series, t).
func (w *world) exclusiveVisible(ms []*labels.Matcher, mint, maxt int64, st int) bool {
	for key, smp := range w.model[st] {
		if !matches(ms, w.lsets[key]) {
			continue
		}
		for t := range smp {
			if t < mint || t > maxt {
				continue
			}
			excl := true
			for j, m := range w.model {
				if j == st {
					continue
				}
				if _, ok := m[key][t]; ok {
					excl = false
					break
				}
			}
			if excl {
				return true
			}
		}
	}
	return false
}

func (w *world) labelValues(name string, ms []*labels.Matcher, exclude int) []string {
	set := map[string]bool{}
	for i, m := range w.model {
		if i == exclude {
			continue
		}
		for key := range m {
			ls := w.lsets[key]
			if !matches(ms, ls) {
				continue
			}
			if v := ls.Get(name); v != "" {
				set[v] = true
			}
		}
	}
	return sortedKeys(set)
}

func (w *world) labelNames(ms []*labels.Matcher, exclude int) []string {
	set := map[string]bool{}
	for i, m := range w.model {
		if i == exclude {
			continue
		}
		for key := range m {
			ls := w.lsets[key]
			if !matches(ms, ls) {
				continue
			}
			ls.Range(func(l labels.Label) { set[l.Name] = true })
		}
	}
	return sortedKeys(set)
}

func sortedKeys(set map[string]bool) []string {
	out := make([]string, 0, len(set))
	for k := range set {
		out = append(out, k)
	}
	sort.Strings(out)
	return out
}

// ---------------------------------------------------------------- draining

type drained struct {
	dump tsdbx.Dump
	err  error
	ws   annotations.Annotations
	dup  string
}

func drainSamples(ss storage.SeriesSet) drained {
	d := drained{dump: tsdbx.Dump{}}
	for ss.Next() {
		s := ss.At()
		key := s.Labels().String()
		smp, err := tsdbx.IterSamples(s.Iterator(nil))
		if err != nil {
			d.err = fmt.Errorf("series %s iterator: %w", key, err)
			return d
		}
		if _, dup := d.dump[key]; dup {
			d.dup = key
		}
		d.dump[key] = append(d.dump[key], smp...)
	}
	d.err = ss.Err()
	d.ws = ss.Warnings()
	return d
}

func drainChunks(ss storage.ChunkSeriesSet, mint, maxt int64) drained {
	d := drained{dump: tsdbx.Dump{}}
	for ss.Next() {
		s := ss.At()
		key := s.Labels().String()
		if _, dup := d.dump[key]; dup {
			d.dup = key
		}
		it := s.Iterator(nil)
		for it.Next() {
			m := it.At()
			if m.Chunk == nil {
				d.err = fmt.Errorf("series %s: nil chunk in merged chunk series", key)
				return d
			}
			smp, err := tsdbx.IterSamples(m.Chunk.Iterator(nil))
			if err != nil {
				d.err = fmt.Errorf("series %s chunk: %w", key, err)
				return d
			}
			for _, x := range smp {
				if x.T >= mint && x.T <= maxt {
					d.dump[key] = append(d.dump[key], x)
				}
			}
		}
		if err := it.Err(); err != nil {
			d.err = fmt.Errorf("series %s chunk iterator: %w", key, err)
			return d
		}
	}
	d.err = ss.Err()
	d.ws = ss.Warnings()
	return d
}

// ---------------------------------------------------------------- the case

type reporter struct {
	c     *core.Case
	kinds map[string]bool
}

// violate records at most one witness per kind and case (known kinds would otherwise fill the
// per-case witness budget and hide a different mechanism).
func (r *reporter) violate(kind, format string, args ...any) {
	r.c.Count("violations_"+kind, 1)
	if r.kinds[kind] {
		return
	}
	r.kinds[kind] = true
	r.c.Violatef(kind, format, args...)
}

func run(c *core.Case) {
	r := c.Rng
	nSec := 1 + r.IntN(3)
	n := nSec + 1
	e := &env{c: c, open: map[interface{ Close() error }]bool{}, session: make([]session, n)}
	dir := c.TempDir()
	for i := 0; i < n; i++ {
		opts := tsdb.DefaultOptions()
		opts.NoLockfile = true
		opts.WALSegmentSize = -1 // no WAL: the heads are only data holders here
		opts.StripeSize = 32     // small series hash map: cheap to allocate
		opts.HeadChunksWriteBufferSize = chunks.MinWriteBufferSize
		db, err := tsdb.Open(fmt.Sprintf("%s/s%d", dir, i), tsdbx.NopLogger(), nil, opts, nil)
		core.Must(err, "tsdb.Open")
		db.DisableCompactions()
		e.dbs = append(e.dbs, db)
		e.stores = append(e.stores, &fakeStorage{e: e, idx: i, db: db})
	}
	defer func() {
		e.closeLeaked()
		for _, db := range e.dbs {
			db.Close()
		}
	}()
	e.fan = storage.NewFanout(tsdbx.NopLogger(), e.stores[0], e.stores[1:]...)

	w := &world{lsets: map[string]labels.Labels{}, model: make([]content, n)}
	universe := gen.SeriesSet(r, 4+r.IntN(4))
	isHist := map[string]bool{}
	for _, ls := range universe {
		w.lsets[ls.String()] = ls
		isHist[ls.String()] = r.IntN(7) == 0
	}
	span := int64(20 + r.IntN(60))
	// value chosen for (series,t) by an earlier storage, to make replicated samples common
	type stKey struct {
		k string
		t int64
	}
	prevF := map[stKey]float64{}
	prevH := map[stKey]*histogram.Histogram{}
	ctx := context.Background()
	for i := 0; i < n; i++ {
		w.model[i] = content{}
		if i > 0 && r.IntN(12) == 0 {
			continue // an empty secondary
		}
		app := e.dbs[i].Appender(ctx)
		for _, ls := range universe {
			if r.IntN(100) >= 55 {
				continue
			}
			key := ls.String()
			ns := 1 + r.IntN(6)
			tset := map[int64]bool{}
			for j := 0; j < ns; j++ {
				tset[r.Int64N(span)] = true
			}
			var ts []int64
			for t := range tset {
				ts = append(ts, t)
			}
			sort.Slice(ts, func(a, b int) bool { return ts[a] < ts[b] })
			for _, t := range ts {
				k := stKey{key, t}
				if isHist[key] {
					h, ok := prevH[k]
					if !ok || r.IntN(2) == 0 {
						h = gen.NewAbsHist(r, false).Int(r)
						prevH[k] = h
					}
					_, err := app.AppendHistogram(0, ls, t, h.Copy(), nil)
					core.Must(err, "seeding AppendHistogram")
				} else {
					v, ok := prevF[k]
					if !ok || r.IntN(2) == 0 {
						v = gen.Float(r, true)
						prevF[k] = v
					}
					_, err := app.Append(0, ls, t, v)
					core.Must(err, "seeding Append")
				}
			}
		}
		core.Must(app.Commit(), "seeding Commit")
		w.model[i] = e.dumpDirect(i)
	}

	// ---- the query shape
	var queries []query
	nq := 1
	if r.IntN(3) == 0 {
		nq = 2
	}
	for i := 0; i < nq; i++ {
		queries = append(queries, query{ms: genMatchers(r, universe), sorted: r.IntN(2) == 0})
	}
	mint, maxt := int64(-1), int64(1)<<40
	if r.IntN(2) == 0 {
		a, b := r.Int64N(span), r.Int64N(span)
		if a > b {
			a, b = b, a
		}
		mint, maxt = a, b
	}
	lname := "__name__"
	if r.IntN(2) == 0 {
		ls := gen.Pick(r, universe)
		var names []string
		ls.Range(func(l labels.Label) { names = append(names, l.Name) })
		lname = gen.Pick(r, names)
	}
	lms := queries[0].ms
	if r.IntN(2) == 0 {
		lms = nil
	}

	rep := &reporter{c: c, kinds: map[string]bool{}}
	st := &stats{}
	for _, chunk := range []bool{false, true} {
		e.readScenarios(w, rep, st, chunk, queries, mint, maxt, lname, lms)
	}
	contentKey := fmt.Sprint(w.model, queries, mint, maxt)

	// ---- write path
	e.writeScenarios(w, rep, st, universe, isHist)

	// a last no-fault read over everything: the fanout view equals the merge of what the storages hold now
	e.setPlan(plan{})
	if q, err := e.fan.Querier(-1, 1<<40); err != nil {
		rep.violate("unexpected-querier-error", "no fault injected, Querier() after the write scenarios failed: %v", err)
	} else {
		d := drainSamples(q.Select(ctx, true, nil, tsdbx.MatchAll()))
		q.Close()
		if d.err != nil {
			rep.violate("unexpected-query-error", "no fault injected, Select after the write scenarios failed: %v", d.err)
		} else if diff := tsdbx.Compare(w.expect([]*labels.Matcher{tsdbx.MatchAll()}, -1, 1<<40, -1), d.dump, -1, 1<<40); diff != "" {
			rep.violate("merge-mismatch", "no fault injected, after the write scenarios: %s", diff)
		}
	}
	if k := e.closeLeaked(); k > 0 {
		c.Count("queriers_left_open_by_fanout", int64(k))
	}

	c.Count("read_scenarios", int64(st.read))
	c.Count("read_scenarios_fault_fired", int64(st.readFired))
	c.Count("write_scenarios", int64(st.write))
	c.Count("write_scenarios_fault_fired", int64(st.writeFired))
	c.Count("secondary_fault_judged_with_exclusive_data", int64(st.secExclusive))
	c.Count("primary_read_fault_judged", int64(st.primRead))
	c.Count("primary_commit_fault_judged", int64(st.primCommit))
	c.Seen("secondaries", fmt.Sprint(nSec))
	if st.secExclusive > 0 && st.primRead > 0 && st.primCommit > 0 {
		c.Nontrivial(contentKey)
	}
	if c.Idx < 3 {
		var qs []string
		for _, q := range queries {
			qs = append(qs, q.String())
		}
		sizes := make([]int, n)
		for i := range w.model {
			for _, m := range w.model[i] {
				sizes[i] += len(m)
			}
		}
		c.Sample(map[string]any{"storages": n, "samples_per_storage_at_end": sizes, "queries": qs, "mint": mint, "maxt": maxt,
			"read_scenarios": st.read, "write_scenarios": st.write, "label_query": lname})
	}
}

type stats struct {
	read, readFired, write, writeFired int
	secExclusive, primRead, primCommit int
}

func genMatchers(r *rand.Rand, universe []labels.Labels) []*labels.Matcher {
	switch r.IntN(5) {
	case 0, 1:
		return []*labels.Matcher{tsdbx.MatchAll()}
	case 2:
		ls := gen.Pick(r, universe)
		return []*labels.Matcher{labels.MustNewMatcher(labels.MatchEqual, "__name__", ls.Get("__name__"))}
	case 3:
		ls := gen.Pick(r, universe)
		var ll []labels.Label
		ls.Range(func(l labels.Label) { ll = append(ll, l) })
		l := gen.Pick(r, ll)
		return []*labels.Matcher{tsdbx.MatchAll(), labels.MustNewMatcher(labels.MatchNotEqual, l.Name, l.Value)}
	default:
		ls := gen.Pick(r, universe)
		var ll []labels.Label
		ls.Range(func(l labels.Label) { ll = append(ll, l) })
		l := gen.Pick(r, ll)
		return []*labels.Matcher{labels.MustNewMatcher(labels.MatchEqual, l.Name, l.Value)}
	}
}

// dumpDirect reads storage i directly (not through the fanout, no faults).
func (e *env) dumpDirect(i int) content {
	q, err := e.dbs[i].Querier(-1<<62, 1<<62)
	core.Must(err, "direct Querier")
	defer q.Close()
	d, _, err := tsdbx.DumpQuerier(q)
	core.Must(err, "direct dump")
	return contentOf(d)
}

// ---------------------------------------------------------------- read path

func (e *env) readScenarios(w *world, rep *reporter, st *stats, chunk bool, queries []query, mint, maxt int64, lname string, lms []*labels.Matcher) {
	n := len(e.dbs)
	plans := []plan{{}}
	for s := 0; s < n; s++ {
		plans = append(plans, plan{active: true, storage: s, point: "querier"})
		for sel := range queries {
			plans = append(plans, plan{active: true, storage: s, point: "select", sel: sel})
			// number of series the storage returns for this select bounds the useful k
			nser := 0
			for key, smp := range w.model[s] {
				if !matches(queries[sel].ms, w.lsets[key]) {
					continue
				}
				for t := range smp {
					if t >= mint && t <= maxt {
						nser++
						break
					}
				}
			}
			for k := 1; k <= nser+1; k++ {
				plans = append(plans, plan{active: true, storage: s, point: "next", sel: sel, n: k})
			}
		}
	}
	for _, p := range plans {
		e.selectScenario(w, rep, st, chunk, p, queries, mint, maxt)
	}
	lplans := []plan{{}}
	for s := 0; s < n; s++ {
		lplans = append(lplans, plan{active: true, storage: s, point: "querier"},
			plan{active: true, storage: s, point: "labelvalues"}, plan{active: true, storage: s, point: "labelnames"})
	}
	for _, p := range lplans {
		e.labelScenario(w, rep, st, chunk, p, lname, lms)
	}
}

type selectQuerier interface {
	Close() error
}

func api(chunk bool) string {
	if chunk {
		return "ChunkQuerier"
	}
	return "Querier"
}

// openFanout opens the fanout querier and judges creation faults. ok=false: scenario is over.
func (e *env) openFanout(rep *reporter, st *stats, chunk bool, p plan, mint, maxt int64) (q storage.Querier, cq storage.ChunkQuerier, ok bool) {
	var err error
	if chunk {
		cq, err = e.fan.ChunkQuerier(mint, maxt)
	} else {
		q, err = e.fan.Querier(mint, maxt)
	}
	fired := e.wasFired()
	switch {
	case err != nil && fired && p.point == "querier" && p.storage == 0:
		st.primRead++ // the primary failed: the query fails
		return nil, nil, false
	case err != nil && fired && p.point == "querier" && p.storage > 0 && errors.Is(err, errInjected):
		rep.violate(kindSecondaryCreation, "%s: fanout.%s(%d,%d) returned an error although only a secondary failed (statement: the query still succeeds with the primary's and the other secondaries' results and reports a warning): %v", p, api(chunk), mint, maxt, err)
		return nil, nil, false
	case err != nil:
		rep.violate("unexpected-querier-error", "%s: fanout.%s(%d,%d) failed: %v", p, api(chunk), mint, maxt, err)
		return nil, nil, false
	case fired && p.point == "querier" && p.storage == 0:
		rep.violate("primary-failure-not-propagated", "%s: fanout.%s succeeded although the primary's querier could not be created", p, api(chunk))
		if q != nil {
			q.Close()
		} else {
			cq.Close()
		}
		return nil, nil, false
	}
	return q, cq, true
}

func (e *env) selectScenario(w *world, rep *reporter, st *stats, chunk bool, p plan, queries []query, mint, maxt int64) {
	ctx := context.Background()
	e.setPlan(p)
	st.read++
	q, cq, ok := e.openFanout(rep, st, chunk, p, mint, maxt)
	if e.wasFired() {
		st.readFired++
	}
	if !ok {
		return
	}
	// all Selects first (secondaryQuerier forbids a Select after the first Next), then drain in order
	res := make([]drained, len(queries))
	if chunk {
		sets := make([]storage.ChunkSeriesSet, len(queries))
		for i, qu := range queries {
			sets[i] = cq.Select(ctx, qu.sorted, nil, qu.ms...)
		}
		for i := range sets {
			res[i] = drainChunks(sets[i], mint, maxt)
		}
		cq.Close()
	} else {
		sets := make([]storage.SeriesSet, len(queries))
		for i, qu := range queries {
			sets[i] = q.Select(ctx, qu.sorted, nil, qu.ms...)
		}
		for i := range sets {
			res[i] = drainSamples(sets[i])
		}
		q.Close()
	}
	fired := e.wasFired()
	if fired && p.point != "querier" {
		st.readFired++
	}
	if p.point == "querier" && p.storage > 0 && fired {
		// creation fault on a secondary tolerated by the fanout: judged like a failed secondary below
		e.c.Count("secondary_creation_fault_tolerated", 1)
	}
	failed := -1 // storage that failed in this scenario
	if fired {
		failed = p.storage
	}
	anyWarning := false
	for i := range res {
		if len(res[i].ws) > 0 {
			anyWarning = true
		}
	}
	desc := func(i int) string {
		return fmt.Sprintf("%s, %s [%d,%d] Select#%d %s", p, api(chunk), mint, maxt, i, queries[i])
	}
	for i, d := range res {
		if d.dup != "" {
			rep.violate("duplicate-series", "%s: series %s returned twice by the merged set", desc(i), d.dup)
			continue
		}
		faultHere := fired && (p.point == "querier" || p.sel == i)
		switch {
		case failed == 0 && faultHere:
			// the primary failed in this Select: the query must fail
			if d.err == nil {
				rep.violate("primary-failure-not-propagated", "%s: the primary failed but the merged set reports Err()==nil (returned series: %s)", desc(i), strings.TrimSpace(d.dump.Brief()))
			} else {
				st.primRead++
			}
		case failed > 0:
			without := tsdbx.Compare(w.expect(queries[i].ms, mint, maxt, failed), d.dump, mint, maxt)
			if d.err != nil {
				if faultHere && p.point == "next" && p.n >= 2 && errors.Is(d.err, errInjected) {
					rep.violate(kindSecondaryLaterNext, "%s: the secondary failed on a Next() call after its first one; the merged set fails with Err()=%v instead of succeeding without that secondary and with a warning", desc(i), d.err)
				} else {
					rep.violate("secondary-failure-fails-query", "%s: only a secondary failed but the merged set reports Err()=%v", desc(i), d.err)
				}
				continue
			}
			if faultHere {
				if without != "" {
					kind := "failed-secondary-result-mismatch"
					rep.violate(kind, "%s: Err()==nil but the result is not the merge of the remaining storages: %s", desc(i), without)
					continue
				}
				if !anyWarning {
					rep.violate("secondary-failure-without-warning", "%s: the secondary failed, the query succeeded, but no result set of the querier reports a warning", desc(i))
					continue
				}
				if w.exclusiveVisible(queries[i].ms, mint, maxt, failed) {
					st.secExclusive++
				}
			} else if without != "" {
				// the fault was in the other Select of this querier: all-or-nothing per secondary
				with := tsdbx.Compare(w.expect(queries[i].ms, mint, maxt, -1), d.dump, mint, maxt)
				if with != "" {
					rep.violate("failed-secondary-partial-result", "%s: neither the full merge (%s) nor the merge without the failed secondary (%s)", desc(i), with, without)
				} else {
					e.c.Count("other_select_kept_failed_secondary", 1)
				}
			}
		default:
			// no failure concerns this Select
			if d.err != nil {
				rep.violate("unexpected-query-error", "%s: nothing failed for this Select but Err()=%v", desc(i), d.err)
				continue
			}
			if diff := tsdbx.Compare(w.expect(queries[i].ms, mint, maxt, -1), d.dump, mint, maxt); diff != "" {
				rep.violate("merge-mismatch", "%s: %s", desc(i), diff)
			}
		}
	}
}

func (e *env) labelScenario(w *world, rep *reporter, st *stats, chunk bool, p plan, lname string, lms []*labels.Matcher) {
	ctx := context.Background()
	e.setPlan(p)
	st.read++
	mint, maxt := int64(-1), int64(1)<<40
	q, cq, ok := e.openFanout(rep, st, chunk, p, mint, maxt)
	if !ok {
		if e.wasFired() {
			st.readFired++
		}
		return
	}
	var lq storage.LabelQuerier = q
	if chunk {
		lq = cq
	}
	defer lq.Close()
	type outcome struct {
		what string
		got  []string
		ws   annotations.Annotations
		err  error
		want func(exclude int) []string
		pt   string
	}
	var outs []outcome
	vals, ws, err := lq.LabelValues(ctx, lname, nil, lms...)
	outs = append(outs, outcome{fmt.Sprintf("LabelValues(%q, %s)", lname, query{ms: lms}), vals, ws, err, func(x int) []string { return w.labelValues(lname, lms, x) }, "labelvalues"})
	names, ws2, err2 := lq.LabelNames(ctx, nil, lms...)
	outs = append(outs, outcome{fmt.Sprintf("LabelNames(%s)", query{ms: lms}), names, ws2, err2, func(x int) []string { return w.labelNames(lms, x) }, "labelnames"})
	fired := e.wasFired()
	if fired {
		st.readFired++
	}
	for _, o := range outs {
		d := fmt.Sprintf("%s, %s.%s", p, api(chunk), o.what)
		faultHere := fired && (p.point == "querier" || p.point == o.pt)
		switch {
		case faultHere && p.storage == 0:
			if o.err == nil {
				rep.violate("primary-failure-not-propagated", "%s: the primary failed but the call returned no error (result %q)", d, o.got)
			} else {
				st.primRead++
			}
		case faultHere:
			if o.err != nil {
				rep.violate("secondary-failure-fails-query", "%s: only a secondary failed but the call returned %v", d, o.err)
				continue
			}
			want := o.want(p.storage)
			if !equalStrings(o.got, want) {
				rep.violate("failed-secondary-result-mismatch", "%s: got %q, the merge of the remaining storages is %q", d, o.got, want)
				continue
			}
			if len(o.ws) == 0 {
				rep.violate("secondary-failure-without-warning", "%s: the secondary failed, the call succeeded, but no warning was returned", d)
				continue
			}
			if !equalStrings(want, o.want(-1)) {
				st.secExclusive++
			}
		default:
			if o.err != nil {
				rep.violate("unexpected-query-error", "%s: nothing failed for this call but it returned %v", d, o.err)
				continue
			}
			if want := o.want(-1); !equalStrings(o.got, want) {
				rep.violate("merge-mismatch", "%s: got %q want %q", d, o.got, want)
			}
		}
	}
}

func equalStrings(a, b []string) bool {
	if len(a) != len(b) {
		return false
	}
	for i := range a {
		if a[i] != b[i] {
			return false
		}
	}
	return true
}

// ---------------------------------------------------------------- write path

type wsample struct {
	ls  labels.Labels
	t   int64
	f   float64
	h   *histogram.Histogram
	err error
}

func (s wsample) valKey() string {
	if s.h != nil {
		return tsdbx.Sample{Kind: "h", H: s.h}.ValKey()
	}
	return tsdbx.Sample{Kind: "f", F: s.f}.ValKey()
}

func (e *env) writeScenarios(w *world, rep *reporter, st *stats, universe []labels.Labels, isHist map[string]bool) {
	r := e.c.Rng
	n := len(e.dbs)
	batchLen := 3 + r.IntN(4)
	plans := []plan{{}}
	for s := 0; s < n; s++ {
		plans = append(plans, plan{active: true, storage: s, point: "commit"})
		plans = append(plans, plan{active: true, storage: s, point: "append", n: 1 + r.IntN(batchLen)})
		if r.IntN(2) == 0 {
			plans = append(plans, plan{active: true, storage: s, point: "append", n: 1 + r.IntN(batchLen)})
		}
	}
	r.Shuffle(len(plans), func(i, j int) { plans[i], plans[j] = plans[j], plans[i] })
	refs := map[string]storage.SeriesRef{}
	for wi, p := range plans {
		// the batch: later timestamps than anything stored, increasing per series
		base := int64(1000 * (wi + 1))
		var batch []wsample
		for j := 0; j < batchLen; j++ {
			var ls labels.Labels
			if r.IntN(4) == 0 {
				ls = labels.FromStrings("__name__", "written", "w", fmt.Sprint(r.IntN(3)))
				w.lsets[ls.String()] = ls
			} else {
				ls = gen.Pick(r, universe)
			}
			s := wsample{ls: ls, t: base + int64(j)}
			if isHist[ls.String()] {
				s.h = gen.NewAbsHist(r, false).Int(r)
			} else {
				s.f = gen.Float(r, true)
			}
			batch = append(batch, s)
		}
		v2 := r.IntN(2) == 0
		rollbackOnErr := r.IntN(2) == 0
		e.writeScenario(w, rep, st, p, batch, v2, rollbackOnErr, refs)
	}
}

func (e *env) writeScenario(w *world, rep *reporter, st *stats, p plan, batch []wsample, v2, rollbackOnErr bool, refs map[string]storage.SeriesRef) {
	ctx := context.Background()
	n := len(e.dbs)
	e.setPlan(p)
	st.write++
	apiName := "Appender"
	if v2 {
		apiName = "AppenderV2"
	}
	var app1 storage.Appender
	var app2 storage.AppenderV2
	if v2 {
		app2 = e.fan.AppenderV2(ctx)
	} else {
		app1 = e.fan.Appender(ctx)
	}
	rolledBack := false
	for i := range batch {
		s := &batch[i]
		key := s.ls.String()
		ref := refs[key]
		if e.c.Rng.IntN(3) == 0 {
			ref = 0
		}
		var nref storage.SeriesRef
		var err error
		switch {
		case v2:
			var h *histogram.Histogram
			if s.h != nil {
				h = s.h.Copy()
			}
			nref, err = app2.Append(ref, s.ls, 0, s.t, s.f, h, nil, storage.AOptions{})
		case s.h != nil:
			nref, err = app1.AppendHistogram(ref, s.ls, s.t, s.h.Copy(), nil)
		default:
			nref, err = app1.Append(ref, s.ls, s.t, s.f)
		}
		s.err = err
		if err != nil {
			if !errors.Is(err, errInjected) {
				rep.violate("unexpected-append-error", "%s, %s: Append #%d (%s t=%d) failed with a non-injected error: %v", p, apiName, i+1, key, s.t, err)
			}
			if rollbackOnErr {
				if v2 {
					app2.Rollback()
				} else {
					app1.Rollback()
				}
				rolledBack = true
				break
			}
			continue
		}
		if nref != 0 {
			refs[key] = nref
		}
	}
	var cerr error
	if !rolledBack {
		if v2 {
			cerr = app2.Commit()
		} else {
			cerr = app1.Commit()
		}
	}
	fired := e.wasFired()
	if fired {
		st.writeFired++
	}
	e.mu.Lock()
	sess := append([]session(nil), e.session...)
	e.mu.Unlock()
	after := make([]content, n)
	for i := 0; i < n; i++ {
		after[i] = e.dumpDirect(i)
	}
	d := fmt.Sprintf("%s, %s, batch of %d", p, apiName, len(batch))
	for i := range sess {
		if sess[i].opened != sess[i].committed+sess[i].commitFail+sess[i].rolledBack {
			e.c.Count("sub_appenders_not_completed_exactly_once", 1)
		}
	}
	switch {
	case rolledBack:
		e.c.Count("write_scenarios_rolled_back_by_caller", 1)
		for i := 0; i < n; i++ {
			if equalContent(w.model[i], after[i]) != "" {
				e.c.Count("caller_rollback_left_data", 1)
			}
		}
	case fired && p.point == "commit" && p.storage == 0:
		// primary commit failed: Commit must fail and no secondary may commit
		if cerr == nil {
			rep.violate("primary-commit-failure-not-reported", "%s: the primary's Commit failed but fanout Commit returned nil", d)
		}
		bad := false
		for i := 1; i < n; i++ {
			if sess[i].committed > 0 {
				rep.violate("secondary-committed-after-primary-commit-failure", "%s: secondary#%d's Commit was called although the primary's Commit failed", d, i)
				bad = true
			} else if diff := equalContent(w.model[i], after[i]); diff != "" {
				rep.violate("secondary-committed-after-primary-commit-failure", "%s: secondary#%d changed although the primary's Commit failed: %s", d, i, diff)
				bad = true
			}
		}
		if !bad && cerr != nil {
			st.primCommit++
		}
	case cerr == nil:
		// a committed append reaches the primary and every secondary
		if fired && p.point == "commit" {
			rep.violate("secondary-commit-failure-not-reported", "%s: the secondary's Commit failed but fanout Commit returned nil (the batch cannot have reached every secondary)", d)
		}
		for i := 0; i < n; i++ {
			allowed := w.model[i].clone()
			for _, s := range batch {
				allowed.add(s.ls.String(), s.t, s.valKey())
			}
			for _, s := range batch {
				if s.err != nil {
					continue
				}
				got, ok := after[i][s.ls.String()][s.t]
				if !ok || got != s.valKey() {
					rep.violate("committed-append-missing", "%s: Commit returned nil but storage %d does not hold accepted sample %s t=%d (%s); found %q present=%v", d, i, s.ls, s.t, s.valKey(), got, ok)
					break
				}
			}
			for key, m := range after[i] {
				for t, vk := range m {
					if a, ok := allowed[key][t]; !ok || a != vk {
						// a batch may contain the same (series,t) twice only if generated so; timestamps are unique per batch
						rep.violate("alien-sample-after-commit", "%s: storage %d holds %s t=%d %s which is neither old data nor part of the batch", d, i, key, t, vk)
					}
				}
			}
			for key, m := range w.model[i] {
				for t, vk := range m {
					if after[i][key][t] != vk {
						rep.violate("old-sample-lost-after-commit", "%s: storage %d lost or changed %s t=%d", d, i, key, t)
					}
				}
			}
		}
	default:
		// Commit failed without a primary commit fault
		if !fired {
			rep.violate("unexpected-commit-error", "%s: nothing failed but fanout Commit returned %v", d, cerr)
		}
	}
	// resynchronise the model with what the storages hold now
	for i := 0; i < n; i++ {
		w.model[i] = after[i]
	}
}
