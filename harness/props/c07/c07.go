// Package c07: LeveledCompactor.Compact / Write output = de-duplicated union of the inputs
// within the output range minus tombstoned intervals, with ordered chunk metas and exact stats.
package c07

import (
	"context"
	"fmt"
	"math"
	"math/rand/v2"
	"path/filepath"
	"sort"
	"strings"

	"github.com/oklog/ulid/v2"

	"github.com/prometheus/prometheus/model/labels"
	"github.com/prometheus/prometheus/storage"
	"github.com/prometheus/prometheus/tsdb"
	"github.com/prometheus/prometheus/tsdb/chunkenc"
	"github.com/prometheus/prometheus/tsdb/chunks"
	"github.com/prometheus/prometheus/tsdb/index"

	"verif/internal/core"
	"verif/internal/gen"
	"verif/internal/tsdbx"
)

func init() {
	core.Register(&core.Prop{
		ID:        "C07",
		Title:     "Compaction preserves the union of its inputs",
		Level:     "exploration",
		Technique: "runtime monitor with a reference model: real heads/blocks are built from generated sample sets, real LeveledCompactor.Write/Compact/CleanTombstones run, outputs are read back through block queriers and the raw index/chunk readers and compared with a set-union model",
		LevelText: "Block mode: 1-6 input blocks are produced by LeveledCompactor.Write from real in-memory heads (random series subsets of a shared per-series sample universe so that overlapping blocks hold true duplicates, plus conflicting values and sample-type switches at equal timestamps; float/XOR and XOR2, integer- and float-histogram chunks, optional ST histogram encodings; small chunk ranges and samples-per-chunk so every series has many chunks; nested, chained, identical, disjoint and random block ranges, negative times; head data outside the written range). Each Write output must equal the model restricted to [mint,maxt). Tombstones are added with Block.Delete on intervals placed on and next to chunk boundaries. Then Compact (compacting merger with XOR or XOR2 re-encoding, default or passed as MergeFunc; sometimes tiny chunk segment files) or, for one block, Block.CleanTombstones runs; the output's samples (sample querier, chunk querier, raw chunk walk) must be exactly the union over the inputs of the non-deleted samples, value at each timestamp one of the input values; raw chunk metas of each series must be time-ordered, non-overlapping and carry the first/last sample time; BlockMeta.Stats must equal a recount (series, chunks, samples, float and histogram samples by decoded sample type). OOO mode: a head with an out-of-order window receives in-order and out-of-order samples; the in-order RangeHead and the OOOCompactionHead clones (chunk-range aligned windows, as DB.compactOOO cuts them) are written with Write and compared with a raw walk of the same reader restricted to the window; all resulting (overlapping) blocks are compacted and must equal the set of accepted samples. Held on the observed cases only.",
		LevelNote: "Trusted: the append path of the head for building inputs (a sample counts as accepted when Append returned nil; in block mode the Write output is compared with that model, so a head defect would show up as a Write violation), Block.Delete's matcher evaluation, the decoders used to read outputs back. In OOO mode the expectation of a single Write is the raw chunk walk of its own input reader (differential), only the final compaction is compared with the append model; if the split into in-order/OOO readers does not cover the accepted samples the case is inconclusive, not a violation. Histogram values are compared layout-independently (gen.HistKey), counter-reset hints are not compared. An empty result (no block written) is accepted iff the model is empty. The concatenating merger is not exercised: its documented output order ('might be overlapping and unsorted', heap order of the inputs) is rejected by the index writer even for time-disjoint blocks, so the compaction API does not admit it.",
		DesignRef: "DESIGN.md §5 C07",
		Rule:      "case = one generated input set + one compaction; non-trivial iff a Compact/CleanTombstones output block with >=1 expected sample was compared completely and the inputs had a duplicate (series,t) across blocks, a tombstoned sample, a multi-type series or OOO samples; distinct by a hash of the expected output and the configuration",
		Assumptions: []string{
			"dirs are passed to Compact sorted by MinTime, as Plan returns them",
			"Block.Delete(mint,maxt,ms) deletes the closed interval [mint,maxt] of the matching series",
		},
		Cases: func(variant string, tier core.Tier) int {
			if variant != "default" {
				return 0
			}
			if tier == core.Thorough {
				return 5000
			}
			return 250
		},
		Run: run,
		MinNontrivial: func(t core.Tier) int {
			if t == core.Thorough {
				return 2500
			}
			return 120
		},
		CaseTimeoutSec: 180,
	})
}

// ---------------------------------------------------------------- model

type sample = tsdbx.Sample

// blockModel: series key -> t -> sample (one head-built block holds one sample per (series,t)).
type blockModel map[string]map[int64]sample

func (m blockModel) put(key string, s sample) {
	if m[key] == nil {
		m[key] = map[int64]sample{}
	}
	m[key][s.T] = s
}

func (m blockModel) count() int {
	n := 0
	for _, x := range m {
		n += len(x)
	}
	return n
}

func (m blockModel) addTo(e tsdbx.Expect) {
	for k, x := range m {
		for t, s := range x {
			e.Add(k, t, s.ValKey())
		}
	}
}

func expectHash(e tsdbx.Expect) string {
	var ks []string
	for k := range e {
		ks = append(ks, k)
	}
	sort.Strings(ks)
	var sb strings.Builder
	for _, k := range ks {
		var ts []int64
		for t := range e[k] {
			ts = append(ts, t)
		}
		sort.Slice(ts, func(i, j int) bool { return ts[i] < ts[j] })
		sb.WriteString(k)
		for _, t := range ts {
			var vs []string
			for v := range e[k][t] {
				vs = append(vs, v)
			}
			sort.Strings(vs)
			fmt.Fprintf(&sb, "|%d=%s", t, strings.Join(vs, ","))
		}
		sb.WriteString("\n")
	}
	return sb.String()
}

// ---------------------------------------------------------------- generation

type seriesDef struct {
	lset    labels.Labels
	key     string
	id      string
	profile int // 0 float, 1 int histogram, 2 float histogram, 3 mixed
	uni     map[int64]sample
	times   []int64
}

func genValue(r *rand.Rand, kind string, t int64, cur **gen.AbsHist, staleOK bool) sample {
	switch kind {
	case "f":
		return sample{T: t, Kind: "f", F: gen.Float(r, staleOK)}
	case "h":
		*cur = (*cur).Mutate(r)
		return sample{T: t, Kind: "h", H: (*cur).Int(r)}
	default:
		*cur = (*cur).Mutate(r)
		return sample{T: t, Kind: "fh", FH: (*cur).Float(r)}
	}
}

func genSeries(r *rand.Rand, n int, lo, hi int64) []*seriesDef {
	base := gen.SeriesSet(r, n)
	out := make([]*seriesDef, n)
	for i := range out {
		id := fmt.Sprint(i)
		ls := labels.NewBuilder(base[i]).Set("id", id).Labels()
		sd := &seriesDef{lset: ls, key: ls.String(), id: id, profile: r.IntN(4), uni: map[int64]sample{}}
		cur := gen.NewAbsHist(r, true)
		kind := []string{"f", "h", "fh", "f"}[sd.profile]
		step := int64(1 + r.IntN(4))
		for t := lo + int64(r.IntN(5)); t <= hi; t += 1 + r.Int64N(step) {
			if sd.profile == 3 && r.IntN(8) == 0 {
				kind = []string{"f", "h", "fh"}[r.IntN(3)]
			}
			sd.uni[t] = genValue(r, kind, t, &cur, sd.profile == 0)
			sd.times = append(sd.times, t)
			if r.IntN(25) == 0 {
				t += int64(r.IntN(60)) // a gap
			}
		}
		out[i] = sd
	}
	return out
}

func conflicting(r *rand.Rand, sd *seriesDef, s sample) sample {
	cur := gen.NewAbsHist(r, true)
	kind := s.Kind
	if sd.profile == 3 && r.IntN(2) == 0 {
		kind = []string{"f", "h", "fh"}[r.IntN(3)]
	}
	if kind == "f" {
		return sample{T: s.T, Kind: "f", F: float64(1000 + r.IntN(1000))}
	}
	return genValue(r, kind, s.T, &cur, false)
}

func genBlockRanges(r *rand.Rand, n int, lo, hi int64) [][2]int64 {
	span := hi - lo + 1
	out := make([][2]int64, n)
	switch pattern := r.IntN(6); pattern {
	case 0: // disjoint consecutive pieces, some gaps
		w := span / int64(n)
		for i := range out {
			a := lo + int64(i)*w
			b := a + w
			if r.IntN(4) == 0 && w > 4 {
				b -= r.Int64N(w / 2)
			}
			out[i] = [2]int64{a, max(b, a+1)}
		}
	case 1: // identical
		a := lo + r.Int64N(span/2)
		b := a + 1 + r.Int64N(hi+1-a)
		for i := range out {
			out[i] = [2]int64{a, b}
		}
	case 2: // nested
		a, b := lo, hi+1
		for i := range out {
			out[i] = [2]int64{a, b}
			if b-a > 8 {
				a += r.Int64N((b - a) / 4)
				b -= r.Int64N((b - a) / 4)
			}
		}
	case 3: // chained
		w := max(span*2/int64(n+1), 4)
		for i := range out {
			a := lo + int64(i)*w/2
			out[i] = [2]int64{a, a + w - r.Int64N(w/4+1)}
		}
	default: // random
		for i := range out {
			a := lo + r.Int64N(span)
			out[i] = [2]int64{a, a + 1 + r.Int64N(max(hi+1-a, 1))}
		}
	}
	return out
}

// ---------------------------------------------------------------- building inputs

type headCfg struct {
	chunkRange      int64
	samplesPerChunk int
	xor2            bool
	histST          bool
	oooWindow       int64
	oooCap          int64
}

func genHeadCfg(r *rand.Rand) headCfg {
	return headCfg{
		chunkRange:      []int64{25, 60, 150, 1000, 100000}[r.IntN(5)],
		samplesPerChunk: []int{3, 7, 20, 120}[r.IntN(4)],
		xor2:            r.IntN(4) == 0,
		histST:          r.IntN(6) == 0,
	}
}

func newHead(c *core.Case, cfg headCfg) *tsdb.Head {
	opts := tsdb.DefaultHeadOptions()
	opts.ChunkRange = cfg.chunkRange
	opts.ChunkDirRoot = c.TempDir()
	opts.SamplesPerChunk = cfg.samplesPerChunk
	opts.StripeSize = 32
	if cfg.xor2 {
		opts.FloatChunkEncoding.Store(uint32(chunkenc.EncXOR2))
	}
	opts.EnableHistogramSTEncoding.Store(cfg.histST)
	if cfg.oooWindow > 0 {
		opts.OutOfOrderTimeWindow.Store(cfg.oooWindow)
		opts.OutOfOrderCapMax.Store(cfg.oooCap)
	}
	h, err := tsdb.NewHead(nil, tsdbx.NopLogger(), nil, nil, opts, nil)
	core.Must(err, "NewHead")
	core.Must(h.Init(math.MinInt64), "Head.Init")
	return h
}

func appendOne(app storage.Appender, ls labels.Labels, s sample) error {
	var err error
	switch s.Kind {
	case "f":
		_, err = app.Append(0, ls, s.T, s.F)
	case "h":
		_, err = app.AppendHistogram(0, ls, s.T, s.H.Copy(), nil)
	default:
		_, err = app.AppendHistogram(0, ls, s.T, nil, s.FH.Copy())
	}
	return err
}

type pending struct {
	sd *seriesDef
	s  sample
}

// fillHead appends the samples in global time order, one commit per timestamp (so that sample
// type switches never share a commit and the head's lower time bound is never hit).
func fillHead(c *core.Case, h *tsdb.Head, ps []pending) blockModel {
	sort.SliceStable(ps, func(i, j int) bool { return ps[i].s.T < ps[j].s.T })
	m := blockModel{}
	ctx := context.Background()
	for i := 0; i < len(ps); {
		j := i
		app := h.Appender(ctx)
		for ; j < len(ps) && ps[j].s.T == ps[i].s.T; j++ {
			if err := appendOne(app, ps[j].sd.lset, ps[j].s); err != nil {
				c.Count("input_appends_rejected", 1)
				c.Logf("append rejected: %s %s: %v", ps[j].sd.key, ps[j].s, err)
				continue
			}
			m.put(ps[j].sd.key, ps[j].s)
		}
		core.Must(app.Commit(), "commit input samples")
		i = j
	}
	return m
}

func newCompactor(r *rand.Rand) (*tsdb.LeveledCompactor, string) {
	opts := tsdb.LeveledCompactorOptions{EnableOverlappingCompaction: true}
	desc := "compacting/xor"
	switch r.IntN(4) {
	case 0:
		opts.FloatChunkEncoding = func() chunkenc.Encoding { return chunkenc.EncXOR2 }
		desc = "compacting/xor2"
	case 1: // the same merger, passed explicitly as MergeFunc
		opts.MergeFunc = storage.NewCompactingChunkSeriesMerger(storage.ChainedSeriesMerge)
		desc = "compacting/explicit"
	}
	if r.IntN(10) == 0 {
		opts.MaxBlockChunkSegmentSize = 2048 // several segment files (each costs an 8 MiB buffer)
		desc += "/seg2k"
	}
	comp, err := tsdb.NewLeveledCompactorWithOptions(context.Background(), nil, tsdbx.NopLogger(), []int64{100, 400}, nil, opts)
	core.Must(err, "NewLeveledCompactorWithOptions")
	return comp, desc
}

// ---------------------------------------------------------------- reading back

type rawChunk struct {
	Min, Max int64
	Samples  []sample
}

// rawWalk reads every series and chunk through the block's own index and chunk readers.
func rawWalk(br tsdb.BlockReader) (map[string][]rawChunk, error) {
	ir, err := br.Index()
	if err != nil {
		return nil, fmt.Errorf("index reader: %w", err)
	}
	defer ir.Close()
	cr, err := br.Chunks()
	if err != nil {
		return nil, fmt.Errorf("chunk reader: %w", err)
	}
	defer cr.Close()
	k, v := index.AllPostingsKey()
	p, err := ir.Postings(context.Background(), k, v)
	if err != nil {
		return nil, fmt.Errorf("postings: %w", err)
	}
	p = ir.SortedPostings(p)
	out := map[string][]rawChunk{}
	var b labels.ScratchBuilder
	var chks []chunks.Meta
	for p.Next() {
		if err := ir.Series(p.At(), &b, &chks); err != nil {
			return nil, fmt.Errorf("series %d: %w", p.At(), err)
		}
		key := b.Labels().String()
		if _, dup := out[key]; dup {
			return nil, fmt.Errorf("series %s listed twice in the index", key)
		}
		out[key] = nil
		for _, m := range chks {
			chk, iterable, err := cr.ChunkOrIterable(m)
			if err != nil {
				return nil, fmt.Errorf("series %s chunk [%d,%d]: %w", key, m.MinTime, m.MaxTime, err)
			}
			var it chunkenc.Iterator
			if chk != nil {
				it = chk.Iterator(nil)
			} else {
				it = iterable.Iterator(nil)
			}
			smp, err := tsdbx.IterSamples(it)
			if err != nil {
				return nil, fmt.Errorf("series %s chunk [%d,%d]: decode: %w", key, m.MinTime, m.MaxTime, err)
			}
			out[key] = append(out[key], rawChunk{Min: m.MinTime, Max: m.MaxTime, Samples: smp})
		}
	}
	return out, p.Err()
}

// expectFromRaw turns a raw walk of an input reader into the expectation for [mint,maxt].
func expectFromRaw(raw map[string][]rawChunk, mint, maxt int64) tsdbx.Expect {
	e := tsdbx.Expect{}
	for k, cs := range raw {
		for _, ch := range cs {
			for _, s := range ch.Samples {
				if s.T >= mint && s.T <= maxt {
					e.Add(k, s.T, s.ValKey())
				}
			}
		}
	}
	return e
}

func diffKind(d string) string {
	switch {
	case strings.Contains(d, "missing sample"):
		return "missing-sample"
	case strings.Contains(d, "unexpected sample"):
		return "unexpected-sample"
	case strings.Contains(d, "wrong value"):
		return "wrong-value"
	case strings.Contains(d, "not strictly increasing"):
		return "duplicate-or-disorder"
	}
	return "read-error"
}

// checkBlock compares an output block with the expectation.  Returns true when everything was
// compared and agreed.
func checkBlock(c *core.Case, what, dir string, exp tsdbx.Expect, ctxt string) bool {
	b, err := tsdb.OpenBlock(tsdbx.NopLogger(), dir, nil, nil)
	if err != nil {
		c.Violatef(what+"-output-unreadable", "%s: cannot open output block %s: %v [%s]", what, filepath.Base(dir), err, ctxt)
		return false
	}
	defer b.Close()
	meta := b.Meta()
	ok := true
	fail := func(kind, format string, args ...any) {
		ok = false
		c.Violatef(what+"-"+kind, "%s output %s [%d,%d): %s [%s]", what, meta.ULID, meta.MinTime, meta.MaxTime, fmt.Sprintf(format, args...), ctxt)
	}

	// 1. queryable samples, whole time axis and the block's own range
	for _, rg := range [][2]int64{{math.MinInt64, math.MaxInt64}, {meta.MinTime, meta.MaxTime - 1}} {
		q, err := tsdb.NewBlockQuerier(b, rg[0], rg[1])
		core.Must(err, "NewBlockQuerier")
		d, _, err := tsdbx.DumpQuerier(q)
		q.Close()
		if err != nil {
			fail("read-error", "sample querier [%d,%d]: %v", rg[0], rg[1], err)
			continue
		}
		if diff := tsdbx.Compare(exp, d, math.MinInt64, math.MaxInt64); diff != "" {
			fail(diffKind(diff), "sample querier [%d,%d]: %s", rg[0], rg[1], diff)
		}
	}
	// 2. chunk querier
	cq, err := tsdb.NewBlockChunkQuerier(b, math.MinInt64, math.MaxInt64)
	core.Must(err, "NewBlockChunkQuerier")
	cd, _, err := tsdbx.DumpChunkQuerier(cq)
	cq.Close()
	if err != nil {
		fail("read-error", "chunk querier: %v", err)
	} else if diff := tsdbx.Compare(exp, cd, math.MinInt64, math.MaxInt64); diff != "" {
		fail("chunks-"+diffKind(diff), "chunk querier: %s", diff)
	}
	// 3. raw chunk metas and stats
	raw, err := rawWalk(b)
	if err != nil {
		fail("read-error", "raw walk: %v", err)
		return false
	}
	var nSeries, nChunks, nSamples, nFloat, nHist uint64
	for key, cs := range raw {
		nSeries++
		if len(cs) == 0 {
			fail("series-without-chunks", "series %s has no chunks in the index", key)
		}
		for i, ch := range cs {
			nChunks++
			nSamples += uint64(len(ch.Samples))
			for _, s := range ch.Samples {
				if s.Kind == "f" {
					nFloat++
				} else {
					nHist++
				}
			}
			if len(ch.Samples) == 0 {
				fail("empty-chunk", "series %s chunk %d [%d,%d] has no samples", key, i, ch.Min, ch.Max)
				continue
			}
			if ch.Samples[0].T != ch.Min || ch.Samples[len(ch.Samples)-1].T != ch.Max {
				fail("chunk-meta-bounds", "series %s chunk %d: meta [%d,%d] but samples span [%d,%d]", key, i, ch.Min, ch.Max, ch.Samples[0].T, ch.Samples[len(ch.Samples)-1].T)
			}
			if i > 0 && ch.Min <= cs[i-1].Max {
				fail("chunk-order", "series %s chunks %d,%d out of order or overlapping: [%d,%d] then [%d,%d]", key, i-1, i, cs[i-1].Min, cs[i-1].Max, ch.Min, ch.Max)
			}
			if ch.Min < meta.MinTime || ch.Max >= meta.MaxTime {
				fail("chunk-outside-block-range", "series %s chunk %d [%d,%d] outside block range", key, i, ch.Min, ch.Max)
			}
		}
	}
	st := meta.Stats
	if st.NumSeries != nSeries || st.NumChunks != nChunks || st.NumSamples != nSamples {
		fail("stats-mismatch", "stats series/chunks/samples = %d/%d/%d, recount %d/%d/%d", st.NumSeries, st.NumChunks, st.NumSamples, nSeries, nChunks, nSamples)
	}
	if st.NumFloatSamples != nFloat || st.NumHistogramSamples != nHist {
		fail("stats-by-type-mismatch", "stats float/histogram samples = %d/%d, recount by decoded type %d/%d", st.NumFloatSamples, st.NumHistogramSamples, nFloat, nHist)
	}
	c.Count("output_blocks_checked", 1)
	c.Count("output_chunks_checked", int64(nChunks))
	c.Count("output_samples_checked", int64(nSamples))
	return ok
}

// checkResult handles "block or no block".
func checkResult(c *core.Case, what, dest string, ids []ulid.ULID, err error, exp tsdbx.Expect, ctxt string) (string, bool) {
	if err != nil {
		c.Violatef(what+"-error", "%s returned an error: %v [%s]", what, err, ctxt)
		return "", false
	}
	if len(ids) == 0 {
		if n := exp.NumSamples(); n > 0 {
			c.Violatef(what+"-no-output", "%s wrote no block although %d samples are expected [%s]", what, n, ctxt)
			return "", false
		}
		c.Count("empty_results", 1)
		return "", true
	}
	if len(ids) > 1 {
		c.Violatef(what+"-several-outputs", "%s returned %d blocks [%s]", what, len(ids), ctxt)
		return "", false
	}
	dir := filepath.Join(dest, ids[0].String())
	return dir, checkBlock(c, what, dir, exp, ctxt)
}

// ---------------------------------------------------------------- cases

func run(c *core.Case) {
	if c.Rng.IntN(4) == 0 {
		runOOO(c)
		return
	}
	runBlocks(c)
}

type inBlock struct {
	dir        string
	mint, maxt int64
	model      blockModel
}

func runBlocks(c *core.Case) {
	r := c.Rng
	span := int64(60 + r.IntN(400))
	lo := int64(0)
	switch r.IntN(4) {
	case 0:
		lo = -span / 2
	case 1:
		lo = -span - 50
	case 2:
		lo = 1_700_000_000_000
	}
	hi := lo + span
	series := genSeries(r, 1+r.IntN(6), lo-20, hi+20)
	nb := 1 + r.IntN(6)
	ranges := genBlockRanges(r, nb, lo, hi)
	dest := c.TempDir()
	features := map[string]bool{}
	for _, sd := range series {
		if sd.profile == 3 {
			features["multi-type-series"] = true
		}
	}

	// Twin mode: the first two blocks cover the same range, are cut into chunks the same way
	// (count-based), and hold the same first and last sample per chunk but different interior
	// timestamps – chunks of equal position, reference and time range with different content.
	twin := nb >= 2 && r.IntN(5) == 0
	var twinCfg headCfg
	if twin {
		features["twin-chunks-same-bounds-different-interior"] = true
	}
	var blocks []*inBlock
	for bi, rg := range ranges {
		cfg := genHeadCfg(r)
		isTwin := twin && bi <= 1
		if isTwin {
			if bi == 0 {
				twinCfg = cfg
				twinCfg.chunkRange = 100000
				if twinCfg.samplesPerChunk > 20 {
					twinCfg.samplesPerChunk = 7
				}
			}
			cfg = twinCfg
			rg = ranges[0]
		}
		h := newHead(c, cfg)
		var ps []pending
		wide := r.IntN(3) == 0 && !isTwin // head holds data outside the written range
		keep := 30 + r.IntN(71)
		if isTwin {
			keep = 100
		}
		for _, sd := range series {
			if len(series) > 1 && r.IntN(4) == 0 && !isTwin {
				continue
			}
			pos := 0
			for _, t := range sd.times {
				in := t >= rg[0] && t < rg[1]
				if !in && !(wide && t >= rg[0]-15 && t < rg[1]+15) {
					continue
				}
				if r.IntN(100) >= keep {
					continue
				}
				s := sd.uni[t]
				if isTwin {
					n := cfg.samplesPerChunk
					if _, taken := sd.uni[t+1]; bi == 1 && s.Kind == "f" && pos%n != 0 && pos%n != n-1 && !taken && t+1 < rg[1] && r.IntN(2) == 0 {
						s = sample{T: t + 1, Kind: "f", F: float64(5000 + r.IntN(1000))}
					}
					pos++
				} else if r.IntN(12) == 0 {
					s = conflicting(r, sd, s)
				}
				ps = append(ps, pending{sd, s})
			}
		}
		full := fillHead(c, h, ps)
		want := blockModel{}
		for k, x := range full {
			for t, s := range x {
				if t >= rg[0] && t < rg[1] {
					want.put(k, s)
				}
			}
		}
		comp, _ := newCompactor(r)
		ids, err := comp.Write(dest, tsdb.NewRangeHead(h, rg[0], rg[1]-1), rg[0], rg[1], nil)
		exp := tsdbx.Expect{}
		want.addTo(exp)
		ctxt := fmt.Sprintf("input block %d range [%d,%d) head{chunkRange=%d spc=%d xor2=%v histST=%v wide=%v} head_samples=%d", bi, rg[0], rg[1], cfg.chunkRange, cfg.samplesPerChunk, cfg.xor2, cfg.histST, wide, full.count())
		dir, _ := checkResult(c, "write", dest, ids, err, exp, ctxt)
		core.Must(h.Close(), "close head")
		c.Count("head_writes", 1)
		if dir != "" {
			blocks = append(blocks, &inBlock{dir: dir, mint: rg[0], maxt: rg[1], model: want})
		}
	}
	if c.Violated() || len(blocks) == 0 {
		return
	}

	// tombstones on and next to chunk boundaries
	deleted := 0
	for _, ib := range blocks {
		if r.IntN(2) == 0 {
			continue
		}
		b, err := tsdb.OpenBlock(tsdbx.NopLogger(), ib.dir, nil, nil)
		core.Must(err, "open input block")
		raw, err := rawWalk(b)
		core.Must(err, "walk input block")
		var bounds []int64
		for _, cs := range raw {
			for _, ch := range cs {
				bounds = append(bounds, ch.Min, ch.Max)
			}
		}
		for k := 1 + r.IntN(3); k > 0; k-- {
			var a, z int64
			switch r.IntN(5) {
			case 0: // everything
				a, z = math.MinInt64, math.MaxInt64
			case 1: // random
				a = ib.mint + r.Int64N(ib.maxt-ib.mint)
				z = a + r.Int64N(ib.maxt-a)
			default: // around chunk boundaries
				a = bounds[r.IntN(len(bounds))] + int64(r.IntN(3)) - 1
				z = bounds[r.IntN(len(bounds))] + int64(r.IntN(3)) - 1
				if z < a {
					a, z = z, a
				}
			}
			var ms []*labels.Matcher
			switch r.IntN(3) {
			case 0:
				ms = append(ms, labels.MustNewMatcher(labels.MatchEqual, "id", series[r.IntN(len(series))].id))
			case 1:
				ms = append(ms, labels.MustNewMatcher(labels.MatchRegexp, "id", fmt.Sprintf("%d|%d", r.IntN(6), r.IntN(6))))
			default:
				ms = append(ms, labels.MustNewMatcher(labels.MatchNotEqual, "id", series[r.IntN(len(series))].id))
			}
			core.Must(b.Delete(context.Background(), a, z, ms...), "Block.Delete")
			for _, sd := range series {
				if !ms[0].Matches(sd.id) {
					continue
				}
				for t := range ib.model[sd.key] {
					if t >= a && t <= z {
						delete(ib.model[sd.key], t)
						deleted++
					}
				}
			}
			c.Count("deletes_issued", 1)
		}
		core.Must(b.Close(), "close input block")
	}
	if deleted > 0 {
		features["tombstoned-samples"] = true
	}
	c.Count("samples_tombstoned", int64(deleted))

	// expectation: union of what is left in the inputs
	exp := tsdbx.Expect{}
	seenAt := map[string]map[int64]int{}
	dups := 0
	for _, ib := range blocks {
		ib.model.addTo(exp)
		for k, x := range ib.model {
			if seenAt[k] == nil {
				seenAt[k] = map[int64]int{}
			}
			for t := range x {
				seenAt[k][t]++
				if seenAt[k][t] == 2 {
					dups++
				}
			}
		}
	}
	if dups > 0 {
		features["duplicates-across-blocks"] = true
	}
	c.Count("duplicate_series_timestamps", int64(dups))
	conflicts := 0
	for _, m := range exp {
		for _, vs := range m {
			if len(vs) > 1 {
				conflicts++
			}
		}
	}
	if conflicts > 0 {
		features["conflicting-values"] = true
	}

	sort.SliceStable(blocks, func(i, j int) bool { return blocks[i].mint < blocks[j].mint })
	disjoint := true
	for i := 1; i < len(blocks); i++ {
		for j := 0; j < i; j++ {
			if blocks[i].mint < blocks[j].maxt && blocks[j].mint < blocks[i].maxt {
				disjoint = false
			}
		}
	}
	var dirs []string
	var rgs []string
	for _, ib := range blocks {
		dirs = append(dirs, ib.dir)
		rgs = append(rgs, fmt.Sprintf("[%d,%d)", ib.mint, ib.maxt))
	}
	out := c.TempDir()
	comp, cdesc := newCompactor(r)
	what := "compact"
	var ids []ulid.ULID
	var err error
	if len(blocks) == 1 && deleted > 0 && r.IntN(2) == 0 {
		what = "clean-tombstones"
		b, oerr := tsdb.OpenBlock(tsdbx.NopLogger(), blocks[0].dir, nil, nil)
		core.Must(oerr, "open input block")
		ids, _, err = b.CleanTombstones(out, comp)
		core.Must(b.Close(), "close input block")
	} else {
		ids, err = comp.Compact(out, dirs, nil)
	}
	ctxt := fmt.Sprintf("inputs=%v merger=%s tombstoned=%d duplicates=%d conflicts=%d", rgs, cdesc, deleted, dups, conflicts)
	dir, ok := checkResult(c, what, out, ids, err, exp, ctxt)
	c.Seen("operation", what)
	c.Seen("merger", cdesc)
	c.Seen("input_blocks", fmt.Sprint(len(blocks)))
	if disjoint {
		c.Seen("layout", "disjoint")
	} else {
		c.Seen("layout", "overlapping")
	}
	for f := range features {
		c.Seen("feature", f)
	}
	if ok && dir != "" && exp.NumSamples() > 0 && len(features) > 0 {
		c.Nontrivial(what, cdesc, expectHash(exp))
	}
	if c.Idx < 40 && dir != "" && len(blocks) > 1 {
		c.Sample(map[string]any{"mode": "blocks", "operation": what, "inputs": rgs, "merger": cdesc, "series": len(series), "expected_samples": exp.NumSamples(), "tombstoned": deleted, "duplicate_timestamps": dups, "conflicting_values": conflicts})
	}
}

func runOOO(c *core.Case) {
	r := c.Rng
	cfg := genHeadCfg(r)
	cfg.chunkRange = []int64{100, 250, 600}[r.IntN(3)]
	cfg.oooWindow = int64(20 + r.IntN(300))
	cfg.oooCap = int64([]int{2, 4, 8, 32}[r.IntN(4)])
	h := newHead(c, cfg)
	defer h.Close()
	n := 1 + r.IntN(5)
	series := genSeries(r, n, 0, -1) // labels/profiles only
	curs := make([]*gen.AbsHist, n)
	kinds := make([]string, n)
	for i, sd := range series {
		curs[i] = gen.NewAbsHist(r, true)
		kinds[i] = []string{"f", "h", "fh", "f"}[sd.profile]
	}
	accepted := tsdbx.Expect{}
	ctx := context.Background()
	now := int64(1000 + r.IntN(1000))
	rounds := 30 + r.IntN(90)
	oooBias := 2 + r.IntN(5)
	for i := 0; i < rounds; i++ {
		now += int64(r.IntN(6))
		app := h.Appender(ctx)
		for si, sd := range series {
			if r.IntN(3) == 0 {
				continue
			}
			t := now
			if r.IntN(oooBias) == 0 {
				t = now - r.Int64N(cfg.oooWindow+30)
			}
			if sd.profile == 3 && r.IntN(10) == 0 {
				kinds[si] = []string{"f", "h", "fh"}[r.IntN(3)]
			}
			s := genValue(r, kinds[si], t, &curs[si], false)
			if err := appendOne(app, sd.lset, s); err != nil {
				c.Count("input_appends_rejected", 1)
				continue
			}
			accepted.Add(sd.key, t, s.ValKey())
		}
		core.Must(app.Commit(), "commit")
	}
	if accepted.NumSamples() == 0 {
		return
	}
	lo, hi := int64(math.MaxInt64), int64(math.MinInt64)
	for _, m := range accepted {
		for t := range m {
			lo, hi = min(lo, t), max(hi, t)
		}
	}
	dest := c.TempDir()
	comp, _ := newCompactor(r)
	covered := tsdbx.Expect{}
	var dirs []inBlock
	hctx := fmt.Sprintf("head{chunkRange=%d spc=%d xor2=%v histST=%v oooWindow=%d oooCap=%d}", cfg.chunkRange, cfg.samplesPerChunk, cfg.xor2, cfg.histST, cfg.oooWindow, cfg.oooCap)

	// in-order part
	rh := tsdb.NewRangeHead(h, lo, hi)
	raw, err := rawWalk(rh)
	core.Must(err, "raw walk of RangeHead")
	exp := expectFromRaw(raw, lo, hi)
	addAll(covered, exp)
	ids, werr := comp.Write(dest, rh, lo, hi+1, nil)
	if dir, _ := checkResult(c, "write", dest, ids, werr, exp, fmt.Sprintf("in-order RangeHead [%d,%d] %s", lo, hi, hctx)); dir != "" {
		dirs = append(dirs, inBlock{dir: dir, mint: lo, maxt: hi + 1})
	}
	c.Count("head_writes", 1)

	// out-of-order part, cut like DB.compactOOO: chunk-range aligned windows
	oooHead, err := tsdb.NewOOOCompactionHead(ctx, h)
	core.Must(err, "NewOOOCompactionHead")
	oooSamples := 0
	if oooHead.MinTime() <= oooHead.MaxTime() {
		base := &tsdb.BlockMeta{}
		base.Compaction.SetOutOfOrder()
		bs := cfg.chunkRange
		for t := bs * (oooHead.MinTime() / bs); t <= oooHead.MaxTime(); t += bs {
			clone := oooHead.CloneForTimeRange(t, t+bs-1)
			raw, err := rawWalk(clone)
			core.Must(err, "raw walk of OOO compaction head")
			exp := expectFromRaw(raw, t, t+bs-1)
			oooSamples += exp.NumSamples()
			addAll(covered, exp)
			ids, werr := comp.Write(dest, clone, t, t+bs, base)
			if dir, _ := checkResult(c, "write-ooo", dest, ids, werr, exp, fmt.Sprintf("OOO window [%d,%d) %s", t, t+bs, hctx)); dir != "" {
				dirs = append(dirs, inBlock{dir: dir, mint: t, maxt: t + bs})
			}
			c.Count("ooo_head_writes", 1)
		}
	}
	c.Count("ooo_samples_written", int64(oooSamples))
	if c.Violated() {
		return
	}
	// the split must cover exactly what the head accepted, otherwise the model is not usable
	if d := compareExpects(accepted, covered); d != "" {
		c.Inconclusive("OOO mode: in-order + OOO readers do not cover the accepted samples: %s (%s)", d, hctx)
		return
	}
	if len(dirs) == 0 {
		return
	}
	sort.SliceStable(dirs, func(i, j int) bool { return dirs[i].mint < dirs[j].mint })
	var ds, rgs []string
	for _, d := range dirs {
		ds = append(ds, d.dir)
		rgs = append(rgs, fmt.Sprintf("[%d,%d)", d.mint, d.maxt))
	}
	out := c.TempDir()
	comp2, cdesc := newCompactor(r)
	ids, cerr := comp2.Compact(out, ds, nil)
	dir, ok := checkResult(c, "compact", out, ids, cerr, accepted, fmt.Sprintf("in-order + OOO blocks %v merger=%s %s", rgs, cdesc, hctx))
	c.Seen("operation", "compact(in-order+ooo)")
	c.Seen("merger", cdesc)
	c.Seen("input_blocks", fmt.Sprint(len(dirs)))
	if oooSamples > 0 {
		c.Seen("feature", "ooo-samples")
	}
	if ok && dir != "" && oooSamples > 0 {
		c.Nontrivial("ooo", cdesc, expectHash(accepted))
	}
	if c.Idx < 40 && dir != "" {
		c.Sample(map[string]any{"mode": "ooo", "head": hctx, "blocks": rgs, "accepted_samples": accepted.NumSamples(), "ooo_samples": oooSamples, "merger": cdesc})
	}
}

func addAll(dst, src tsdbx.Expect) {
	for k, m := range src {
		for t, vs := range m {
			for v := range vs {
				dst.Add(k, t, v)
			}
		}
	}
}

// compareExpects checks that both hold the same (series,t) pairs and that every value of b is
// allowed by a.
func compareExpects(a, b tsdbx.Expect) string {
	for k, m := range a {
		for t := range m {
			if len(b[k][t]) == 0 {
				return fmt.Sprintf("accepted sample %s t=%d is in neither reader", k, t)
			}
		}
	}
	for k, m := range b {
		for t, vs := range m {
			if len(a[k][t]) == 0 {
				return fmt.Sprintf("reader sample %s t=%d was never accepted", k, t)
			}
			for v := range vs {
				if !a[k][t][v] {
					return fmt.Sprintf("reader sample %s t=%d has value %s which was never appended", k, t, v)
				}
			}
		}
	}
	return ""
}
