// Package c03: acknowledged writes survive a process crash at any point.
//
// A child process (verifctl c03child) executes a generated history against a real tsdb.DB and
// is killed with SIGKILL at the k-th hit of a persistence-boundary hook site.  It writes an
// acknowledgement log (one write(2) per line, outside the data directory) before and after
// every operation.  The parent replays the model from the acknowledged operations, reopens the
// crashed directory in-process under the same options and compares.
package c03

import (
	"bufio"
	"encoding/json"
	"fmt"
	"math"
	"math/rand/v2"
	"os"
	"os/exec"
	"sort"
	"strconv"
	"strings"
	"syscall"

	"verif/internal/core"
	"verif/internal/hcmark"
	"verif/internal/sched"
	"verif/internal/tsdbhist"
	"verif/internal/tsdbx"
	"verif/props/c22/headdisk"
)

func init() {
	core.Subcommands["c03child"] = childMain
	core.Register(&core.Prop{
		ID:        "C03",
		Title:     "Acknowledged writes survive a process crash at any point",
		Level:     "fault_enumeration",
		Technique: "crash-point fault enumeration: child process killed (SIGKILL) at the k-th hit of every persistence-boundary hook site; acknowledgement log vs. reopened contents",
		LevelText: "For generated histories (appends in/out of order incl. native histograms, rollbacks, deletes, Compact/CompactHead/CompactOOOHead/CompactStaleHead, CleanTombstones, m-mapping, clean restarts; 32 KiB WAL segments so rotation and checkpoints happen) a count run records how often each hook site (WAL page flush, segment removal, checkpoint mkdir/rename/removal, block tmp dir/rename, meta/tombstone file rename, block deletion rename/removal, head-chunk file removal, snapshot rename, WAL repair steps, commit/compaction/truncation protocol steps) is hit; then the history is re-run in a fresh child that kills itself at (site,k) for first/last/sampled k (thorough: every k ≤ 12 plus 6 sampled larger ones) and at sampled global hit numbers. After each kill the directory is reopened under the same options: reopen must succeed, every acknowledged sample (minus acknowledged deletions) must be returned with an unaltered value, samples of the single in-flight operation may be present or not, nothing else may appear; then new appends, a clean close and a second reopen must preserve everything. Held on the enumerated crash points only.",
		LevelNote: "Process kill only: the page cache survives, so missing fsyncs are out of reach. Background goroutines make hit indexes slightly non-reproducible; a (site,k) that is not reached in the crash run is counted as not explored. Retention disabled. Known-finding classes of C01 (deletes vs. out-of-order data, WBL ref mapping, merged out-of-order blocks) are reported under their own kinds.",
		DesignRef: "DESIGN.md §5 C03",
		Rule:      "case = one generated history (15–45 ops) with all its selected crash points; each (site,k) kill + reopen + compare is one evaluation; non-trivial iff the child was really killed at the point, ≥1 commit had been acknowledged before and the reopened DB returned ≥1 sample; distinct by (history, site, k)",
		Cases: func(variant string, tier core.Tier) int {
			if variant != "default" {
				return 0
			}
			if tier == core.Thorough {
				return 64
			}
			return 12
		},
		Run:            run,
		MinNontrivial:  func(t core.Tier) int { return 100 },
		CaseTimeoutSec: 1500,
	})
}

type program struct {
	cfg tsdbhist.Config
	ops []tsdbhist.Op
}

func genProgram(seed int64, idx int) program {
	a, b := core.CaseSeed(seed, "C03/program", idx)
	r := rand.New(rand.NewPCG(a, b))
	cfg := tsdbhist.GenConfig(r)
	cfg.WALSegment = 32 * 1024
	dense := idx%4 == 3
	if dense {
		// dense out-of-order mode: few series, smallest out-of-order chunk capacity, most samples
		// behind the clock, hardly any compaction: out-of-order chunks are m-mapped (markers in the
		// WBL) while their samples are still in the WBL
		cfg.OOOCapMax = 4
		if cfg.OOOWindow == 0 {
			cfg.OOOWindow = cfg.BlockRange
		}
		cfg.NumSeries = 1 + r.IntN(2)
	}
	g := tsdbhist.NewGen(r, cfg)
	g.WCompact = 22
	g.WRestart = 4
	n := 15 + r.IntN(31)
	if dense {
		g.OOOTenths = 7
		g.WCompact, g.WDelete, g.WRestart = 2, 1, 2
		n = 40 + r.IntN(40)
	}
	p := program{cfg: cfg}
	for i := 0; i < n; i++ {
		p.ops = append(p.ops, g.Next())
	}
	return p
}

// ---------------------------------------------------------------- child

func ackWrite(f *os.File, line string) {
	f.Write([]byte(line + "\n")) // one write(2) per line, unbuffered
}

// verifctl c03child <dir> <seed> <progIdx> <acklog> <site|any|-> <k> <hitsOut>
func childMain(args []string) int {
	if len(args) < 7 {
		return 2
	}
	dir := args[0]
	seed, _ := strconv.ParseInt(args[1], 10, 64)
	idx, _ := strconv.Atoi(args[2])
	ack, err := os.OpenFile(args[3], os.O_CREATE|os.O_WRONLY|os.O_APPEND, 0o644)
	if err != nil {
		return 2
	}
	k, _ := strconv.ParseInt(args[5], 10, 64)
	ctl := sched.Install()
	tsdbhist.SharedCtl = ctl
	p := genProgram(seed, idx)
	e, err := tsdbhist.NewExec(dir, p.cfg)
	if err != nil {
		ackWrite(ack, "E -1 open: "+err.Error())
		return 3
	}
	// arm the crash point only after the initial open, so that k counts hits of the history
	switch args[4] {
	case "-":
	case "any":
		ctl.CrashAtGlobal(ctl.Total() + k)
	default:
		ctl.CrashAt(args[4], ctl.Hit(args[4])+k)
	}
	base := ctl.Hits()
	baseTotal := ctl.Total()
	for i, op := range p.ops {
		ackWrite(ack, fmt.Sprintf("B %d", i))
		if err := e.Apply(op); err != nil {
			ackWrite(ack, fmt.Sprintf("E %d %s", i, strings.ReplaceAll(err.Error(), "\n", " ")))
			return 3
		}
		rec := tsdbhist.AckRec{}
		if op.Kind == "append" && !op.Rollback {
			rec = e.LastRec
		}
		b, _ := json.Marshal(rec)
		ackWrite(ack, fmt.Sprintf("A %d %s", i, b))
	}
	ackWrite(ack, "B close")
	if err := e.Close(); err != nil {
		ackWrite(ack, "E close "+err.Error())
		return 3
	}
	ackWrite(ack, "A close")
	hits := ctl.Hits()
	for s, n := range base {
		hits[s] -= n
	}
	hits["__total__"] = ctl.Total() - baseTotal
	hb, _ := json.Marshal(hits)
	os.WriteFile(args[6], hb, 0o644)
	return 0
}

// ---------------------------------------------------------------- parent

type ackLog struct {
	acked   map[int]tsdbhist.AckRec
	lastB   int // op index of the last B line (-1 none, 1<<30 = close)
	lastA   int
	errLine string
	closed  bool
	inClose bool
}

func readAck(path string) ackLog {
	l := ackLog{acked: map[int]tsdbhist.AckRec{}, lastB: -1, lastA: -1}
	f, err := os.Open(path)
	if err != nil {
		return l
	}
	defer f.Close()
	sc := bufio.NewScanner(f)
	sc.Buffer(make([]byte, 1<<20), 1<<24)
	for sc.Scan() {
		line := sc.Text()
		switch {
		case line == "B close":
			l.inClose = true
		case line == "A close":
			l.closed = true
		case strings.HasPrefix(line, "B "):
			l.lastB, _ = strconv.Atoi(line[2:])
		case strings.HasPrefix(line, "A "):
			parts := strings.SplitN(line, " ", 3)
			i, _ := strconv.Atoi(parts[1])
			var rec tsdbhist.AckRec
			if len(parts) == 3 {
				json.Unmarshal([]byte(parts[2]), &rec)
			}
			l.acked[i] = rec
			l.lastA = i
		case strings.HasPrefix(line, "E "):
			l.errLine = line
		}
	}
	return l
}

func runChild(c *core.Case, dir string, progIdx int, ackPath, site string, k int64, hitsOut string) (killed bool, exit int, stderr string) {
	logf := ackPath + ".stderr"
	lf, _ := os.Create(logf)
	cmd := exec.Command(core.SelfBinary(c.Variant), "c03child", dir, strconv.FormatInt(c.Seed, 10), strconv.Itoa(progIdx), ackPath, site, strconv.FormatInt(k, 10), hitsOut)
	cmd.Stdout, cmd.Stderr = lf, lf
	cmd.Env = append(os.Environ(), "GOTRACEBACK=all")
	err := cmd.Run()
	lf.Close()
	if err == nil {
		return false, 0, ""
	}
	if ee, ok := err.(*exec.ExitError); ok {
		if ws, ok := ee.Sys().(syscall.WaitStatus); ok && ws.Signaled() && ws.Signal() == syscall.SIGKILL {
			return true, -1, ""
		}
		b, _ := os.ReadFile(logf)
		s := string(b)
		if len(s) > 4000 {
			s = s[:4000]
		}
		return false, ee.ExitCode(), s
	}
	return false, -2, err.Error()
}

type crashPoint struct {
	site string
	k    int64
}

func run(c *core.Case) {
	progIdx := c.Idx
	p := genProgram(c.Seed, progIdx)
	r := c.Rng
	scratch := c.TempDir()
	// phase 1: count run
	hitsPath := scratch + "/hits.json"
	killed, exit, stderr := runChild(c, scratch+"/count", progIdx, scratch+"/count.ack", "-", 0, hitsPath)
	if killed || exit != 0 {
		al := readAck(scratch + "/count.ack")
		if exit == 3 && al.errLine != "" {
			c.Violatef("operation-failed-without-crash", "config {%s}: %s", p.cfg, al.errLine)
			return
		}
		if core.PanicOrigin(stderr) == "repo" || strings.Contains(stderr, "/repo/") && strings.Contains(stderr, "panic") {
			c.Violatef("child-crashed-without-fault", "config {%s}: child died (exit %d):\n%s", p.cfg, exit, stderr)
			return
		}
		panic(core.HarnessError{Msg: fmt.Sprintf("count run failed: killed=%v exit=%d %s", killed, exit, stderr)})
	}
	var hits map[string]int64
	hb, _ := os.ReadFile(hitsPath)
	json.Unmarshal(hb, &hits)
	os.RemoveAll(scratch + "/count")
	total := hits["__total__"]
	delete(hits, "__total__")
	var sites []string
	for s := range hits {
		if hits[s] > 0 {
			sites = append(sites, s)
		}
	}
	sort.Strings(sites)
	// phase 2: crash points
	var points []crashPoint
	for _, s := range sites {
		h := hits[s]
		ks := map[int64]bool{1: true, h: true}
		if c.Tier == core.Thorough {
			for k := int64(1); k <= h && k <= 12; k++ {
				ks[k] = true
			}
			for i := 0; i < 6 && h > 12; i++ {
				ks[13+r.Int64N(h-12)] = true
			}
		} else {
			if h > 2 {
				ks[2+r.Int64N(h-2)] = true
			}
		}
		var kl []int64
		for k := range ks {
			kl = append(kl, k)
		}
		sort.Slice(kl, func(i, j int) bool { return kl[i] < kl[j] })
		for _, k := range kl {
			points = append(points, crashPoint{s, k})
		}
	}
	nAny := 4
	if c.Tier == core.Thorough {
		nAny = 40
	}
	for i := 0; i < nAny && total > 0; i++ {
		points = append(points, crashPoint{"any", 1 + r.Int64N(total)})
	}
	c.Count("hook_sites_reached", int64(len(sites)))
	for _, s := range sites {
		c.Seen("site", s)
	}
	only := os.Getenv("VERIF_C03_ONLY") // debugging aid for replays: "site#k"
	for pi, pt := range points {
		if only != "" && only != fmt.Sprintf("%s#%d", pt.site, pt.k) {
			continue
		}
		dir := fmt.Sprintf("%s/crash-%d", scratch, pi)
		ackPath := fmt.Sprintf("%s/crash-%d.ack", scratch, pi)
		killed, exit, stderr := runChild(c, dir, progIdx, ackPath, pt.site, pt.k, hitsPath+".x")
		c.Count("crash_runs", 1)
		if !killed {
			if exit == 0 {
				c.Count("crash_point_not_reached", 1)
			} else {
				al := readAck(ackPath)
				c.Violatef("child-failed-before-crash-point", "config {%s} crash point %s#%d: child exit %d %s\n%s", p.cfg, pt.site, pt.k, exit, al.errLine, stderr)
			}
			os.RemoveAll(dir)
			continue
		}
		c.Count("kills", 1)
		c.Seen("killed_at_site", pt.site)
		checkAfterCrash(c, p, dir, ackPath, pt)
		os.RemoveAll(dir)
	}
	if c.Idx < 2 {
		c.Sample(map[string]any{"config": p.cfg.String(), "ops": opStrings(p.ops), "sites": hits, "crash_points": len(points)})
	}
}


func opStrings(ops []tsdbhist.Op) []string {
	var out []string
	for _, o := range ops {
		out = append(out, o.String())
	}
	return out
}

func checkAfterCrash(c *core.Case, p program, dir, ackPath string, pt crashPoint) {
	al := readAck(ackPath)
	e := tsdbhist.NewModelExec(dir, p.cfg)
	inflight := -1
	for i, op := range p.ops {
		rec, ok := al.acked[i]
		if !ok {
			if i <= al.lastB {
				inflight = i
			}
			break
		}
		e.ReplayModel(op, rec)
	}
	// the crash is a restart for the model's state machines
	e.ReplayModel(tsdbhist.Op{Kind: "restart"}, tsdbhist.AckRec{})
	what := fmt.Sprintf("config {%s}\ncrash point %s#%d, acknowledged ops 0..%d, in flight: %s\nhistory: %s", p.cfg, pt.site, pt.k, al.lastA, inflightStr(p, inflight, al), e.History())
	if inflight >= 0 {
		op := p.ops[inflight]
		switch op.Kind {
		case "append":
			if !op.Rollback {
				for _, s := range op.Samples {
					e.AllowOptional(e.Series[s.Series].String(), s.T, s.AllowedKeys()...)
				}
			}
		case "delete":
			for _, si := range op.SeriesSel {
				k := e.Series[si].String()
				for t := range e.Model[k] {
					if t >= op.Mint && t <= op.Maxt {
						e.AllowMissing(k, t)
					}
				}
			}
		}
		c.Seen("inflight_op_kind", op.Kind)
	} else {
		c.Seen("inflight_op_kind", "none(between ops or in close)")
	}
	preRecs := hcmark.HeadChunkRecs(dir)
	if err := e.OpenDB(); err != nil {
		c.ViolateOncef("reopen-failed-after-crash", "%s\ntsdb.Open: %v", what, err)
		return
	}
	defer e.Close()
	// Known finding (DESIGN §10 item 1): if the WAL needed a repair, Head.Init returns before the
	// WBL is replayed, so out-of-order samples that live only in the WBL are missing on this open.
	repaired := e.Counter("prometheus_tsdb_wal_corruptions_total") > 0
	wblMissing := 0
	if repaired {
		c.Count("reopens_with_wal_repair", 1)
		for k, ts := range e.WBLOnlySamples() {
			for _, t := range ts {
				e.AllowMissing(k, t)
			}
		}
	}
	before := e.MayMissObserved
	if diff := e.Check(nil); diff != "" {
		kind := "after-crash:" + classify(diff)
		if k, t, ok := parseMissing(diff); ok && e.IsMaybeOOO(k, t) && markerOfAbsentChunk(e, dir, k, preRecs) {
			kind = "ooo-sample-lost-to-wbl-marker-of-absent-chunk"
		}
		c.ViolateOncef(kind, "%s\nfirst reopen: %s\nstate:\n%s", what, diff, e.Diagnose())
		return
	}
	if repaired && inflight < 0 || repaired && p.ops[max(inflight, 0)].Kind != "delete" {
		wblMissing = e.MayMissObserved - before
	}
	if wblMissing > 0 {
		c.ViolateOncef("ooo-samples-not-replayed-after-wal-repair", "%s\n%d acknowledged out-of-order samples that live only in the WBL were missing on the first reopen, which repaired a torn WAL tail (Head.Init returns on the WAL error before replaying the WBL)", what, wblMissing)
	}
	reportKnown(c, e, what)
	nSamples := e.Model.NumSamples()
	// step 3: the repaired DB must accept new writes and keep everything over a clean restart
	if e.DB != nil {
		maxT := e.DB.Head().MaxTime()
		if maxT < p.cfg.Base {
			maxT = p.cfg.Base
		}
		op := tsdbhist.Op{Kind: "append"}
		for i := range e.Series {
			op.Samples = append(op.Samples, tsdbhist.SampleOp{Series: i, T: maxT + 1 + int64(i), Kind: "f", F: float64(1000 + i)})
		}
		if err := e.Apply(op); err != nil {
			c.ViolateOncef("append-after-recovery-failed", "%s\n%v", what, err)
			return
		}
		c.Logf("before second restart:\n%s\n%s", e.Diagnose(), tsdbhist.DiskSummary(dir))
		firstOpen := tsdbx.Dump{}
		if q, err := e.DB.Querier(math.MinInt64, math.MaxInt64); err == nil {
			firstOpen, _, _ = tsdbx.DumpQuerier(q)
			q.Close()
		}
		var preRecs2 map[uint64]bool
		e.OnRestartClosed = func() { preRecs2 = hcmark.HeadChunkRecs(dir) }
		if err := e.Apply(tsdbhist.Op{Kind: "restart"}); err != nil {
			c.ViolateOncef("restart-after-recovery-failed", "%s\n%v", what, err)
			return
		}
		if c.Verbose {
			hcs, herr := headdisk.ScanHeadChunks(dir, nil)
			c.Logf("after second restart: head chunks on disk: %+v err=%v\n%s", hcs, herr, tsdbhist.DiskSummary(dir))
		}
		if diff := e.Check(nil); diff != "" {
			kind := "after-recovery-restart:" + classify(diff)
			// Known-finding predicate (the C22 defect): after the crash recovery a series ref was handed
			// out a second time, visible on disk as one ref carrying two label sets in the WAL's
			// series records; data stored under the old owner is then lost or mis-attributed.
			// Known-finding predicate: the missing sample still sits in a head chunk file, but under a
			// series ref that no live series has (the series was re-numbered by a WAL-replay restart
			// - first series record of a re-created series wins - and a later snapshot restart skips
			// the WAL records that would map the old ref).
			if k, t, ok := parseMissing(diff); ok && e.DB != nil {
				_ = k
				live := e.DB.Head().VerifSeriesRefs()
				if hcs, err := headdisk.ScanHeadChunks(dir, nil); err == nil {
					for _, hc := range hcs {
						if _, isLive := live[uint64(hc.Ref)]; !isLive && hc.MinT <= t && t <= hc.MaxT {
							kind = "acknowledged-sample-orphaned-in-head-chunk-under-stale-series-ref"
							diff += fmt.Sprintf(" [head chunk file holds a chunk [%d,%d] under series ref %d, which no live series has]", hc.MinT, hc.MaxT, hc.Ref)
							break
						}
					}
				}
			}
			if k, t, ok := parseMissing(diff); ok && e.IsMaybeOOO(k, t) && strings.HasPrefix(kind, "after-recovery-restart:") {
				had := false
				for _, s := range firstOpen[k] {
					had = had || s.T == t
				}
				if had && markerOfAbsentChunk(e, dir, k, preRecs2) {
					kind = "ooo-sample-lost-to-wbl-marker-of-absent-chunk"
				}
			}
			if recs, _, err := headdisk.Scan(dir); err == nil && strings.HasPrefix(kind, "after-recovery-restart:") {
				if cl := headdisk.RefClashes(recs); len(cl) > 0 && strings.Contains(diff, "missing sample") {
					kind = "acknowledged-sample-lost-after-series-ref-reissue"
					diff += fmt.Sprintf(" [WAL series records give one ref to several label sets: %v]", cl)
				}
			}
			c.ViolateOncef(kind, "%s\nsecond reopen (after new appends and a clean close): %s\nstate:\n%s", what, diff, e.Diagnose())
			return
		}
		reportKnown(c, e, what)
	}
	if len(al.acked) > 0 && nSamples > 0 {
		c.Nontrivial(p.cfg.String(), opStrings(p.ops), pt.site, pt.k)
	}
	c.Count("acked_ops_replayed", int64(len(al.acked)))
	c.Count("optional_inflight_samples_recovered", int64(e.OptionalSeen))
}

// markerOfAbsentChunk: witness predicate of the known finding
// ooo-sample-lost-to-wbl-marker-of-absent-chunk (see hcmark.DanglingMarkerHonoured).
func markerOfAbsentChunk(e *tsdbhist.Exec, dir, k string, pre map[uint64]bool) bool {
	if e.DB == nil {
		return false
	}
	post, markers := hcmark.HeadChunkRecs(dir), hcmark.WBLMarkers(dir)
	refs := hcmark.SeriesRefsInWAL(dir, k)
	for ref, ls := range e.DB.Head().VerifSeriesRefs() {
		if ls.String() == k {
			refs = append(refs, ref)
		}
	}
	for _, ref := range refs {
		if hcmark.DanglingMarkerHonoured(pre, post, markers[ref]) {
			return true
		}
	}
	return false
}

func inflightStr(p program, inflight int, al ackLog) string {
	if inflight >= 0 {
		return fmt.Sprintf("op %d (%s)", inflight, p.ops[inflight])
	}
	if al.inClose {
		return "Close()"
	}
	return "none"
}

// reportKnown turns the executor's narrowly classified tolerated observations into violations of
// their own kinds (matched against known_findings.jsonl).
func reportKnown(c *core.Case, e *tsdbhist.Exec, what string) {
	type kc struct {
		kind string
		n    *int
		msg  string
	}
	for _, x := range []kc{
		{"delete-ignores-ooo-head-samples", &e.ZombiesObserved, "samples that were out-of-order at append time and lie in a deleted range were still returned"},
		{"ooo-append-hidden-by-earlier-delete", &e.GhostsMissing, "out-of-order samples appended after a Delete covering their timestamp were hidden"},
		{"ooo-sample-lost-wbl-ref-unknown-after-wal-truncation", &e.OrphansMissing, "acknowledged out-of-order samples living only in the WBL were lost across restart → WAL truncation → restart"},
		{"inorder-sample-lost-on-restart-behind-merged-ooo-block", &e.LostBehindOOOMerge, "acknowledged in-order samples were cut off by WAL replay behind a merged out-of-order block"},
		{"deleted-sample-replayed-from-wal-after-its-block-was-dropped", &e.Resurrected, "deleted samples came back after their tombstoned block had been dropped"},
	} {
		if *x.n > 0 {
			c.Violatef(x.kind, "%s\n%d %s", what, *x.n, x.msg)
			c.Count("known_class:"+x.kind, int64(*x.n))
			*x.n = 0
		}
	}
}

func classify(diff string) string {
	switch {
	case strings.Contains(diff, "missing sample"):
		return "acknowledged-sample-missing"
	case strings.Contains(diff, "unexpected sample"):
		return "unexpected-sample"
	case strings.Contains(diff, "wrong value"):
		return "altered-value"
	case strings.Contains(diff, "not strictly increasing"):
		return "duplicate-or-disorder"
	}
	return "query-error"
}

// parseMissing extracts series and timestamp from a "missing sample" difference text.
func parseMissing(diff string) (string, int64, bool) {
	i := strings.Index(diff, "series ")
	j := strings.Index(diff, ": missing sample t=")
	if i < 0 || j < 0 || j < i {
		return "", 0, false
	}
	k := diff[i+len("series ") : j]
	var t int64
	if _, err := fmt.Sscanf(diff[j+len(": missing sample t="):], "%d", &t); err != nil {
		return "", 0, false
	}
	return k, t, true
}
