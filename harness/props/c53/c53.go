// Package c53: a read-only open returns what a read-write open would, and changes nothing.
//
// One case = one tsdbhist history on a real DB; the directory it leaves (after a clean Close, or
// copied while the DB is still open and idle) is copied twice.  Copy RO is opened with
// tsdb.OpenDBReadOnly, copy RW with tsdb.Open and the history's options.  The oracle is the
// equality of what the two opens return (no reference model needed, so it is insensitive to the
// known model-level findings of C01), plus file-tree identity of the RO copy around the
// read-only session, plus containment laws for the block written by FlushWAL.
package c53

import (
	"crypto/sha256"
	"encoding/hex"
	"fmt"
	"io"
	"io/fs"
	"math"
	"math/rand/v2"
	"os"
	"path/filepath"
	"sort"
	"strings"

	"github.com/prometheus/client_golang/prometheus"

	"github.com/prometheus/prometheus/model/value"
	"github.com/prometheus/prometheus/storage"
	"github.com/prometheus/prometheus/tsdb"

	"verif/internal/core"
	"verif/internal/tsdbhist"
	"verif/internal/tsdbx"
)

func init() {
	core.Register(&core.Prop{
		ID:        "C53",
		Title:     "A read-only open returns what a read-write open would, and changes nothing",
		Level:     "exploration",
		Technique: "differential runtime monitor: tsdb.OpenDBReadOnly vs tsdb.Open on byte-identical copies of directories left by generated histories; SHA-256 file-tree identity around the read-only session; containment laws for the FlushWAL block",
		LevelText: "A generated history (in-order and out-of-order floats and native histograms, deletes, head / out-of-order / stale-series / selected-series compactions, overlapping blocks, restarts; tails that leave a stale-series block, an out-of-order block or a selected-series block as the newest block) runs on a real DB; the directory is copied after a clean Close or while the idle DB is still open (an unclean shutdown image). Copy RW is opened with tsdb.Open (history's options), copy RO with OpenDBReadOnly (sandbox inside the data directory or in a sibling directory). Required: Querier and ChunkQuerier (decoded, trimmed) over the full range and over a generated sub-range return the same series and samples from RO as from RW; every file of the RO copy has the same SHA-256 and the directory listing is identical before OpenDBReadOnly and after Close, and the sibling sandbox root is empty again; the block written by DBReadOnly.FlushWAL contains only samples the RW open returns and contains every sample the RW open returns that is in none of its blocks. Held on the observed histories only.",
		LevelNote: "Equality of two opens is the whole query oracle: no reference model. Memory snapshots are switched off in the generated option matrix (snapshot vs WAL equivalence is C23). The file-tree identity is asserted around querying only; FlushWAL runs afterwards in a second read-only session (the statement restricts 'changes nothing' to querying) and changes it makes to the data directory are only counted. The copy-while-open image is taken from a single-threaded idle DB, so it has no torn records. An empty head (nothing outside blocks) allows FlushWAL to fail or write nothing.",
		DesignRef: "DESIGN.md §5 C53",
		Rule:      "case = one history of 15–70 ops plus a generated tail; non-trivial iff the directory holds ≥1 block, the RW open has ≥1 sample in its head and the RW full-range result is non-empty; distinct by (config, op list, copy mode, sandbox mode)",
		Assumptions: []string{
			"cp of an idle single-threaded DB's directory is a valid unclean-shutdown image",
			"sandbox root and data directory are on the same file system (hard links)",
		},
		Cases: func(variant string, tier core.Tier) int {
			if variant != "default" {
				return 0
			}
			if tier == core.Thorough {
				return 2500
			}
			return 110
		},
		Run: run,
		MinNontrivial: func(t core.Tier) int {
			if t == core.Thorough {
				return 1200
			}
			return 50
		},
		CaseTimeoutSec: 300,
	})
}

// ---------------------------------------------------------------- helpers

func copyDir(src, dst string) error {
	return filepath.WalkDir(src, func(p string, d fs.DirEntry, err error) error {
		if err != nil {
			return err
		}
		rel, _ := filepath.Rel(src, p)
		to := filepath.Join(dst, rel)
		if d.IsDir() {
			return os.MkdirAll(to, 0o777)
		}
		in, err := os.Open(p)
		if err != nil {
			return err
		}
		defer in.Close()
		out, err := os.Create(to)
		if err != nil {
			return err
		}
		if _, err := io.Copy(out, in); err != nil {
			out.Close()
			return err
		}
		return out.Close()
	})
}

// treeHash maps every entry below dir (relative path) to "dir" or the SHA-256 of its contents.
func treeHash(dir string) (map[string]string, error) {
	out := map[string]string{}
	err := filepath.WalkDir(dir, func(p string, d fs.DirEntry, err error) error {
		if err != nil {
			return err
		}
		rel, _ := filepath.Rel(dir, p)
		if d.IsDir() {
			out[rel] = "dir"
			return nil
		}
		f, err := os.Open(p)
		if err != nil {
			return err
		}
		defer f.Close()
		h := sha256.New()
		if _, err := io.Copy(h, f); err != nil {
			return err
		}
		out[rel] = hex.EncodeToString(h.Sum(nil))
		return nil
	})
	return out, err
}

func diffTrees(a, b map[string]string) string {
	var ks []string
	for k := range a {
		ks = append(ks, k)
	}
	for k := range b {
		if _, ok := a[k]; !ok {
			ks = append(ks, k)
		}
	}
	sort.Strings(ks)
	var out []string
	for _, k := range ks {
		x, inA := a[k]
		y, inB := b[k]
		switch {
		case !inA:
			out = append(out, "new entry "+k)
		case !inB:
			out = append(out, "entry removed "+k)
		case x != y:
			out = append(out, "contents changed "+k)
		}
	}
	if len(out) > 8 {
		out = append(out[:8], fmt.Sprintf("… %d more", len(out)-8))
	}
	return strings.Join(out, "; ")
}

type triple struct {
	k string
	t int64
	v string
}

func setOf(d tsdbx.Dump) map[triple]bool {
	s := map[triple]bool{}
	for k, ss := range d {
		for _, x := range ss {
			v := x.ValKey()
			if x.IsStale() {
				v = "stale" // staleness markers compare equal whatever their sample type (see tsdbx.EqualDumps)
			}
			s[triple{k, x.T, v}] = true
		}
	}
	return s
}

func trim(d tsdbx.Dump, mint, maxt int64) tsdbx.Dump {
	out := tsdbx.Dump{}
	for k, ss := range d {
		var t []tsdbx.Sample
		for _, s := range ss {
			if s.T >= mint && s.T <= maxt {
				t = append(t, s)
			}
		}
		out[k] = t
	}
	return out
}

// symDiff returns the samples only in a and only in b, sorted.
func symDiff(a, b tsdbx.Dump) (onlyA, onlyB []triple) {
	sa, sb := setOf(a), setOf(b)
	for x := range sa {
		if !sb[x] {
			onlyA = append(onlyA, x)
		}
	}
	for x := range sb {
		if !sa[x] {
			onlyB = append(onlyB, x)
		}
	}
	less := func(s []triple) func(i, j int) bool {
		return func(i, j int) bool {
			if s[i].k != s[j].k {
				return s[i].k < s[j].k
			}
			if s[i].t != s[j].t {
				return s[i].t < s[j].t
			}
			return s[i].v < s[j].v
		}
	}
	sort.Slice(onlyA, less(onlyA))
	sort.Slice(onlyB, less(onlyB))
	return
}

func briefTriples(s []triple) string {
	var sb strings.Builder
	for i, x := range s {
		if i == 6 {
			fmt.Fprintf(&sb, " … %d more", len(s)-6)
			break
		}
		fmt.Fprintf(&sb, " %s@%d", x.k, x.t)
	}
	return sb.String()
}

type querierSrc interface {
	Querier(mint, maxt int64) (storage.Querier, error)
	ChunkQuerier(mint, maxt int64) (storage.ChunkQuerier, error)
}

// dumps returns the sample-level and the decoded chunk-level result over [mint,maxt].
func dumps(src querierSrc, mint, maxt int64) (tsdbx.Dump, tsdbx.Dump, error) {
	q, err := src.Querier(mint, maxt)
	if err != nil {
		return nil, nil, fmt.Errorf("Querier(%d,%d): %w", mint, maxt, err)
	}
	d, _, err := tsdbx.DumpQuerier(q)
	q.Close()
	if err != nil {
		return nil, nil, fmt.Errorf("Select over [%d,%d]: %w", mint, maxt, err)
	}
	cq, err := src.ChunkQuerier(mint, maxt)
	if err != nil {
		return nil, nil, fmt.Errorf("ChunkQuerier(%d,%d): %w", mint, maxt, err)
	}
	cd, _, err := tsdbx.DumpChunkQuerier(cq)
	cq.Close()
	if err != nil {
		return nil, nil, fmt.Errorf("chunk Select over [%d,%d]: %w", mint, maxt, err)
	}
	return d, trim(cd, mint, maxt), nil
}

type blockInfo struct {
	ulid       string
	mint, maxt int64
	counted    bool // counted by the read-write open's WAL cut-off (in-order, whole view)
	hints      []string
}

// cutoffs derives, from the block metas, the WAL cut-off of a read-write open (maximum MaxTime
// over blocks that are not from out-of-order / stale-series / selected-series compactions; the
// documented rule of DB.inOrderBlocksMaxTime's comment) and the candidates for the cut-off of a
// read-only open ("maxt of the last block": MaxTime of a block with the largest MinTime).
func cutoffs(bs []blockInfo) (rw int64, ro []int64) {
	rw = math.MinInt64
	maxMin := int64(math.MinInt64)
	for _, b := range bs {
		if b.counted && b.maxt > rw {
			rw = b.maxt
		}
		if b.mint > maxMin {
			maxMin = b.mint
		}
	}
	for _, b := range bs {
		if b.mint == maxMin {
			ro = append(ro, b.maxt)
		}
	}
	if len(bs) == 0 {
		ro = []int64{math.MinInt64}
	}
	// Since the repair 1f4d4233ae the read-only open uses the read-write rule.  The old rule above
	// is kept for reference only: with ro == {rw} no difference is explained by a cut-off
	// mismatch any more, so a regression to the old behaviour shows up as ro-rw-mismatch.
	_ = maxMin
	ro = []int64{rw}
	return
}

// cutoffWindow picks the read-only cut-off candidate whose window [min(c,rw), max(c,rw)) holds
// the most differing samples; ok=false when no candidate differs from rw.
func cutoffWindow(diff []triple, rw int64, ro []int64) (lo, hi, cut int64, ok bool) {
	best := -1
	for _, c := range ro {
		if c == rw {
			continue
		}
		l, h := min(c, rw), max(c, rw)
		n := 0
		for _, x := range diff {
			if x.t >= l && x.t < h {
				n++
			}
		}
		if n > best {
			best, lo, hi, cut, ok = n, l, h, c, true
		}
	}
	return
}

// splitMasked separates the samples that lie in a range deleted with DB.Delete for their series:
// with different cut-offs the two opens also keep different head tombstones (WAL tombstone
// records whose Maxt is below the cut-off are skipped), so a deleted-but-still-stored sample
// (out-of-order head data, see C01/C20) is masked on the side with the lower cut-off only.
func splitMasked(s []triple, reqs map[string][][2]int64, enabled bool) (in, out []triple) {
	for _, x := range s {
		covered := false
		if enabled {
			for _, rg := range reqs[x.k] {
				if x.t >= rg[0] && x.t <= rg[1] {
					covered = true
					break
				}
			}
		}
		if covered {
			in = append(in, x)
		} else {
			out = append(out, x)
		}
	}
	return
}

// splitWindow separates the samples inside the cut-off window; with a non-nil only set, a sample
// must also be in that set (the read-write open's in-order head: out-of-order data is replayed
// from the WBL without a cut-off, so the cut-off cannot explain its absence).
func splitWindow(s []triple, lo, hi int64, ok bool, only map[triple]bool) (in, out []triple) {
	for _, x := range s {
		if ok && x.t >= lo && x.t < hi && (only == nil || only[x]) {
			in = append(in, x)
		} else {
			out = append(out, x)
		}
	}
	return
}

// ---------------------------------------------------------------- the case

func staleOp(g *tsdbhist.Gen, series []int) tsdbhist.Op {
	g.Clock++
	op := tsdbhist.Op{Kind: "append"}
	for _, si := range series {
		op.Samples = append(op.Samples, tsdbhist.SampleOp{Series: si, T: g.Clock, Kind: "f", F: math.Float64frombits(value.StaleNaN)})
	}
	return op
}

func plainAppend(g *tsdbhist.Gen, r *rand.Rand, series []int) tsdbhist.Op {
	g.Clock += 1 + int64(r.IntN(20))
	op := tsdbhist.Op{Kind: "append"}
	for _, si := range series {
		op.Samples = append(op.Samples, tsdbhist.SampleOp{Series: si, T: g.Clock, Kind: "f", F: float64(r.IntN(1000))})
	}
	return op
}

func run(c *core.Case) {
	r := c.Rng
	cfg := tsdbhist.GenConfig(r)
	cfg.Snapshot = false
	src := c.TempDir()
	e, err := tsdbhist.NewExec(src, cfg)
	core.Must(err, "open fresh db")
	defer e.Close()
	g := tsdbhist.NewGen(r, cfg)
	g.WCompact, g.WRestart = 16, 4
	nops := 15 + r.IntN(56)
	var extra []string
	deleteReqs := map[string][][2]int64{}
	apply := func(op tsdbhist.Op) bool {
		c.Logf("op: %s", op)
		if op.Kind == "delete" {
			for _, si := range op.SeriesSel {
				k := e.Series[si].String()
				deleteReqs[k] = append(deleteReqs[k], [2]int64{op.Mint, op.Maxt})
			}
		}
		if err := e.Apply(op); err != nil {
			// not this property's subject (C01 reports failing operations); nothing to compare
			c.Count("histories_aborted_by_failed_operation", 1)
			c.Logf("operation failed: %v", err)
			return false
		}
		return e.DB != nil
	}
	selected := func() bool {
		refs := e.DB.Head().VerifSeriesRefs()
		var ids []uint64
		for id := range refs {
			ids = append(ids, id)
		}
		if len(ids) == 0 {
			return true
		}
		sort.Slice(ids, func(i, j int) bool { return ids[i] < ids[j] })
		n := 1 + r.IntN(len(ids))
		var sel []storage.SeriesRef
		for _, i := range r.Perm(len(ids))[:n] {
			sel = append(sel, storage.SeriesRef(ids[i]))
		}
		e.Steps = append(e.Steps, fmt.Sprintf("compactSelected%v", sel))
		c.Logf("op: compactSelected%v", sel)
		if err := e.DB.CompactSelectedSeries(sel); err != nil {
			c.Count("histories_aborted_by_failed_operation", 1)
			c.Logf("CompactSelectedSeries failed: %v", err)
			return false
		}
		return true
	}
	for i := 0; i < nops; i++ {
		if r.IntN(40) == 0 {
			if !selected() {
				return
			}
			continue
		}
		if !apply(g.Next()) {
			return
		}
	}
	// tail: shape what the newest block is and what is left only in the WAL / WBL / head chunks
	all := make([]int, cfg.NumSeries)
	for i := range all {
		all[i] = i
	}
	tail := []string{"none", "stale", "ooo", "selected", "head-compaction", "mmap"}[r.IntN(6)]
	ok := true
	switch tail {
	case "stale":
		k := 1 + r.IntN(cfg.NumSeries-1)
		ok = apply(plainAppend(g, r, all)) && apply(staleOp(g, all[:k])) && apply(tsdbhist.Op{Kind: "compactStale"}) && apply(plainAppend(g, r, all[k:]))
	case "ooo":
		ok = apply(plainAppend(g, r, all)) && apply(tsdbhist.Op{Kind: "compactOOO"}) && apply(plainAppend(g, r, all))
	case "selected":
		ok = apply(plainAppend(g, r, all)) && selected() && apply(plainAppend(g, r, all))
	case "head-compaction":
		ok = apply(tsdbhist.Op{Kind: "compactHead", Mint: int64(r.IntN(3))}) && apply(plainAppend(g, r, all))
	case "mmap":
		ok = apply(plainAppend(g, r, all)) && apply(tsdbhist.Op{Kind: "mmap"}) && apply(plainAppend(g, r, all))
	}
	if !ok {
		return
	}
	extra = append(extra, "tail="+tail)
	c.Seen("tail", tail)

	// image of the directory
	copyMode := "clean-close"
	ro, rw := c.TempDir(), c.TempDir()
	if r.IntN(3) == 0 {
		copyMode = "copy-while-open"
		core.Must(copyDir(src, ro), "copy dir")
		if err := e.Close(); err != nil {
			c.Logf("close: %v", err)
		}
	} else {
		if err := e.Close(); err != nil {
			c.Count("histories_aborted_by_failed_operation", 1)
			c.Logf("Close failed: %v", err)
			return
		}
		core.Must(copyDir(src, ro), "copy dir")
	}
	core.Must(copyDir(ro, rw), "copy dir")
	flushSrc := ro
	c.Seen("copy_mode", copyMode)
	extra = append(extra, copyMode)

	// ---- read-write partner
	rwdb, err := tsdb.Open(rw, tsdbx.NopLogger(), prometheus.NewRegistry(), cfg.Options(), nil)
	if err != nil {
		c.Count("rw_open_failed", 1)
		c.Logf("read-write open failed: %v", err)
		return
	}
	rwdb.DisableCompactions()
	rwClosed := false
	defer func() {
		if !rwClosed {
			rwdb.Close()
		}
	}()
	full := [2]int64{math.MinInt64, math.MaxInt64}
	R := cfg.BlockRange
	lo := cfg.Base - 2*R + r.Int64N(8*R)
	sub := [2]int64{lo, lo + r.Int64N(5*R)}
	// a sub-range ending inside the newest block (the read-only open decides per query whether
	// it looks at the WAL at all)
	var metas []blockInfo
	for _, b := range rwdb.Blocks() {
		m := b.Meta()
		metas = append(metas, blockInfo{ulid: m.ULID.String(), mint: m.MinTime, maxt: m.MaxTime, hints: m.Compaction.Hints,
			counted: !m.Compaction.FromOutOfOrder() && !m.Compaction.FromStaleSeries() && !m.Compaction.FromSelectedSeries()})
	}
	if len(metas) > 0 && r.IntN(2) == 0 {
		last := metas[len(metas)-1]
		sub = [2]int64{last.mint - r.Int64N(2*R+1), last.maxt - 1 - r.Int64N(max(1, last.maxt-last.mint))}
	}
	cutRW, cutRO := cutoffs(metas)
	rwFull, rwFullC, err := dumps(rwdb, full[0], full[1])
	if err != nil {
		c.Violatef("rw-query-failed", "read-write open of the copy: %v\nconfig {%s}\nhistory: %s", err, cfg, hist(e, extra))
		return
	}
	rwSub, rwSubC, err := dumps(rwdb, sub[0], sub[1])
	if err != nil {
		c.Violatef("rw-query-failed", "read-write open of the copy: %v\nconfig {%s}\nhistory: %s", err, cfg, hist(e, extra))
		return
	}
	// what the RW open holds in blocks and in the in-order head
	inBlocks := map[triple]bool{}
	for _, b := range rwdb.Blocks() {
		q, err := tsdb.NewBlockQuerier(b, math.MinInt64, math.MaxInt64)
		core.Must(err, "block querier")
		d, _, err := tsdbx.DumpQuerier(q)
		q.Close()
		core.Must(err, "dump block")
		for x := range setOf(d) {
			inBlocks[x] = true
		}
	}
	var inOrderHead map[triple]bool
	{
		h := rwdb.Head()
		q, err := tsdb.NewBlockQuerier(tsdb.NewRangeHead(h, math.MinInt64, math.MaxInt64), math.MinInt64, math.MaxInt64)
		core.Must(err, "head querier")
		d, _, err := tsdbx.DumpQuerier(q)
		q.Close()
		core.Must(err, "dump head")
		inOrderHead = setOf(d)
	}
	headOnly := 0
	for x := range setOf(rwFull) {
		if !inBlocks[x] {
			headOnly++
		}
	}
	core.Must(rwdb.Close(), "close rw")
	rwClosed = true

	describe := func() string {
		var sb strings.Builder
		fmt.Fprintf(&sb, "config {%s}\ncopy: %s; read-write WAL cut-off %d; blocks:", cfg, copyMode, cutRW)
		for _, b := range metas {
			fmt.Fprintf(&sb, " [%d,%d)%v", b.mint, b.maxt, b.hints)
		}
		fmt.Fprintf(&sb, "\nhistory: %s", hist(e, extra))
		return sb.String()
	}

	// ---- read-only session 1: queries, with file-tree identity around it
	sandboxMode := "inside"
	sandboxRoot := ""
	if r.IntN(2) == 0 {
		sandboxMode = "sibling"
		sandboxRoot = c.TempDir()
	}
	c.Seen("sandbox", sandboxMode)
	extra = append(extra, "sandbox="+sandboxMode)
	before, err := treeHash(ro)
	core.Must(err, "hash tree")
	// DBReadOnly documents that it supports one querier per instance ("Current implementation
	// doesn't support multiple Queriers"): every query gets its own open → query → Close session.
	session := func(chunk bool, mint, maxt int64) (tsdbx.Dump, bool) {
		rodb, err := tsdb.OpenDBReadOnly(ro, sandboxRoot, tsdbx.NopLogger())
		if err != nil {
			c.Violatef("ro-open-failed", "OpenDBReadOnly: %v\n%s", err, describe())
			return nil, false
		}
		var d tsdbx.Dump
		var qerr error
		if chunk {
			var cq storage.ChunkQuerier
			if cq, qerr = rodb.ChunkQuerier(mint, maxt); qerr == nil {
				d, _, qerr = tsdbx.DumpChunkQuerier(cq)
				cq.Close()
				d = trim(d, mint, maxt)
			}
		} else {
			var q storage.Querier
			if q, qerr = rodb.Querier(mint, maxt); qerr == nil {
				d, _, qerr = tsdbx.DumpQuerier(q)
				q.Close()
			}
		}
		cerr := rodb.Close()
		if qerr != nil {
			c.Violatef("ro-query-failed", "read-only open, chunk=%v [%d,%d]: %v (the read-write open answers)\n%s", chunk, mint, maxt, qerr, describe())
			return nil, false
		}
		if cerr != nil {
			c.Violatef("ro-close-failed", "DBReadOnly.Close: %v\n%s", cerr, describe())
			return nil, false
		}
		if sandboxRoot != "" {
			es, err := os.ReadDir(sandboxRoot)
			core.Must(err, "readdir sandbox root")
			if len(es) != 0 {
				c.Violatef("ro-session-left-sandbox", "sandbox root still holds %d entries after Close (%s)\n%s", len(es), es[0].Name(), describe())
				return nil, false
			}
		}
		c.Count("read_only_sessions", 1)
		return d, true
	}
	roFull, ok1 := session(false, full[0], full[1])
	if !ok1 {
		return
	}
	roFullC, ok1 := session(true, full[0], full[1])
	if !ok1 {
		return
	}
	roSub, ok1 := session(false, sub[0], sub[1])
	if !ok1 {
		return
	}
	roSubC, ok1 := session(true, sub[0], sub[1])
	if !ok1 {
		return
	}
	after, err := treeHash(ro)
	core.Must(err, "hash tree")
	if d := diffTrees(before, after); d != "" {
		c.Violatef("ro-session-changed-data-dir", "data directory differs after four OpenDBReadOnly → Querier or ChunkQuerier → Close sessions (sandbox %s): %s\n%s", sandboxMode, d, describe())
		return
	}
	c.Count("files_hashed", int64(len(before)))

	cmp := func(what string, roD, rwD tsdbx.Dump, qmaxt int64) bool {
		onlyRO, onlyRW := symDiff(roD, rwD)
		if len(onlyRO) == 0 && len(onlyRW) == 0 {
			if d := tsdbx.EqualDumps(roD, rwD); d != "" { // order / duplicates
				c.Violatef("ro-rw-order-mismatch", "%s: same sample sets but %s\n%s", what, d, describe())
				return false
			}
			return true
		}
		all := append(append([]triple(nil), onlyRO...), onlyRW...)
		lo, hi, cut, okW := cutoffWindow(all, cutRW, cutRO)
		inRO, restRO := splitWindow(onlyRO, lo, hi, okW, nil)
		inRW, restRW := splitWindow(onlyRW, lo, hi, okW, inOrderHead)
		// tombstone records between the cut-offs: visible on the side with the higher cut-off only
		mRO, r2 := splitMasked(restRO, deleteReqs, okW && cut > cutRW)
		inRO, restRO = append(inRO, mRO...), r2
		mRW, r3 := splitMasked(restRW, deleteReqs, okW && cut < cutRW)
		inRW, restRW = append(inRW, mRW...), r3
		if len(inRO)+len(inRW) > 0 {
			c.Violatef("readonly-wal-cutoff-from-last-block-differs-from-readwrite", "%s: read-only and read-write open disagree: %d samples only from the read-only open (%s ), %d only from the read-write open (%s )\nclassification: the read-only open cuts WAL replay at %d (MaxTime of the block with the largest MinTime), the read-write open at %d (largest MaxTime over blocks that are not from out-of-order/stale-series/selected-series compactions); these differing samples have timestamps between the two, or lie in ranges deleted with DB.Delete and are masked only where the tombstone record (Maxt between the cut-offs) is still replayed\n%s", what, len(inRO), briefTriples(inRO), len(inRW), briefTriples(inRW), cut, cutRW, describe())
		}
		if len(restRO)+len(restRW) == 0 {
			return false
		}
		kind := "ro-rw-mismatch"
		why := ""
		if len(restRO) == 0 && qmaxt != math.MaxInt64 {
			// does the read-only open return them when asked for the full range?
			fs := setOf(roFull)
			allInFull := true
			below := true
			for _, x := range restRW {
				if !fs[x] {
					allInFull = false
				}
			}
			for _, c := range cutRO {
				if qmaxt >= c {
					below = false
				}
			}
			if allInFull && below {
				kind = "readonly-subrange-query-ignores-wal-and-wbl"
				why = fmt.Sprintf("\nclassification: the query ends at %d, before the MaxTime of the newest block, so the read-only open does not load the WAL/WBL/head chunks at all (loadDataAsQueryable: maxBlockTime <= maxt); all missing samples are returned by the same read-only open for the full range", qmaxt)
			}
		}
		c.Violatef(kind, "%s: read-only and read-write open disagree: %d samples only from the read-only open (%s ), %d only from the read-write open (%s )%s\n%s", what, len(restRO), briefTriples(restRO), len(restRW), briefTriples(restRW), why, describe())
		return false
	}
	okQ := cmp("Querier full range", roFull, rwFull, full[1])
	okQ = okQ && cmp("ChunkQuerier full range", roFullC, rwFullC, full[1])
	okQ = okQ && cmp(fmt.Sprintf("Querier [%d,%d]", sub[0], sub[1]), roSub, rwSub, sub[1])
	okQ = okQ && cmp(fmt.Sprintf("ChunkQuerier [%d,%d]", sub[0], sub[1]), roSubC, rwSubC, sub[1])
	c.Count("samples_compared", int64(len(setOf(rwFull))))
	c.Count("rw_head_only_samples", int64(headOnly))

	// ---- read-only session 2: FlushWAL
	flushOut := c.TempDir()
	rodb2, err := tsdb.OpenDBReadOnly(flushSrc, "", tsdbx.NopLogger())
	core.Must(err, "second OpenDBReadOnly")
	ferr := rodb2.FlushWAL(flushOut)
	rodb2.Close()
	after2, err := treeHash(ro)
	core.Must(err, "hash tree")
	if d := diffTrees(before, after2); d != "" {
		c.Count("flushwal_changed_data_dir", 1)
		c.Logf("FlushWAL changed the data dir: %s", d)
	}
	flushed := map[triple]bool{}
	es, _ := os.ReadDir(flushOut)
	nblocks := 0
	for _, en := range es {
		if !en.IsDir() {
			continue
		}
		b, err := tsdb.OpenBlock(tsdbx.NopLogger(), filepath.Join(flushOut, en.Name()), nil, nil)
		if err != nil {
			c.Violatef("flushwal-block-unreadable", "block %s written by FlushWAL cannot be opened: %v\n%s", en.Name(), err, describe())
			return
		}
		nblocks++
		q, err := tsdb.NewBlockQuerier(b, math.MinInt64, math.MaxInt64)
		core.Must(err, "block querier")
		d, _, err := tsdbx.DumpQuerier(q)
		q.Close()
		b.Close()
		if err != nil {
			c.Violatef("flushwal-block-unreadable", "block %s written by FlushWAL: %v\n%s", en.Name(), err, describe())
			return
		}
		for x := range setOf(d) {
			flushed[x] = true
		}
	}
	rwSet := setOf(rwFull)
	var spurious, missing []triple
	for x := range flushed {
		if !rwSet[x] {
			spurious = append(spurious, x)
		}
	}
	for x := range rwSet {
		if !inBlocks[x] && !flushed[x] {
			missing = append(missing, x)
		}
	}
	sortTriples(spurious)
	sortTriples(missing)
	switch {
	case ferr != nil && headOnly == 0:
		c.Count("flushwal_failed_on_empty_head", 1)
	case ferr != nil:
		c.Violatef("flushwal-failed", "FlushWAL: %v although the read-write open holds %d samples outside blocks\n%s", ferr, headOnly, describe())
	case len(spurious) > 0 || len(missing) > 0:
		lo, hi, cut, okW := cutoffWindow(append(append([]triple(nil), spurious...), missing...), cutRW, cutRO)
		inSp, restSp := splitWindow(spurious, lo, hi, okW, nil)
		inMi, restMi := splitWindow(missing, lo, hi, okW, inOrderHead)
		head := fmt.Sprintf("block written by FlushWAL (%d blocks, %d samples)", nblocks, len(flushed))
		if len(inSp)+len(inMi) > 0 {
			c.Violatef("readonly-wal-cutoff-from-last-block-differs-from-readwrite", "%s: %d samples that the read-write open does not return (%s ), %d samples the read-write open returns from outside its blocks are missing (%s )\nclassification: FlushWAL cuts WAL replay at %d (MaxTime of the block with the largest MinTime), the read-write open at %d; these differing samples have timestamps between the two\n%s", head, len(inSp), briefTriples(inSp), len(inMi), briefTriples(inMi), cut, cutRW, describe())
		}
		if len(restSp)+len(restMi) > 0 {
			kind := "flushwal-block-mismatch"
			why := ""
			// an out-of-order head sample at the timestamp of an in-order one shadows it in the read-write
			// result: the flushed block then holds the in-order value (spurious) and lacks the
			// out-of-order one (missing) - the same omission, seen at one timestamp
			shadowed := 0
			for _, sp := range restSp {
				for _, mi := range restMi {
					if mi.k == sp.k && mi.t == sp.t && !inOrderHead[mi] {
						shadowed++
						break
					}
				}
			}
			allOOO := len(restSp) == shadowed
			for _, x := range restMi {
				if inOrderHead[x] {
					allOOO = false
				}
			}
			if allOOO {
				kind = "flushwal-omits-out-of-order-head-data"
				why = "\nclassification: nothing spurious; every missing sample is outside the read-write open's in-order head, i.e. lives in its out-of-order head (WBL / out-of-order head chunks): FlushWAL writes a RangeHead, which has no out-of-order data"
			}
			c.Violatef(kind, "%s: %d samples that the read-write open does not return (%s ), %d samples the read-write open returns from outside its blocks are missing (%s )%s\n%s", head, len(restSp), briefTriples(restSp), len(restMi), briefTriples(restMi), why, describe())
		}
	}
	c.Count("flushwal_samples", int64(len(flushed)))
	_ = okQ
	if len(metas) > 0 && len(inOrderHead) > 0 && len(rwSet) > 0 {
		c.Nontrivial(cfg.String(), hist(e, extra))
	}
	for _, b := range metas {
		switch {
		case len(b.hints) > 0:
			c.Seen("block_class", strings.Join(b.hints, "+"))
		default:
			c.Seen("block_class", "in-order")
		}
	}
	if c.Idx < 2 {
		c.Sample(map[string]any{"config": cfg.String(), "history": hist(e, extra), "blocks": len(metas), "rw_samples": len(rwSet), "rw_head_only_samples": headOnly, "flushed_samples": len(flushed), "files_hashed": len(before)})
	}
}

func sortTriples(s []triple) {
	sort.Slice(s, func(i, j int) bool {
		if s[i].k != s[j].k {
			return s[i].k < s[j].k
		}
		if s[i].t != s[j].t {
			return s[i].t < s[j].t
		}
		return s[i].v < s[j].v
	})
}

func hist(e *tsdbhist.Exec, extra []string) string {
	s := e.History()
	if len(s) > 3500 {
		s = "… " + s[len(s)-3500:]
	}
	return s + " ; " + strings.Join(extra, " ; ")
}
