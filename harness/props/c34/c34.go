// Package c34: limit_ratio(r, v) and limit_ratio(r-1, v) partition v; selection depends only on
// labels; raising r never deselects (runtime monitor over real engine queries + the exported sampler).
package c34

import (
	"context"
	"fmt"
	"math"
	"math/rand/v2"
	"sort"
	"strconv"
	"strings"
	"time"

	"github.com/prometheus/prometheus/model/histogram"
	"github.com/prometheus/prometheus/model/labels"
	"github.com/prometheus/prometheus/promql"
	"github.com/prometheus/prometheus/promql/parser"
	"github.com/prometheus/prometheus/tsdb"

	"verif/internal/core"
	"verif/internal/gen"
)

// Violation kinds.  KindBoundary and KindOffsetOne are narrow predicates computed on the witness;
// everything that does not satisfy them keeps one of the other kinds.
//
// Both narrow kinds fire on the unchanged tree (known findings, see /verif/known_findings.jsonl):
//
//   - KindBoundary: promql/engine.go AddRatioSampleWithOffset compares offset < r for r >= 0 and
//     offset >= 1.0+ratioLimit for the complement; the complement query receives the already rounded
//     r-1, and 1+(r-1) != r in float64 for most r < 0.5.  r=0.1, off=0.09999999999999998: both
//     select; r=0.3, off=0.3: neither selects.  Through real queries: choose r equal or 1 ulp next to
//     a series' own SampleOffset.
//   - KindOffsetOne: SampleOffset = float64(hash)/float64(MaxUint64) is exactly 1.0 for hashes
//     >= 2^64-1024 (doc says [0,1)); AddRatioSampleWithOffset(1, 1.0) = false and limit_ratio(0, v)
//     is empty, so at r = 1 such a series is in neither result.
const (
	// the disputed sampling offset lies in [min(r, 1+(r-1)), max(r, 1+(r-1))): float rounding of the
	// complement boundary.
	KindBoundary = "complement-rounding-boundary"
	// r == 1 exactly and the sampling offset is exactly 1.0 (hash within 1024 of MaxUint64).
	KindOffsetOne = "offset-one-unselected-at-ratio-one"
	KindOverlap   = "partition-overlap"
	KindGap       = "partition-gap"
	KindMonotone  = "monotonicity"
	KindValueDep  = "value-dependence"
	KindVectorDep = "vector-dependence"
	KindSpurious  = "spurious-series"
	KindDuplicate = "duplicate-series"
	KindValue     = "value-changed"
	KindQueryErr  = "query-error"
)

func init() {
	core.Register(&core.Prop{
		ID:        "C34",
		Title:     "Complementary limit_ratio selections partition the input",
		Level:     "exploration",
		Technique: "runtime monitor: set-algebra oracle (disjoint, covering, label-only, monotone) over real limit_ratio instant/range queries and over the exported HashRatioSampler at offsets adjacent to the selection boundary",
		LevelText: "Each case builds a TSDB head with 8..40 generated series (float, integer- and float-histogram samples, values changing over three timestamps), and runs v, limit_ratio(r, v) and limit_ratio(r-1, v) through the real PromQL engine (instant and range queries, with and without grouping) for generated ratios r in [0,1]; two ratios per case are chosen equal or 1 ulp adjacent to the sampling offset of one of the series (SampleOffset), so the selection boundary is hit through the query path. Oracle: per step the two results are disjoint, their union is exactly v (same labels, same values), selected label sets do not change when values change or when other series leave the vector, and a larger r selects a superset. In addition 40 (quick) offset probes per case go to AddRatioSampleWithOffset(r, off) / (r-1, off) at offsets that a 64-bit label hash can produce (multiples of 2^-64 in [0,1]) within 3 ulps or 3 hash steps of r and of 1+(r-1): exactly one of the two must select, and selection must be monotone in r. Held on the observed (vector, ratio, offset) combinations only.",
		LevelNote: "Trusted: the engine's plain selector result as v; strconv shortest formatting + PromQL number parsing to pass r bit-exactly (verified per ratio by evaluating the literal as a scalar query; otherwise the case is inconclusive). Offsets handed to the sampler API are restricted to values of the documented form hash/2^64. Values are compared with all NaNs equal. Ratios outside [-1,1] are not generated (not in the statement). Monotonicity is checked only for r in [0,1].",
		DesignRef: "DESIGN.md §5 C34",
		Rule:      "case = one generated vector (series set with values at 3 timestamps) with 5 ratios (2 boundary-adjacent, 3 from classes: decimal fractions, 0, 1, powers of two ±1ulp, tiny, near 1, uniform) and 40 sampler probes; non-trivial iff at least one ratio gave two non-empty complementary results and at least one boundary-adjacent ratio was evaluated through the engine; distinct by (series labels, ratios)",
		Assumptions: []string{
			"limit_ratio needs the experimental-functions parser option; enabled",
			"a sample is identified by its full label set (incl. __name__) at one evaluation timestamp",
		},
		Cases: func(variant string, tier core.Tier) int {
			if variant != "default" {
				return 0
			}
			if tier == core.Thorough {
				return 40000
			}
			return 1500
		},
		Run:            run,
		MinNontrivial:  func(t core.Tier) int { return 300 },
		CaseTimeoutSec: 120,
	})
}

var sampler = promql.NewHashRatioSampler()

// ---------------------------------------------------------------- reporting

type viol struct{ kind, detail string }

// reporter buffers violations so that kinds other than the narrow known ones are recorded first
// (core keeps at most 8 violations per case).
type reporter struct {
	c     *core.Case
	other []viol
	known []viol
}

func (rp *reporter) add(kind, format string, args ...any) {
	v := viol{kind, fmt.Sprintf(format, args...)}
	if kind == KindBoundary || kind == KindOffsetOne {
		rp.known = append(rp.known, v)
		rp.c.Count("hits_"+kind, 1)
	} else {
		rp.other = append(rp.other, v)
	}
}

func (rp *reporter) flush() {
	seen := map[string]int{}
	for _, v := range rp.other {
		if seen[v.kind] < 2 {
			rp.c.Violatef(v.kind, "%s", v.detail)
		}
		seen[v.kind]++
	}
	for _, v := range rp.known {
		if seen[v.kind] < 1 {
			rp.c.Violatef(v.kind, "%s", v.detail)
		}
		seen[v.kind]++
	}
}

// classify names the kind of a partition failure (selected by both or by neither) of a sample whose
// sampling offset is off, at ratio r.
func classify(r, off float64, both bool) string {
	comp := 1 + (r - 1) // the complement boundary as float arithmetic on the user-supplied r-1 yields it
	lo, hi := math.Min(r, comp), math.Max(r, comp)
	if off >= lo && off < hi {
		return KindBoundary
	}
	if !both && r == 1 && off == 1 {
		return KindOffsetOne
	}
	if both {
		return KindOverlap
	}
	return KindGap
}

func fl(x float64) string { return strconv.FormatFloat(x, 'g', -1, 64) }

// ---------------------------------------------------------------- ratios and offsets

func genRatio(r *rand.Rand) (float64, string) {
	var x float64
	var class string
	switch r.IntN(12) {
	case 0:
		x, class = gen.Pick(r, []float64{0.1, 0.2, 1.0 / 3, 0.3, 0.05}), "brief-decimal"
	case 1:
		x, class = gen.Pick(r, []float64{0, 1, 0.5, 0.25, 0.75}), "exact"
	case 2:
		b := gen.Pick(r, []float64{0.5, 1, 0.25, 0.125})
		if r.IntN(2) == 0 {
			x = math.Nextafter(b, 0)
		} else {
			x = math.Nextafter(b, 2)
		}
		class = "pow2-neighbour"
	case 3:
		x, class = math.Ldexp(r.Float64(), -r.IntN(80)), "tiny"
	case 4:
		x, class = 1-math.Ldexp(r.Float64(), -r.IntN(60)), "near-one"
	case 5, 6:
		x, class = float64(1+r.IntN(999))/1000, "decimal-3"
	default:
		x, class = r.Float64(), "uniform"
	}
	if !(x >= 0) {
		x = 0
	}
	if x > 1 {
		x = 1
	}
	return x, class
}

// reachable reports whether off has the documented form hash/2^64 for some 64-bit hash (after the
// float conversion of the hash): a multiple of 2^-64 in [0,1].
func reachable(off float64) bool {
	if !(off >= 0 && off <= 1) {
		return false
	}
	x := math.Ldexp(off, 64)
	return x == math.Floor(x)
}

// offsetsNear returns reachable offsets within 3 ulps / 3 hash steps of b.
func offsetsNear(b float64) []float64 {
	var out []float64
	add := func(x float64) {
		if reachable(x) {
			out = append(out, x)
		}
	}
	x := b
	for i := 0; i < 3; i++ {
		x = math.Nextafter(x, -1)
	}
	for i := 0; i < 7; i++ {
		add(x)
		x = math.Nextafter(x, 2)
	}
	g := math.Ldexp(math.Floor(math.Ldexp(b, 64)), -64)
	step := math.Ldexp(1, -64)
	for k := -3; k <= 3; k++ {
		add(g + float64(k)*step)
	}
	return out
}

func probeSampler(c *core.Case, rp *reporter, n int) {
	r := c.Rng
	done, atBoundary := 0, 0
	for done < n {
		ratio, class := genRatio(r)
		c.Seen("probe_ratio_class", class)
		comp := 1 + (ratio - 1)
		offs := append(offsetsNear(ratio), offsetsNear(comp)...)
		offs = append(offs, 0, 1, math.Nextafter(1, 0), math.Ldexp(1, -64), math.Ldexp(float64(r.Uint64()>>11), -53))
		hi := ratio + (1-ratio)*r.Float64() // some larger ratio in [ratio,1]
		if r.IntN(2) == 0 {
			hi = math.Nextafter(ratio, 2)
		}
		if hi > 1 {
			hi = 1
		}
		lo := ratio * r.Float64()
		if r.IntN(2) == 0 {
			lo = math.Nextafter(ratio, -1)
		}
		if lo < 0 {
			lo = 0
		}
		for _, off := range offs {
			if !reachable(off) {
				continue
			}
			done++
			if math.Abs(off-ratio) <= 8*ulp(ratio) || math.Abs(off-comp) <= 8*ulp(comp) {
				atBoundary++
			}
			a := sampler.AddRatioSampleWithOffset(ratio, off)
			b := sampler.AddRatioSampleWithOffset(ratio-1, off)
			if a == b {
				k := classify(ratio, off, a)
				c.Seen("failure_shape", fmt.Sprintf("%s/both=%v", k, a))
				rp.add(k, "sampler: r=%s (r-1=%s, 1+(r-1)=%s) offset=%s: AddRatioSampleWithOffset(r,off)=%v and AddRatioSampleWithOffset(r-1,off)=%v; exactly one must select", fl(ratio), fl(ratio-1), fl(comp), fl(off), a, b)
			}
			if a && !sampler.AddRatioSampleWithOffset(hi, off) {
				rp.add(KindMonotone, "sampler: offset=%s selected at r=%s but not at larger r=%s", fl(off), fl(ratio), fl(hi))
			}
			if !a && sampler.AddRatioSampleWithOffset(lo, off) {
				rp.add(KindMonotone, "sampler: offset=%s selected at r=%s but not at larger r=%s", fl(off), fl(lo), fl(ratio))
			}
		}
	}
	c.Count("sampler_probes", int64(done))
	c.Count("sampler_probes_within_8ulp_of_boundary", int64(atBoundary))
}

func ulp(x float64) float64 {
	x = math.Abs(x)
	return math.Nextafter(x, math.Inf(1)) - x
}

// ---------------------------------------------------------------- engine part

const (
	baseT = int64(1_000_000)
	stepT = int64(10_000)
)

type point struct {
	f float64
	h *histogram.FloatHistogram
}

func (p point) key() string {
	if p.h != nil {
		return "h:" + gen.FloatHistKey(p.h)
	}
	if math.IsNaN(p.f) {
		return "f:NaN"
	}
	return fmt.Sprintf("f:%016x", math.Float64bits(p.f))
}

// stepResult: series key → value at one evaluation timestamp.
type stepResult struct {
	vals map[string]point
	lbls map[string]labels.Labels
	dup  string
}

func newStep() *stepResult {
	return &stepResult{vals: map[string]point{}, lbls: map[string]labels.Labels{}}
}

func (s *stepResult) put(m labels.Labels, p point) {
	k := m.String()
	if _, ok := s.vals[k]; ok {
		s.dup = k
	}
	s.vals[k] = p
	s.lbls[k] = m
}

type env struct {
	c   *core.Case
	rp  *reporter
	eng *promql.Engine
	db  *tsdb.DB
	n   int // queries run
}

func (e *env) instant(q string, t int64) (*stepResult, bool) {
	e.n++
	qry, err := e.eng.NewInstantQuery(context.Background(), e.db, nil, q, time.UnixMilli(t))
	if err != nil {
		e.rp.add(KindQueryErr, "instant query %q rejected: %v", q, err)
		return nil, false
	}
	defer qry.Close()
	res := qry.Exec(context.Background())
	if res.Err != nil {
		e.rp.add(KindQueryErr, "instant query %q at %d failed: %v", q, t, res.Err)
		return nil, false
	}
	vec, err := res.Vector()
	if err != nil {
		e.rp.add(KindQueryErr, "instant query %q: not a vector: %v", q, err)
		return nil, false
	}
	out := newStep()
	for _, s := range vec {
		p := point{f: s.F}
		if s.H != nil {
			p.h = s.H.Copy()
		}
		out.put(s.Metric, p)
	}
	return out, true
}

func (e *env) scalar(q string, t int64) (float64, bool) {
	e.n++
	qry, err := e.eng.NewInstantQuery(context.Background(), e.db, nil, q, time.UnixMilli(t))
	if err != nil {
		return 0, false
	}
	defer qry.Close()
	res := qry.Exec(context.Background())
	if res.Err != nil {
		return 0, false
	}
	sc, err := res.Scalar()
	if err != nil {
		return 0, false
	}
	return sc.V, true
}

// rangeQ returns one stepResult per evaluation step.
func (e *env) rangeQ(q string, start, end, step int64) (map[int64]*stepResult, bool) {
	e.n++
	qry, err := e.eng.NewRangeQuery(context.Background(), e.db, nil, q, time.UnixMilli(start), time.UnixMilli(end), time.Duration(step)*time.Millisecond)
	if err != nil {
		e.rp.add(KindQueryErr, "range query %q rejected: %v", q, err)
		return nil, false
	}
	defer qry.Close()
	res := qry.Exec(context.Background())
	if res.Err != nil {
		e.rp.add(KindQueryErr, "range query %q failed: %v", q, res.Err)
		return nil, false
	}
	mat, err := res.Matrix()
	if err != nil {
		e.rp.add(KindQueryErr, "range query %q: not a matrix: %v", q, err)
		return nil, false
	}
	out := map[int64]*stepResult{}
	at := func(t int64) *stepResult {
		if out[t] == nil {
			out[t] = newStep()
		}
		return out[t]
	}
	for _, s := range mat {
		for _, p := range s.Floats {
			at(p.T).put(s.Metric, point{f: p.F})
		}
		for _, p := range s.Histograms {
			at(p.T).put(s.Metric, point{h: p.H.Copy()})
		}
	}
	return out, true
}

// checkPartition applies the covering/disjointness oracle for one evaluation step.
func (e *env) checkPartition(what string, r float64, base, a, b *stepResult) (selA, selB int) {
	if a == nil {
		a = newStep()
	}
	if b == nil {
		b = newStep()
	}
	if base == nil {
		base = newStep()
	}
	for name, s := range map[string]*stepResult{"limit_ratio(r,v)": a, "limit_ratio(r-1,v)": b} {
		if s.dup != "" {
			e.rp.add(KindDuplicate, "%s: r=%s: %s contains series %s more than once", what, fl(r), name, s.dup)
		}
		for k, p := range s.vals {
			bp, ok := base.vals[k]
			if !ok {
				e.rp.add(KindSpurious, "%s: r=%s: %s returned %s which is not an element of v", what, fl(r), name, k)
				continue
			}
			if bp.key() != p.key() {
				e.rp.add(KindValue, "%s: r=%s: %s returned %s with value %s, v has %s", what, fl(r), name, k, p.key(), bp.key())
			}
		}
	}
	keys := make([]string, 0, len(base.vals))
	for k := range base.vals {
		keys = append(keys, k)
	}
	sort.Strings(keys)
	for _, k := range keys {
		_, inA := a.vals[k]
		_, inB := b.vals[k]
		if inA {
			selA++
		}
		if inB {
			selB++
		}
		if inA == inB {
			m := base.lbls[k]
			off := sampler.SampleOffset(&m)
			kind := classify(r, off, inA)
			e.c.Seen("failure_shape", fmt.Sprintf("%s/both=%v", kind, inA))
			which := "NEITHER"
			if inA {
				which = "BOTH"
			}
			e.rp.add(kind, "%s: series %s (SampleOffset=%s) is selected by %s of limit_ratio(%s, v) and limit_ratio(%s, v); r=%s r-1=%s 1+(r-1)=%s; |v|=%d", what, k, fl(off), which, fl(r), fl(r-1), fl(r), fl(r-1), fl(1+(r-1)), len(base.vals))
		}
	}
	e.c.Count("samples_checked_for_partition", int64(len(keys)))
	return selA, selB
}

type ratio struct {
	r        float64
	class    string
	boundary bool
}

func run(c *core.Case) {
	rp := &reporter{c: c}
	defer rp.flush()
	r := c.Rng

	nprobe := 40
	if c.Tier == core.Thorough {
		nprobe = 60
	}
	probeSampler(c, rp, nprobe)

	// ---- build the vector
	dir := c.TempDir()
	opts := tsdb.DefaultOptions()
	opts.RetentionDuration = 0
	opts.MinBlockDuration = int64(24 * time.Hour / time.Millisecond)
	opts.MaxBlockDuration = opts.MinBlockDuration
	opts.WALSegmentSize = -1 // no WAL: the head is only a container for the query engine here
	opts.NoLockfile = true
	db, err := tsdb.Open(dir, nil, nil, opts, tsdb.NewDBStats())
	core.Must(err, "open tsdb")
	defer db.Close()

	n := 8 + r.IntN(33)
	lsets := make([]labels.Labels, n)
	kinds := make([]int, n) // 0 float, 1 int hist, 2 float hist, 3 mixed
	var keyParts []string
	for i := range lsets {
		b := labels.NewBuilder(gen.LabelSet(r, 3))
		b.Set("s", fmt.Sprint(i))
		lsets[i] = b.Labels()
		kinds[i] = []int{0, 0, 0, 1, 2, 3}[r.IntN(6)]
		keyParts = append(keyParts, lsets[i].String())
	}
	for k := int64(0); k < 3; k++ {
		t := baseT + k*stepT
		app := db.Appender(context.Background())
		for i, ls := range lsets {
			if r.IntN(8) == 0 {
				continue
			}
			kind := kinds[i]
			if kind == 3 {
				kind = r.IntN(3)
			}
			var err error
			switch kind {
			case 0:
				_, err = app.Append(0, ls, t, gen.Float(r, false))
			case 1:
				_, err = app.AppendHistogram(0, ls, t, gen.NewAbsHist(r, true).Int(r), nil)
			case 2:
				_, err = app.AppendHistogram(0, ls, t, nil, gen.NewAbsHist(r, true).Float(r))
			}
			core.Must(err, "append")
		}
		core.Must(app.Commit(), "commit")
	}

	e := &env{c: c, rp: rp, db: db, eng: promql.NewEngine(promql.EngineOpts{
		MaxSamples: 10_000_000, Timeout: 100 * time.Second,
		EnableAtModifier: true, EnableNegativeOffset: true,
		Parser: parser.NewParser(parser.Options{EnableExperimentalFunctions: true}),
	})}

	sel := `{__name__=~".+"}`
	subsel := `{__name__=~".+",s=~"` + gen.Pick(r, []string{".*[02468]", "[12]?[0-9]", ".*[^3]", "1.*|2.*|5"}) + `"}`
	grouping := gen.Pick(r, []string{"", "", " by (job)", " without (s)", " by (zone, env)", " by (nosuchlabel)"})
	c.Seen("grouping", grouping)
	lr := func(param, v string) string { return "limit_ratio" + grouping + " (" + param + ", " + v + ")" }

	// ---- ratios
	var ratios []ratio
	for i := 0; i < 2; i++ {
		m := lsets[r.IntN(n)]
		off := sampler.SampleOffset(&m)
		x, class := off, "boundary-equal"
		switch r.IntN(3) {
		case 1:
			x, class = math.Nextafter(off, 2), "boundary-above"
		case 2:
			x, class = math.Nextafter(off, -1), "boundary-below"
		}
		if x >= 0 && x <= 1 {
			ratios = append(ratios, ratio{x, class, true})
		}
	}
	for len(ratios) < 5 {
		x, class := genRatio(r)
		ratios = append(ratios, ratio{x, class, false})
	}
	sort.Slice(ratios, func(i, j int) bool { return ratios[i].r < ratios[j].r })

	tq := baseT + stepT*int64(1+r.IntN(2)) // T1 or T2
	base, ok := e.instant(sel, tq)
	if !ok {
		return
	}
	if base.dup != "" {
		c.Inconclusive("plain selector returned duplicate series %s", base.dup)
		return
	}

	partitioned, boundaryEvaluated := 0, 0
	var prevA *stepResult
	var prevR float64
	var ratioKey []string
	type selInfo struct {
		R          string `json:"r"`
		Class      string `json:"class"`
		SelA, SelB int
	}
	var infos []selInfo
	for _, rt := range ratios {
		c.Seen("ratio_class", rt.class)
		ratioKey = append(ratioKey, fl(rt.r))
		pa := fl(rt.r)
		pb := fl(rt.r - 1)
		if r.IntN(2) == 0 {
			pb = "(" + fl(rt.r) + " - 1)"
		}
		// the harness must be able to hand r and r-1 to the engine bit-exactly
		if v, ok := e.scalar(pa, tq); !ok || v != rt.r {
			c.Inconclusive("ratio literal %q evaluates to %v, wanted %v", pa, v, rt.r)
			return
		}
		if v, ok := e.scalar(pb, tq); !ok || v != rt.r-1 {
			c.Inconclusive("complement literal %q evaluates to %v, wanted %v", pb, v, rt.r-1)
			return
		}
		a, okA := e.instant(lr(pa, sel), tq)
		b, okB := e.instant(lr(pb, sel), tq)
		if !okA || !okB {
			continue
		}
		sa, sb := e.checkPartition(fmt.Sprintf("instant t=%d%s", tq, grouping), rt.r, base, a, b)
		c.Count("engine_ratio_triples", 1)
		infos = append(infos, selInfo{fl(rt.r), rt.class, sa, sb})
		if sa > 0 && sb > 0 {
			partitioned++
		}
		if rt.boundary {
			boundaryEvaluated++
			c.Count("engine_boundary_ratios", 1)
		}
		// monotone in r (ratios are sorted ascending)
		if prevA != nil && prevR < rt.r {
			for k := range prevA.vals {
				if _, still := a.vals[k]; !still {
					rp.add(KindMonotone, "instant t=%d%s: series %s selected by limit_ratio(%s, v) but not by limit_ratio(%s, v)", tq, grouping, k, fl(prevR), fl(rt.r))
					break
				}
			}
			c.Count("monotone_pairs", 1)
		}
		prevA, prevR = a, rt.r
	}

	// ---- label-only dependence (a): other timestamp, other values
	pick := ratios[r.IntN(len(ratios))]
	other := baseT
	if tq == baseT+stepT && r.IntN(2) == 0 {
		other = baseT + 2*stepT
	}
	if a1, ok := e.instant(lr(fl(pick.r), sel), tq); ok {
		if a2, ok := e.instant(lr(fl(pick.r), sel), other); ok {
			if base2, ok := e.instant(sel, other); ok {
				changed := 0
				for k, p1 := range base.vals {
					p2, both := base2.vals[k]
					if !both {
						continue
					}
					if p1.key() != p2.key() {
						changed++
					}
					_, in1 := a1.vals[k]
					_, in2 := a2.vals[k]
					if in1 != in2 {
						rp.add(KindValueDep, "series %s: limit_ratio(%s, v) selects it at t=%d (value %s): %v, at t=%d (value %s): %v", k, fl(pick.r), tq, p1.key(), in1, other, p2.key(), in2)
					}
				}
				c.Count("value_dependence_series_with_changed_value", int64(changed))
			}
		}
		// ---- label-only dependence (b): sub-vector
		if bs, ok := e.instant(subsel, tq); ok {
			if as, ok := e.instant(lr(fl(pick.r), subsel), tq); ok {
				for k := range bs.vals {
					_, inFull := a1.vals[k]
					_, inSub := as.vals[k]
					if inFull != inSub {
						rp.add(KindVectorDep, "series %s: selected=%v by limit_ratio(%s, v) with |v|=%d but selected=%v with the sub-vector %s (|v'|=%d)", k, inFull, fl(pick.r), len(base.vals), inSub, subsel, len(bs.vals))
					}
				}
				for k := range as.vals {
					if _, ok := bs.vals[k]; !ok {
						rp.add(KindSpurious, "limit_ratio(%s, %s) returned %s which is not in the sub-vector", fl(pick.r), subsel, k)
					}
				}
				c.Count("subvector_series_compared", int64(len(bs.vals)))
			}
		}
	}

	// ---- range query: the partition must hold at every step
	rq := ratios[r.IntN(len(ratios))]
	start, end := baseT, baseT+2*stepT
	step := gen.Pick(r, []int64{stepT, stepT / 2, stepT * 2})
	bm, ok1 := e.rangeQ(sel, start, end, step)
	am, ok2 := e.rangeQ(lr(fl(rq.r), sel), start, end, step)
	cm, ok3 := e.rangeQ(lr(fl(rq.r-1), sel), start, end, step)
	if ok1 && ok2 && ok3 {
		for t := start; t <= end; t += step {
			sa, sb := e.checkPartition(fmt.Sprintf("range step t=%d%s", t, grouping), rq.r, bm[t], am[t], cm[t])
			if sa > 0 && sb > 0 {
				partitioned++
			}
			c.Count("range_steps_checked", 1)
		}
		for t := range am {
			if (t-start)%step != 0 || t < start || t > end {
				rp.add(KindSpurious, "range query limit_ratio(%s, v) has a point at t=%d outside the step grid", fl(rq.r), t)
			}
		}
	}
	c.Count("engine_queries", int64(e.n))

	if partitioned > 0 && boundaryEvaluated > 0 {
		c.Nontrivial(strings.Join(keyParts, ";"), strings.Join(ratioKey, ","))
	}
	if c.Idx < 3 {
		c.Sample(map[string]any{"series": n, "vector_size_at_t": len(base.vals), "t": tq, "grouping": grouping, "ratios": infos, "first_series": lsets[0].String()})
	}
}
