// Package c38: relabeling follows its documented semantics (differential monitor against a
// direct interpreter of docs/configuration/configuration.md §relabel_config over the standard
// regexp package).
package c38

import (
	"crypto/md5"
	"fmt"
	"math/rand/v2"
	"regexp"
	"sort"
	"strconv"
	"strings"
	"unicode/utf8"

	"github.com/prometheus/common/model"

	"github.com/prometheus/prometheus/model/labels"
	"github.com/prometheus/prometheus/model/relabel"

	"verif/internal/core"
)

func init() {
	core.Register(&core.Prop{
		ID:        "C38",
		Title:     "Relabeling follows its documented semantics",
		Level:     "exploration",
		Technique: "differential runtime monitor: relabel.ProcessBuilder vs a reference interpreter of the documented actions over the standard regexp package, rule by rule and as a chain",
		LevelText: "Generated label sets (0-9 labels, empty/Unicode/newline/invalid-UTF-8 values, __meta_/__tmp names) and generated rule chains (1-6 rules of all eleven actions, accepted by Config.Validate under the legacy or UTF-8 name scheme: several source labels, separators, regexes with numbered and named groups, replacement and target templates with $1/${name}/$$, modulus) are run through relabel.ProcessBuilder. Oracle: (a) each rule applied alone to the current label set must give the keep flag and label map computed by the reference interpreter (anchored std-regexp match, template expansion, invalid expanded target name = no-op, empty result = deletion, md5 last-8-bytes hashmod, labelmap/labeldrop/labelkeep over a snapshot of the names; for labelmap collisions every colliding source value is accepted); (b) the whole chain applied to one Builder (also a Builder that reaches the same logical label set through pending Set/Del operations) must equal the composition of the single steps; (c) every result is strictly name-sorted, without empty values or duplicate names. Held on the observed (label set, chain) pairs only.",
		LevelNote: "Trusted: Go's regexp (Compile, FindStringSubmatchIndex, ExpandString) as the regular-expression and template reference; strings.ToLower/ToUpper as 'lower/upper case'; '.' matches newline ('^(?s:…)$' anchoring as in DESIGN.md). relabel.Process does not exist at the pinned commit, only ProcessBuilder is driven. Patterns that are not valid regular expressions on their own (e.g. 'a)|(b', which NewRegexp accepts and which comes out unanchored) are outside the quantifier ('valid rule sequences'): counted, not judged. Label content after a drop is not compared (unspecified). When a labelmap/replace template expands to the empty label name (both sides agree on that step) the label set leaves the domain of model/labels ('Prometheus does not store blank label names'); the remaining rules of that chain are not judged.",
		DesignRef: "DESIGN.md §5 C38",
		Rule:      "case = one generated valid rule chain applied to 4 generated label sets; a (chain,label set) pair is non-trivial iff at least one rule changed the label set or dropped it and every rule before the drop was evaluated against the reference; distinct by the rendering of chain + label set",
		Assumptions: []string{
			"source labels that do not exist read as the empty string (documented)",
			"a label set to the empty string is removed (statement: result has no empty values)",
		},
		Cases: func(variant string, tier core.Tier) int {
			if variant != "default" {
				return 0
			}
			if tier == core.Thorough {
				return 600000
			}
			return 20000
		},
		Run:           run,
		MinNontrivial: func(t core.Tier) int { return 2000 },
	})
}

// ---------------------------------------------------------------- rule description (generator level)

type rule struct {
	action  string
	src     []string
	sep     string
	pattern string // "" + defaultRegex=true means: regex left at the package default
	defRe   bool   // use relabel.DefaultRelabelConfig.Regex itself (pointer identity: enables the fast path)
	mod     uint64
	target  string
	repl    string
	utf8    bool // name validation scheme of this rule
	unset   bool // leave NameValidationScheme unset in the Config (Validate fills it from the global)

	re  *regexp.Regexp  // reference: std regexp, anchored
	cfg *relabel.Config // implementation under test
}

func (r *rule) String() string {
	sch := "legacy"
	if r.utf8 {
		sch = "utf8"
	}
	pat := r.pattern
	if r.defRe {
		pat = "<default (.*)>"
	}
	return fmt.Sprintf("{%s src=%q sep=%q regex=%q mod=%d target=%q repl=%q %s}", r.action, r.src, r.sep, pat, r.mod, r.target, r.repl, sch)
}

var (
	nameLegacy = []string{"job", "instance", "__name__", "__address__", "__meta_a", "__meta_b", "__meta_kubernetes_pod", "__tmp_x", "a", "b", "c", "env", "zone", "A", "foo_bar", "t", "ab"}
	nameUTF8   = []string{"très", "my.label", "dash-ed", "日本", "with space"}
	valuePool  = []string{"x", "prod", "Prod", "PROD", "dev;prod", "a;b", "10", "7", "foo-bar", "localhost:9090", "10.0.0.1:80", "new\nline", "日本", "ÀÉî", "İstanbul", "straße", "a", "b", "ab", "web-1", "$1", "x_y", "c;", ";", " ", "\xff", "job", "très"}
	seps       = []string{";", ";", ";", "", ",", "-", "::", "\n", "$"}

	valuePatterns = []string{"(.*)", "", ".*", "(.+)", "x", "prod|dev", "(?i)prod", "(?i:P)rod", "([^;]*);(.*)", "(?P<first>[a-z]+)-(?P<rest>.*)", "(.*):(\\d+)", "(a)|(b)", "\\d+", "(x)?(.*)", ".", "foo.bar", "(.*);(.*);(.*)", "([^:]+)(?::\\d+)?", "a|ab", "(a|ab)(c|bcd)?(.*)", "[[:alpha:]]+", "(.*)\n(.*)", "(\\w+)", ".+;.+", "(.*?)-(.*)", "(?P<v>.*)", "\\$1", "(.*)(.*)"}
	namePatterns  = []string{"__meta_(.+)", "__meta_.*", "(a|b)", "(.*)", "(.+)", "[a-z]+", "__.*", "(?i)a", "job|instance", "(j)(ob)", "__tmp.*", "(.)(.*)", "(?P<n>[a-z]+)_.*", "(a)(b)?", "__meta_(a|b)", "[^_].*", "(.*)_(.*)", "a|ab", ".", "env|zone|t"}
	// not valid regular expressions on their own, yet accepted by the "^(?s:" + s + ")$" wrapping
	injectPatterns = []string{"a)|(b", "x)(", "prod)|(.*"}

	replTemplates   = []string{"$1", "${1}", "$2", "foo", "", "$1-$2", "$$1", "${1}x", "$1x", "${first}", "$rest:$first", "literal$", "pre${2}post", "$0", "${1}:9100", "$2;$1", "X", "${v}", "$3$2$1", "${1}${1}", "$", "${", "a$$b", "${9}", "$first$rest"}
	targetTemplates = []string{"t", "job", "a", "__tmp_x", "instance", "env", "${1}", "t_$1", "$2", "${first}", "l_${1}_s", "$1", "${1}_${2}", "__meta_$1", "${v}", "$rest"}
	mapTemplates    = []string{"$1", "${1}", "x_$1", "${1}_x", "$1$2", "b", "${n}", "$2$1", "meta_${1}", "a$1", "${2}", "job", "$0", "_$0", "${1}${1}"}
)

func pick(r *rand.Rand, xs []string) string { return xs[r.IntN(len(xs))] }

func genName(r *rand.Rand, utf bool) string {
	if utf && r.IntN(4) == 0 {
		return pick(r, nameUTF8)
	}
	return pick(r, nameLegacy)
}

func genSrc(r *rand.Rand, utf bool) []string {
	n := []int{0, 1, 1, 1, 2, 2, 3}[r.IntN(7)]
	if r.IntN(60) == 0 {
		n = 17 + r.IntN(3) // beyond the 16-entry stack array of the implementation
	}
	out := make([]string, 0, n)
	for i := 0; i < n; i++ {
		out = append(out, genName(r, utf))
	}
	return out
}

// genRule draws one rule; ok=false when the implementation's Validate / NewRegexp rejects it.
func genRule(c *core.Case, r *rand.Rand, globalUTF8 bool) (*rule, bool) {
	ru := &rule{sep: ";", repl: "$1", defRe: true, pattern: "(.*)", utf8: globalUTF8, unset: true}
	if r.IntN(5) == 0 {
		ru.unset = false
		ru.utf8 = r.IntN(2) == 0
	}
	acts := []string{"replace", "replace", "replace", "replace", "keep", "drop", "keepequal", "dropequal", "hashmod", "labelmap", "labelmap", "labeldrop", "labelkeep", "lowercase", "uppercase"}
	ru.action = acts[r.IntN(len(acts))]
	setRegex := func(pool []string) {
		switch r.IntN(8) {
		case 0: // stays the package default object
		case 1:
			ru.defRe, ru.pattern = false, "(.*)" // same text, fresh object: no fast path
		default:
			ru.defRe, ru.pattern = false, pick(r, pool)
			if r.IntN(150) == 0 {
				ru.pattern = pick(r, injectPatterns)
			}
		}
	}
	switch ru.action {
	case "replace":
		ru.src = genSrc(r, ru.utf8)
		ru.sep = pick(r, seps)
		setRegex(valuePatterns)
		ru.repl = pick(r, replTemplates)
		if r.IntN(3) == 0 {
			ru.target = pick(r, targetTemplates)
		} else {
			ru.target = genName(r, ru.utf8)
		}
	case "keep", "drop":
		ru.src = genSrc(r, ru.utf8)
		ru.sep = pick(r, seps)
		setRegex(valuePatterns)
	case "keepequal", "dropequal":
		ru.src = genSrc(r, ru.utf8)
		ru.target = genName(r, ru.utf8)
	case "hashmod":
		ru.src = genSrc(r, ru.utf8)
		ru.sep = pick(r, seps)
		ru.mod = []uint64{1, 2, 3, 7, 10, 16, 1000, 1 << 32, 1<<63 + 5, 1<<64 - 1}[r.IntN(10)]
		ru.target = genName(r, ru.utf8)
	case "labelmap":
		setRegex(namePatterns)
		ru.repl = pick(r, mapTemplates)
	case "labeldrop", "labelkeep":
		setRegex(namePatterns)
	case "lowercase", "uppercase":
		ru.src = genSrc(r, ru.utf8)
		ru.sep = pick(r, seps)
		ru.target = genName(r, ru.utf8)
	}

	cfg := relabel.DefaultRelabelConfig // value copy, as UnmarshalYAML does
	cfg.Action = relabel.Action(ru.action)
	if len(ru.src) > 0 {
		for _, s := range ru.src {
			cfg.SourceLabels = append(cfg.SourceLabels, model.LabelName(s))
		}
	}
	cfg.Separator = ru.sep
	cfg.Modulus = ru.mod
	cfg.TargetLabel = ru.target
	cfg.Replacement = ru.repl
	if !ru.defRe {
		re, err := relabel.NewRegexp(ru.pattern)
		_, serr := regexp.Compile(ru.pattern)
		if serr != nil {
			if err == nil {
				c.Count("patterns_invalid_standalone_but_accepted_by_NewRegexp", 1)
			}
			return nil, false
		}
		if err != nil {
			c.Violatef("regex-accept-mismatch", "pattern %q is a valid regular expression for the reference but relabel.NewRegexp failed: %v", ru.pattern, err)
			return nil, false
		}
		cfg.Regex = re
	}
	if !ru.unset {
		cfg.NameValidationScheme = model.LegacyValidation
		if ru.utf8 {
			cfg.NameValidationScheme = model.UTF8Validation
		}
	}
	global := model.LegacyValidation
	if globalUTF8 {
		global = model.UTF8Validation
	}
	if err := cfg.Validate(global); err != nil {
		c.Count("rules_rejected_by_Validate", 1)
		return nil, false
	}
	ru.cfg = &cfg
	ref, err := regexp.Compile(`\A(?s:` + ru.pattern + `)\z`)
	core.Must(err, "reference regexp")
	ru.re = ref
	return ru, true
}

// ---------------------------------------------------------------- reference interpreter

func validName(name string, utf bool) bool {
	if name == "" {
		return false
	}
	if utf {
		return utf8.ValidString(name)
	}
	for i := 0; i < len(name); i++ {
		b := name[i]
		switch {
		case b >= 'a' && b <= 'z', b >= 'A' && b <= 'Z', b == '_':
		case b >= '0' && b <= '9' && i > 0:
		default:
			return false
		}
	}
	return true
}

type outcome struct {
	keep bool
	want map[string]string
	alts map[string]map[string]bool // labelmap collisions: several acceptable values for a name
}

func cloneMap(m map[string]string) map[string]string {
	o := make(map[string]string, len(m))
	for k, v := range m {
		o[k] = v
	}
	return o
}

func setOrDel(m map[string]string, k, v string) {
	if v == "" {
		delete(m, k)
	} else {
		m[k] = v
	}
}

func sortedNames(m map[string]string) []string {
	ks := make([]string, 0, len(m))
	for k := range m {
		ks = append(ks, k)
	}
	sort.Strings(ks)
	return ks
}

// refStep interprets one rule on a label map as documented.
func refStep(state map[string]string, ru *rule) outcome {
	vals := make([]string, len(ru.src))
	for i, s := range ru.src {
		vals[i] = state[s] // missing ⇒ ""
	}
	val := strings.Join(vals, ru.sep)
	out := outcome{keep: true, want: cloneMap(state)}
	switch ru.action {
	case "keep":
		out.keep = ru.re.MatchString(val)
	case "drop":
		out.keep = !ru.re.MatchString(val)
	case "keepequal":
		out.keep = state[ru.target] == val
	case "dropequal":
		out.keep = state[ru.target] != val
	case "replace":
		idx := ru.re.FindStringSubmatchIndex(val)
		if idx == nil {
			break
		}
		target := string(ru.re.ExpandString(nil, ru.target, val, idx))
		if !validName(target, ru.utf8) {
			break
		}
		setOrDel(out.want, target, string(ru.re.ExpandString(nil, ru.repl, val, idx)))
	case "lowercase":
		setOrDel(out.want, ru.target, strings.ToLower(val))
	case "uppercase":
		setOrDel(out.want, ru.target, strings.ToUpper(val))
	case "hashmod":
		sum := md5.Sum([]byte(val))
		var h uint64
		for _, b := range sum[8:16] {
			h = h<<8 | uint64(b)
		}
		out.want[ru.target] = strconv.FormatUint(h%ru.mod, 10)
	case "labelmap":
		// snapshot semantics: every matching name of the *input* set is copied
		cand := map[string]map[string]bool{}
		for _, n := range sortedNames(state) {
			idx := ru.re.FindStringSubmatchIndex(n)
			if idx == nil {
				continue
			}
			nn := string(ru.re.ExpandString(nil, ru.repl, n, idx))
			if cand[nn] == nil {
				cand[nn] = map[string]bool{}
			}
			cand[nn][state[n]] = true
		}
		for nn, vs := range cand {
			if len(vs) == 1 {
				for v := range vs {
					out.want[nn] = v
				}
				continue
			}
			if out.alts == nil {
				out.alts = map[string]map[string]bool{}
			}
			out.alts[nn] = vs
			delete(out.want, nn)
		}
	case "labeldrop":
		for n := range state {
			if ru.re.MatchString(n) {
				delete(out.want, n)
			}
		}
	case "labelkeep":
		for n := range state {
			if !ru.re.MatchString(n) {
				delete(out.want, n)
			}
		}
	}
	return out
}

// ---------------------------------------------------------------- observation helpers

// observe lists the builder's result and checks canonical form.
func observe(c *core.Case, lb *labels.Builder, what string) (map[string]string, bool) {
	ls := lb.Labels()
	m := map[string]string{}
	ok := true
	prev, first := "", true
	n := 0
	ls.Range(func(l labels.Label) {
		n++
		if !first && !(prev < l.Name) {
			c.Violatef("result-not-canonical", "%s: result %s is not strictly sorted by name (%q then %q)", what, ls.String(), prev, l.Name)
			ok = false
		}
		if l.Value == "" {
			c.Violatef("result-not-canonical", "%s: result %s holds an empty value for %q", what, ls.String(), l.Name)
			ok = false
		}
		prev, first = l.Name, false
		m[l.Name] = l.Value
	})
	if n != ls.Len() || n != len(m) {
		c.Violatef("result-not-canonical", "%s: result %s: Range yields %d labels, Len()=%d, distinct names %d", what, ls.String(), n, ls.Len(), len(m))
		ok = false
	}
	return m, ok
}

func sameMap(a, b map[string]string) bool {
	if len(a) != len(b) {
		return false
	}
	for k, v := range a {
		if w, ok := b[k]; !ok || w != v {
			return false
		}
	}
	return true
}

func accepts(o outcome, got map[string]string) bool {
	if len(got) != len(o.want)+len(o.alts) {
		return false
	}
	for k, v := range o.want {
		if w, ok := got[k]; !ok || w != v {
			return false
		}
	}
	for k, vs := range o.alts {
		if w, ok := got[k]; !ok || !vs[w] {
			return false
		}
	}
	return true
}

func renderMap(m map[string]string) string {
	var sb strings.Builder
	sb.WriteByte('{')
	for i, k := range sortedNames(m) {
		if i > 0 {
			sb.WriteString(", ")
		}
		fmt.Fprintf(&sb, "%q=%s", k, short(m[k]))
	}
	sb.WriteByte('}')
	return sb.String()
}

func short(v string) string {
	if len(v) > 48 {
		return fmt.Sprintf("%q…(%d bytes)", v[:16], len(v))
	}
	return strconv.Quote(v)
}

func renderOutcome(o outcome) string {
	s := fmt.Sprintf("keep=%v %s", o.keep, renderMap(o.want))
	for _, k := range func() []string {
		ks := []string{}
		for k := range o.alts {
			ks = append(ks, k)
		}
		sort.Strings(ks)
		return ks
	}() {
		vs := []string{}
		for v := range o.alts[k] {
			vs = append(vs, v)
		}
		sort.Strings(vs)
		s += fmt.Sprintf(" %q∈%q", k, vs)
	}
	return s
}

func genLabelMap(r *rand.Rand, utf bool) map[string]string {
	m := map[string]string{}
	n := r.IntN(10)
	for i := 0; i < n; i++ {
		m[genName(r, utf)] = pick(r, valuePool)
	}
	if r.IntN(30) == 0 {
		m["long"] = strings.Repeat("Vv", 600)
	}
	return m
}

// dirtyBuilder returns a Builder whose logical content is m but which reaches it through pending
// Set/Del operations over a different base.
func dirtyBuilder(r *rand.Rand, m map[string]string) *labels.Builder {
	base := map[string]string{}
	var later [][2]string
	for _, k := range sortedNames(m) { // sorted: PRNG consumption must not depend on map order
		v := m[k]
		switch r.IntN(3) {
		case 0:
			base[k] = v
		case 1:
			base[k] = v + "_old"
			later = append(later, [2]string{k, v})
		default:
			later = append(later, [2]string{k, v})
		}
	}
	var dels []string
	for i := r.IntN(3); i > 0; i-- {
		k := pick(r, nameLegacy)
		if _, ok := m[k]; !ok {
			base[k] = "to_be_deleted"
			dels = append(dels, k)
		}
	}
	sort.Slice(later, func(i, j int) bool { return later[i][0] < later[j][0] })
	r.Shuffle(len(later), func(i, j int) { later[i], later[j] = later[j], later[i] })
	lb := labels.NewBuilder(labels.FromMap(base))
	for _, d := range dels {
		if r.IntN(2) == 0 {
			lb.Del(d)
		} else {
			lb.Set(d, "")
		}
	}
	for _, kv := range later {
		lb.Set(kv[0], kv[1])
	}
	return lb
}

// ---------------------------------------------------------------- the case

func run(c *core.Case) {
	r := c.Rng
	globalUTF8 := r.IntN(3) == 0
	nrules := 1 + r.IntN(6)
	var rules []*rule
	for tries := 0; len(rules) < nrules && tries < 40*nrules; tries++ {
		if ru, ok := genRule(c, r, globalUTF8); ok {
			rules = append(rules, ru)
		}
		if c.Violated() {
			return
		}
	}
	if len(rules) == 0 {
		c.Count("cases_without_valid_rule", 1)
		return
	}
	cfgs := make([]*relabel.Config, len(rules))
	var chainText strings.Builder
	for i, ru := range rules {
		cfgs[i] = ru.cfg
		chainText.WriteString(ru.String())
	}

	for ls := 0; ls < 4; ls++ {
		start := genLabelMap(r, globalUTF8)
		// (a) rule by rule against the reference
		state := cloneMap(start)
		keptAll := true
		effect := false
		dropAt := -1
		leftDomain := false
		collided := false // a labelmap collision may legitimately resolve differently on a differently laid out builder
		for i, ru := range rules {
			lb := labels.NewBuilder(labels.FromMap(state))
			keep := relabel.ProcessBuilder(lb, ru.cfg)
			want := refStep(state, ru)
			c.Count("rule_applications", 1)
			c.Seen("action", ru.action)
			if keep != want.keep {
				c.Violatef("keep-mismatch", "rule %s on %s: ProcessBuilder keep=%v, documented semantics give keep=%v", ru, renderMap(state), keep, want.keep)
				return
			}
			if !keep {
				keptAll, dropAt, effect = false, i, true
				c.Count("drops", 1)
				break
			}
			got, ok := observe(c, lb, fmt.Sprintf("rule %s on %s", ru, renderMap(state)))
			if !ok {
				return
			}
			if !accepts(want, got) {
				c.Violatef("labels-mismatch", "rule %s on %s: ProcessBuilder gives %s, documented semantics give %s", ru, renderMap(state), renderMap(got), renderOutcome(want))
				return
			}
			if len(want.alts) > 0 {
				collided = true
				c.Count("labelmap_collisions_with_distinct_values", 1)
			}
			if !sameMap(got, state) {
				effect = true
				c.Count("rule_applications_with_effect", 1)
				c.Seen("action_with_effect", ru.action)
			}
			state = got
			if _, blank := state[""]; blank {
				// labelmap/replace expanded a template to the empty label name.  model/labels documents
				// "Prometheus does not store blank label names" (Get/Has special-case ""), so the
				// following rules would run outside the domain of the label-set type: stop here.
				leftDomain = true
				c.Count("label_sets_abandoned_blank_label_name_created", 1)
				break
			}
		}
		if collided {
			c.Count("chain_comparisons_skipped_for_labelmap_collision", 1)
		}
		if leftDomain || collided {
			if effect {
				c.Nontrivial(chainText.String(), renderMap(start))
			}
			continue
		}
		// (b) the whole chain on one builder = composition of the steps
		for variant := 0; variant < 2; variant++ {
			var lb *labels.Builder
			name := "clean builder"
			if variant == 0 {
				lb = labels.NewBuilder(labels.FromMap(start))
			} else {
				lb = dirtyBuilder(r, start)
				name = "builder with pending Set/Del"
				if pre, _ := observe(c, lb, "harness: dirty builder"); !sameMap(pre, start) {
					// Builder semantics themselves are C39's subject; here it is only a precondition.
					c.Violatef("builder-precondition", "builder with pending operations does not hold %s but %s", renderMap(start), renderMap(pre))
					return
				}
			}
			keep := relabel.ProcessBuilder(lb, cfgs...)
			if keep != keptAll {
				c.Violatef("chain-vs-steps-mismatch", "%s: chain %s on %s: keep=%v, rule-by-rule application gives keep=%v (drop at rule %d)", name, chainText.String(), renderMap(start), keep, keptAll, dropAt)
				return
			}
			if keep {
				got, ok := observe(c, lb, "chain "+chainText.String()+" on "+renderMap(start))
				if !ok {
					return
				}
				if !sameMap(got, state) {
					c.Violatef("chain-vs-steps-mismatch", "%s: chain %s on %s gives %s, rule-by-rule application gives %s", name, chainText.String(), renderMap(start), renderMap(got), renderMap(state))
					return
				}
			}
			c.Count("chains_compared", 1)
		}
		if effect {
			c.Nontrivial(chainText.String(), renderMap(start))
		}
		if c.Idx < 3 && ls == 0 {
			c.Sample(map[string]any{"rules": chainText.String(), "labels": renderMap(start), "kept": keptAll, "result": renderMap(state)})
		}
	}
}
