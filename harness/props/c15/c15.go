// Package c15: WAL truncation keeps everything replay still needs (head and agent storage).
//
// Head cases drive a real tsdb.DB (tiny block ranges, 32 KiB WAL segments) through appends with
// series churn, deletes, metadata, exemplars, Compact / CompactHead / CompactStaleHead /
// CompactSelectedSeries and restarts.  A hook callback at tsdb.truncWAL.beforeCheckpoint copies the
// WAL directory (the retained full log) right before the checkpoint is written.  After the operation
// the truncated log is (a) decoded and checked for referential integrity in replay order and
// (b) replayed into a fresh Head, as is the retained full log, both with minValidTime = truncation
// time; samples (tombstones applied), tombstone intervals and exemplars at or after that time must
// be equal, and the latest metadata record per surviving series must be the same in both logs.
//
// Agent cases do the same on agent.DB with VerifTruncate; the agent has no query path, so the
// equivalence is taken on the decoded record streams (entries attributed to label sets through the
// series records that precede them).
package c15

import (
	"context"
	"fmt"
	"math"
	"math/rand/v2"
	"os"
	"path/filepath"
	"sort"
	"strings"
	"time"

	"github.com/prometheus/prometheus/model/exemplar"
	"github.com/prometheus/prometheus/model/histogram"
	"github.com/prometheus/prometheus/model/labels"
	"github.com/prometheus/prometheus/model/metadata"
	"github.com/prometheus/prometheus/model/value"
	"github.com/prometheus/prometheus/storage"
	"github.com/prometheus/prometheus/tsdb"
	"github.com/prometheus/prometheus/tsdb/agent"
	"github.com/prometheus/prometheus/tsdb/tombstones"
	"github.com/prometheus/prometheus/tsdb/wlog"
	"github.com/prometheus/prometheus/util/compression"

	"verif/internal/core"
	"verif/internal/gen"
	"verif/internal/sched"
	"verif/internal/tsdbx"
	"verif/props/c48/walscan"
)

func init() {
	core.Register(&core.Prop{
		ID:        "C15",
		Title:     "WAL truncation keeps everything replay still needs",
		Level:     "exploration",
		Technique: "runtime monitor: referential-integrity scan of the decoded log plus differential replay (truncated log vs retained copy of the untruncated log) after every truncation of generated head and agent histories",
		LevelText: "Two of three cases drive a real tsdb.DB (block range 100-400, 32 KiB segments, three compressions, exemplar storage and metadata records on) through generated histories: appender batches (V1 and V2; floats, integer/float/custom-bucket histograms, stale markers, exemplars, metadata changes), series that stop and later reappear (garbage collection, duplicate series records), deletes incl. open-ended ranges, Compact, CompactHead on chosen ranges, CompactStaleHead, CompactSelectedSeries, rollbacks and restarts. At the hook tsdb.truncWAL.beforeCheckpoint the WAL directory is copied. After the operation (a) every sample, histogram, exemplar, metadata and tombstone entry of the truncated log must refer to a ref whose series record occurs earlier in replay order (checkpoint first); (b) the truncated log and the retained copy are each replayed by a fresh tsdb.Head (Init with the truncation time as minValidTime): the sample dumps (tombstones applied), the tombstone intervals clipped to the truncation time of series that have data, and the exemplars must be equal, and for every series record surviving in the truncated log the latest metadata entry must be the one of the full log. The third case does the same for agent.DB with VerifTruncate(mint) and both checkpoint implementations, the equivalence being taken on the decoded entries with t >= mint attributed to label sets. Held on the observed truncations only.",
		LevelNote: "Reductions: latest metadata is compared on the decoded records (the head exposes no metadata reader); for DB.Compact the truncation time is not observable from outside, the head's MinTime read at the hook (never below the truncation time) is used as comparison bound, for CompactHead the exact bound is known; out-of-order ingestion is off (the WBL is not this property's log); tombstones are compared only for series that have samples at or after the bound in one of the replays; exemplars of series that a [MinInt64,MaxInt64] tombstone record evicts during replay are not compared (Head replay applies that eviction asynchronously to exemplar ingestion, the outcome is timing dependent for both logs); referential integrity is demanded for samples, histograms and exemplars at or after the bound only (entries below it, tombstones and metadata of collected series legitimately stay in the untouched segments); truncation times may go down (agent: generated; head: after a restart) and are judged at the largest bound seen so far; appenders are not interleaved (C48 covers that). Trusted: wlog.Reader/record.Decoder and Head.Init as replay implementation (it is the code under test for replay, used identically on both logs).",
		DesignRef: "DESIGN.md §5 C15",
		Rule:      "case = one history of 30-90 steps (idx%3==2: agent, else head); non-trivial iff at least one truncation wrote a checkpoint that dropped at least one series record while the full log still replays at least one sample at or after the truncation time, and the comparison ran; distinct by the hash of configuration and step trace",
		Cases: func(variant string, tier core.Tier) int {
			if variant != "default" {
				return 0
			}
			if tier == core.Thorough {
				return 2500
			}
			return 120
		},
		Run:            run,
		MinNontrivial:  func(t core.Tier) int { return 40 },
		CaseTimeoutSec: 600,
	})
}

func run(c *core.Case) {
	if c.Idx%3 == 2 {
		runAgent(c)
		return
	}
	runHead(c)
}

// ---------------------------------------------------------------- shared: log views

// integrity checks that every entry the replay still needs refers to a ref defined earlier in
// replay order: samples, histograms and exemplars at or after bound.  Entries below the bound,
// tombstones and metadata that refer to a ref without series record are counted as stale (they
// belong to collected series; whether anything needed got lost is decided by the equivalence check).
type orphan struct {
	class string
	ref   uint64
	loc   int
	desc  string
}

func integrity(sc *walscan.Scan, bound int64) (orphans []orphan, defined map[uint64][]string, nEntries, stale int) {
	defined = map[uint64][]string{}
	chk := func(class string, ref uint64, loc int, t int64, desc string) {
		nEntries++
		if len(defined[ref]) == 0 {
			if class == "tombstone" || class == "metadata" || t < bound {
				stale++
				return
			}
			orphans = append(orphans, orphan{class, ref, loc, desc})
		}
	}
	for _, rec := range sc.Recs {
		for _, s := range rec.Series {
			defined[uint64(s.Ref)] = append(defined[uint64(s.Ref)], s.Labels.String())
		}
		for _, s := range rec.Samples {
			chk("sample", uint64(s.Ref), rec.Loc, s.T, fmt.Sprintf("float t=%d", s.T))
		}
		for _, s := range rec.Hists {
			chk("sample", uint64(s.Ref), rec.Loc, s.T, fmt.Sprintf("histogram t=%d", s.T))
		}
		for _, s := range rec.FHists {
			chk("sample", uint64(s.Ref), rec.Loc, s.T, fmt.Sprintf("float histogram t=%d", s.T))
		}
		for _, e := range rec.Exemplars {
			chk("exemplar", uint64(e.Ref), rec.Loc, e.T, fmt.Sprintf("exemplar t=%d %s", e.T, e.Labels))
		}
		for _, m := range rec.Metadata {
			chk("metadata", uint64(m.Ref), rec.Loc, 0, fmt.Sprintf("metadata type=%d unit=%q help=%q", m.Type, m.Unit, m.Help))
		}
		for _, st := range rec.Tombstones {
			chk("tombstone", uint64(st.Ref), rec.Loc, 0, fmt.Sprintf("tombstone %v", st.Intervals))
		}
	}
	return orphans, defined, nEntries, stale
}

func locName(l int) string {
	if l < 0 {
		return "checkpoint"
	}
	return fmt.Sprintf("segment %d", l)
}

// attributed returns the multiset of (labels, t, value) of all sample/exemplar entries with t >= mint
// whose ref has an earlier series record (first record of the ref names it), and for every key the
// highest location (-1 = checkpoint) it occurs at.
func attributed(sc *walscan.Scan, mint int64) (map[string]int, map[string]int) {
	out := map[string]int{}
	maxLoc := map[string]int{}
	lbl := map[uint64]string{}
	add := func(loc int, ref uint64, t int64, val string) {
		l, ok := lbl[ref]
		if !ok || t < mint {
			return
		}
		k := fmt.Sprintf("%s|%d|%s", l, t, val)
		if out[k] == 0 || loc > maxLoc[k] {
			maxLoc[k] = loc
		}
		out[k]++
	}
	for _, rec := range sc.Recs {
		for _, s := range rec.Series {
			if _, ok := lbl[uint64(s.Ref)]; !ok {
				lbl[uint64(s.Ref)] = s.Labels.String()
			}
		}
		for _, s := range rec.Samples {
			add(rec.Loc, uint64(s.Ref), s.T, tsdbx.Sample{Kind: "f", F: s.V}.ValKey())
		}
		for _, s := range rec.Hists {
			add(rec.Loc, uint64(s.Ref), s.T, tsdbx.Sample{Kind: "h", H: s.H}.ValKey())
		}
		for _, s := range rec.FHists {
			add(rec.Loc, uint64(s.Ref), s.T, tsdbx.Sample{Kind: "fh", FH: s.FH}.ValKey())
		}
		for _, e := range rec.Exemplars {
			add(rec.Loc, uint64(e.Ref), e.T, fmt.Sprintf("e:%016x:%s", math.Float64bits(e.V), e.Labels))
		}
	}
	return out, maxLoc
}

// evictedByFullRangeTombstone returns the label sets of refs for which the log holds a tombstone
// record with the single interval [MinInt64, MaxInt64].
func evictedByFullRangeTombstone(sc *walscan.Scan) map[string]bool {
	out := map[string]bool{}
	lbl := map[uint64][]string{}
	for _, rec := range sc.Recs {
		for _, s := range rec.Series {
			lbl[uint64(s.Ref)] = append(lbl[uint64(s.Ref)], s.Labels.String())
		}
		for _, st := range rec.Tombstones {
			if len(st.Intervals) == 1 && st.Intervals[0].Mint == math.MinInt64 && st.Intervals[0].Maxt == math.MaxInt64 {
				for _, l := range lbl[uint64(st.Ref)] {
					out[l] = true
				}
			}
		}
	}
	return out
}

func latestMeta(sc *walscan.Scan) map[uint64]string {
	out := map[uint64]string{}
	for _, rec := range sc.Recs {
		for _, m := range rec.Metadata {
			out[uint64(m.Ref)] = fmt.Sprintf("type=%d unit=%q help=%q", m.Type, m.Unit, m.Help)
		}
	}
	return out
}

func countSeriesRecs(sc *walscan.Scan) map[uint64]bool {
	out := map[uint64]bool{}
	for _, rec := range sc.Recs {
		for _, s := range rec.Series {
			out[uint64(s.Ref)] = true
		}
	}
	return out
}

func tail(tr []string, n int) string {
	if len(tr) > n {
		tr = tr[len(tr)-n:]
	}
	return strings.Join(tr, " ; ")
}

// ---------------------------------------------------------------- head part

type hser struct {
	ls     labels.Labels
	kind   int // 0 float 1 int hist 2 float hist
	abs    *gen.AbsHist
	active bool
	meta   int
}

type headHist struct {
	c   *core.Case
	r   *rand.Rand
	dir string
	db  *tsdb.DB
	ctl *sched.Controller

	chunkRange int64
	comp       compression.Type
	isoOff     bool

	series []*hser
	now    int64
	uid    int64
	trace  []string

	// set by the hook callback
	hookHits  int
	fullCopy  string
	hookMinT  int64
	hookErr   error
	copySeq   int
	scratch   string
	exactMint *int64

	maxBound     int64
	hasBound     bool
	evictMaxts   []int64
	truncChecked int
	dropsSeen    int
	nontrivial   bool
	stop         bool
}

func (h *headHist) tr(format string, args ...any) {
	s := fmt.Sprintf(format, args...)
	h.trace = append(h.trace, s)
	h.c.Logf("%s", s)
}

func (h *headHist) opts() *tsdb.Options {
	o := tsdb.DefaultOptions()
	o.MinBlockDuration = h.chunkRange
	o.MaxBlockDuration = h.chunkRange * 4
	o.WALSegmentSize = 32 * 1024
	o.WALCompression = h.comp
	o.RetentionDuration = math.MaxInt64 / 4
	o.NoLockfile = true
	o.EnableExemplarStorage = true
	o.MaxExemplars = 100000
	o.EnableMetadataWALRecords = true
	o.IsolationDisabled = h.isoOff
	o.OutOfOrderTimeWindow = 0
	o.StripeSize = 16
	return o
}

func (h *headHist) open() bool {
	db, err := tsdb.Open(h.dir, tsdbx.NopLogger(), nil, h.opts(), nil)
	if err != nil {
		h.c.Violatef("head-reopen-failed", "tsdb.Open failed: %v\ntrace: %s", err, tail(h.trace, 40))
		h.stop = true
		return false
	}
	db.DisableCompactions()
	h.db = db
	if h.c.Verbose {
		var bl []string
		for _, b := range db.Blocks() {
			m := b.Meta()
			bl = append(bl, fmt.Sprintf("[%d,%d) stale=%v sel=%v", m.MinTime, m.MaxTime, m.Compaction.FromStaleSeries(), m.Compaction.FromSelectedSeries()))
		}
		h.c.Logf("opened: head [%d,%d] series=%d blocks=%v", db.Head().MinTime(), db.Head().MaxTime(), db.Head().NumSeries(), bl)
	}
	return true
}

func (h *headHist) walDir() string { return filepath.Join(h.dir, "wal") }

func (h *headHist) onHit(site string, _ *sched.Actor) {
	if site != "tsdb.truncWAL.beforeCheckpoint" {
		return
	}
	h.hookHits++
	h.copySeq++
	dst := filepath.Join(h.scratch, fmt.Sprintf("full-%d", h.copySeq))
	if err := walscan.CopyDir(h.walDir(), dst); err != nil {
		h.hookErr = err
		return
	}
	if h.fullCopy != "" {
		os.RemoveAll(h.fullCopy)
	}
	h.fullCopy = dst
	h.hookMinT = h.db.Head().MinTime()
}

type replayed struct {
	dump   tsdbx.Dump
	stones map[string]tombstones.Intervals
	exs    map[string][]string
	series int
}

// replay loads a copy of a WAL directory into a fresh Head with the given minValidTime and
// returns everything observable at or after it.
func (h *headHist) replay(walCopy string, minValid int64) (*replayed, error) {
	chunkRoot, err := os.MkdirTemp(h.scratch, "replay-")
	if err != nil {
		return nil, err
	}
	defer os.RemoveAll(chunkRoot)
	w, err := wlog.NewSize(tsdbx.NopLogger(), nil, walCopy, 32*1024, h.comp)
	if err != nil {
		return nil, fmt.Errorf("open wal copy: %w", err)
	}
	ho := tsdb.DefaultHeadOptions()
	ho.ChunkRange = h.chunkRange
	ho.ChunkDirRoot = chunkRoot
	ho.EnableExemplarStorage = true
	ho.MaxExemplars.Store(100000)
	ho.EnableMetadataWALRecords = true
	ho.StripeSize = 16
	hd, err := tsdb.NewHead(nil, tsdbx.NopLogger(), w, nil, ho, nil)
	if err != nil {
		w.Close()
		return nil, fmt.Errorf("new head: %w", err)
	}
	defer hd.Close()
	if err := hd.Init(minValid); err != nil {
		return nil, fmt.Errorf("head init (replay): %w", err)
	}
	out := &replayed{stones: map[string]tombstones.Intervals{}, exs: map[string][]string{}, series: int(hd.NumSeries())}
	q, err := tsdb.NewBlockQuerier(hd, minValid, math.MaxInt64)
	if err != nil {
		return nil, err
	}
	out.dump, _, err = tsdbx.DumpQuerier(q)
	q.Close()
	if err != nil {
		return nil, fmt.Errorf("query replayed head: %w", err)
	}
	refs := hd.VerifSeriesRefs()
	tr, err := hd.Tombstones()
	if err != nil {
		return nil, err
	}
	err = tr.Iter(func(ref storage.SeriesRef, ivs tombstones.Intervals) error {
		ls, ok := refs[uint64(ref)]
		if !ok {
			return nil
		}
		var clipped tombstones.Intervals
		for _, iv := range ivs {
			if iv.Maxt < minValid {
				continue
			}
			if iv.Mint < minValid {
				iv.Mint = minValid
			}
			clipped = clipped.Add(iv)
		}
		if len(clipped) > 0 {
			out.stones[ls.String()] = clipped
		}
		return nil
	})
	if err != nil {
		return nil, err
	}
	eq, err := hd.ExemplarQuerier(context.Background())
	if err != nil {
		return nil, err
	}
	res, err := eq.Select(minValid, math.MaxInt64, []*labels.Matcher{tsdbx.MatchAll()})
	if err != nil {
		return nil, fmt.Errorf("exemplar select: %w", err)
	}
	for _, qr := range res {
		k := qr.SeriesLabels.String()
		for _, e := range qr.Exemplars {
			out.exs[k] = append(out.exs[k], fmt.Sprintf("%d:%016x:%s", e.Ts, math.Float64bits(e.Value), e.Labels))
		}
	}
	return out, nil
}

func hasData(d tsdbx.Dump, k string) bool { return len(d[k]) > 0 }

// afterOp runs the oracle if the operation truncated the WAL.
func (h *headHist) afterOp(what string) {
	if h.hookErr != nil {
		core.Must(h.hookErr, "copy WAL directory in hook")
	}
	if h.hookHits == 0 {
		return
	}
	h.hookHits = 0
	exact := h.exactMint
	h.exactMint = nil
	T := h.hookMinT
	bound := "head MinTime at the hook"
	if exact != nil {
		T = *exact
		bound = "exact truncation time"
	}
	// A restart forgets the head's last WAL truncation time and may resurrect older samples, so a
	// later truncation can use a smaller time than an earlier one; what the earlier one dropped is
	// gone for good.  Everything is judged at the largest bound seen so far.
	if h.hasBound && h.maxBound > T {
		T = h.maxBound
		bound = "largest truncation bound so far"
	}
	h.maxBound, h.hasBound = T, true
	full := h.fullCopy
	h.fullCopy = ""
	defer os.RemoveAll(full)
	h.c.Count("head_truncations", 1)

	// (a) referential integrity of the live (truncated) log
	sc, err := walscan.Read(h.walDir())
	if err != nil {
		h.c.Violatef("head-wal-unreadable", "after %s: decoding the WAL failed: %v\ntrace: %s", what, err, tail(h.trace, 40))
		h.stop = true
		return
	}
	fsc, err := walscan.Read(full)
	core.Must(err, "decode retained full log")
	orphans, _, n, stale := integrity(sc, T)
	h.c.Count("head_entries_integrity_checked", int64(n))
	h.c.Count("head_stale_entries_of_collected_series", int64(stale))
	if len(orphans) > 0 {
		o := orphans[0]
		// was the ref defined in the full log?
		_, fdef, _, _ := integrity(fsc, T)
		h.c.Violatef("head-"+o.class+"-without-preceding-series-record", "after %s (bound %d): %d entries of the truncated log refer to a ref without an earlier series record; first: ref=%d in %s: %s (labels in the untruncated log: %v)\ncheckpoint=%d segments=[%d,%d]\ntrace: %s",
			what, T, len(orphans), o.ref, locName(o.loc), o.desc, fdef[o.ref], sc.Checkpoint, sc.First, sc.Last, tail(h.trace, 60))
		h.stop = true
		return
	}
	// latest metadata per surviving series record
	lmT, lmF := latestMeta(sc), latestMeta(fsc)
	surv := countSeriesRecs(sc)
	all := countSeriesRecs(fsc)
	var refs []uint64
	for r := range surv {
		refs = append(refs, r)
	}
	sort.Slice(refs, func(i, j int) bool { return refs[i] < refs[j] })
	for _, r := range refs {
		if lmT[r] != lmF[r] {
			h.c.Violatef("head-latest-metadata-differs", "after %s: ref %d: latest metadata in the truncated log %q, in the untruncated log %q\ntrace: %s", what, r, lmT[r], lmF[r], tail(h.trace, 60))
			h.stop = true
			return
		}
	}
	h.c.Count("head_metadata_refs_compared", int64(len(refs)))
	dropped := len(all) - len(surv)
	if dropped > 0 {
		h.dropsSeen++
		h.c.Count("head_series_records_dropped", int64(dropped))
	}

	// (b) differential replay
	h.copySeq++
	trunc := filepath.Join(h.scratch, fmt.Sprintf("trunc-%d", h.copySeq))
	core.Must(walscan.CopyDir(h.walDir(), trunc), "copy truncated WAL")
	defer os.RemoveAll(trunc)
	rt, err := h.replay(trunc, T)
	if err != nil {
		h.c.Violatef("head-replay-of-truncated-log-failed", "after %s: %v\ntrace: %s", what, err, tail(h.trace, 60))
		h.stop = true
		return
	}
	rf, err := h.replay(full, T)
	core.Must(err, "replay of the retained full log")
	if d := tsdbx.EqualDumps(rt.dump, rf.dump); d != "" {
		h.c.Violatef("head-replay-samples-differ", "after %s (%s = %d): replay of the truncated log vs replay of the untruncated log: %s\ncheckpoint=%d segments=[%d,%d]\ntrace: %s", what, bound, T, d, sc.Checkpoint, sc.First, sc.Last, tail(h.trace, 80))
		h.stop = true
		return
	}
	keys := map[string]bool{}
	for k := range rt.stones {
		keys[k] = true
	}
	for k := range rf.stones {
		keys[k] = true
	}
	var ks []string
	for k := range keys {
		ks = append(ks, k)
	}
	sort.Strings(ks)
	for _, k := range ks {
		if !hasData(rt.dump, k) && !hasData(rf.dump, k) {
			h.c.Count("head_tombstones_of_series_without_data_skipped", 1)
			continue
		}
		if fmt.Sprint(rt.stones[k]) != fmt.Sprint(rf.stones[k]) {
			h.c.Violatef("head-replay-tombstones-differ", "after %s (%s = %d): series %s: tombstones after replaying the truncated log %v, the untruncated log %v\ntrace: %s", what, bound, T, k, rt.stones[k], rf.stones[k], tail(h.trace, 80))
			h.stop = true
			return
		}
		h.c.Count("head_tombstoned_series_compared", 1)
	}
	keys = map[string]bool{}
	for k := range rt.exs {
		keys[k] = true
	}
	for k := range rf.exs {
		keys[k] = true
	}
	ks = ks[:0]
	for k := range keys {
		ks = append(ks, k)
	}
	sort.Strings(ks)
	nex := 0
	evicted := evictedByFullRangeTombstone(fsc)
	for _, k := range ks {
		if evicted[k] {
			// Head replay turns a [MinInt64,MaxInt64] tombstone record into a series eviction that is
			// applied asynchronously to exemplar ingestion: which of the series' exemplars survive a
			// replay is timing dependent in both logs, so they cannot be compared.
			h.c.Count("head_exemplar_series_skipped_evicted_during_replay", 1)
			continue
		}
		a, b := rt.exs[k], rf.exs[k]
		if strings.Join(a, "\n") != strings.Join(b, "\n") {
			h.c.Violatef("head-replay-exemplars-differ", "after %s (%s = %d): series %s: exemplars after replaying the truncated log %v, the untruncated log %v\ntrace: %s", what, bound, T, k, a, b, tail(h.trace, 80))
			h.stop = true
			return
		}
		nex += len(a)
	}
	ns := 0
	for _, v := range rf.dump {
		ns += len(v)
	}
	h.c.Count("head_replayed_samples_compared", int64(ns))
	h.c.Count("head_replayed_exemplars_compared", int64(nex))
	h.c.Seen("head_bound", bound)
	h.truncChecked++
	if dropped > 0 && ns > 0 {
		h.nontrivial = true
	}
}

func (h *headHist) value(s *hser) (v float64, hh *histogram.Histogram, fh *histogram.FloatHistogram) {
	r := h.r
	h.uid++
	switch s.kind {
	case 0:
		if r.IntN(8) == 0 {
			return gen.Float(r, false), nil, nil
		}
		return 1e6 + float64(h.uid), nil, nil
	case 1:
		if s.abs == nil || r.IntN(8) == 0 {
			s.abs = gen.NewAbsHist(r, true)
		} else {
			s.abs = s.abs.Mutate(r)
		}
		hh = s.abs.Int(r)
		hh.Sum = 2e6 + float64(h.uid)
		return 0, hh, nil
	default:
		if s.abs == nil || r.IntN(8) == 0 {
			s.abs = gen.NewAbsHist(r, true)
		} else {
			s.abs = s.abs.Mutate(r)
		}
		fh = s.abs.Float(r)
		fh.Sum = 2e6 + float64(h.uid)
		return 0, nil, fh
	}
}

var metas = []metadata.Metadata{
	{Type: "counter", Unit: "", Help: "a counter"},
	{Type: "gauge", Unit: "bytes", Help: "a gauge"},
	{Type: "histogram", Unit: "seconds", Help: "latency"},
	{Type: "counter", Unit: "", Help: "a counter, reworded"},
}

func (h *headHist) appendBatch(stale bool) {
	r := h.r
	v2 := r.IntN(2) == 0
	var a storage.Appender
	var a2 storage.AppenderV2
	if v2 {
		a2 = h.db.AppenderV2(context.Background())
	} else {
		a = h.db.Appender(context.Background())
	}
	nacc, nrej := 0, 0
	rounds := 1 + r.IntN(3)
	if r.IntN(12) == 0 {
		rounds = 10 + r.IntN(30) // fill segments
	}
	for k := 0; k < rounds; k++ {
		for _, s := range h.series {
			if !s.active || r.IntN(4) == 0 {
				continue
			}
			t := h.now
			v, hh, fh := h.value(s)
			if stale {
				switch s.kind {
				case 0:
					v = math.Float64frombits(value.StaleNaN)
				case 1:
					hh = gen.StaleHist()
				default:
					fh = gen.StaleFloatHist()
				}
			}
			var ex []exemplar.Exemplar
			if !stale && r.IntN(5) == 0 {
				h.uid++
				ex = append(ex, exemplar.Exemplar{Labels: labels.FromStrings("trace_id", fmt.Sprintf("%x", h.uid*2654435761)), Value: 3e6 + float64(h.uid), Ts: t - int64(r.IntN(3)), HasTs: true})
			}
			var md *metadata.Metadata
			if r.IntN(6) == 0 {
				if r.IntN(3) == 0 {
					s.meta = r.IntN(len(metas))
				}
				m := metas[s.meta]
				md = &m
			}
			var err error
			var ref storage.SeriesRef
			if v2 {
				ao := storage.AOptions{Exemplars: ex}
				if md != nil {
					ao.Metadata = *md
				}
				ref, err = a2.Append(0, s.ls, 0, t, v, hh, fh, ao)
			} else {
				if hh != nil || fh != nil {
					ref, err = a.AppendHistogram(0, s.ls, t, hh, fh)
				} else {
					ref, err = a.Append(0, s.ls, t, v)
				}
				if err == nil {
					for _, e := range ex {
						a.AppendExemplar(ref, s.ls, e)
					}
					if md != nil {
						a.UpdateMetadata(ref, s.ls, *md)
					}
				}
			}
			if err != nil {
				nrej++
				h.c.Seen("head_append_errors", shortErr(err))
			} else {
				nacc++
			}
		}
		h.now += int64(1 + r.IntN(15))
	}
	commit := r.IntN(20) != 0
	var err error
	switch {
	case commit && v2:
		err = a2.Commit()
	case commit:
		err = a.Commit()
	case v2:
		err = a2.Rollback()
	default:
		err = a.Rollback()
	}
	h.tr("append v2=%v stale=%v rounds=%d acc=%d rej=%d commit=%v err=%v now=%d", v2, stale, rounds, nacc, nrej, commit, err, h.now)
	h.c.Count("head_appends_accepted", int64(nacc))
}

func shortErr(err error) string {
	s := err.Error()
	if len(s) > 50 {
		s = s[:50]
	}
	return s
}

func (h *headHist) churn() {
	r := h.r
	for _, s := range h.series {
		switch {
		case s.active && r.IntN(6) == 0:
			s.active = false
		case !s.active && r.IntN(5) == 0:
			s.active = true
		}
	}
}

func runHead(c *core.Case) {
	r := c.Rng
	h := &headHist{c: c, r: r, dir: c.TempDir(), scratch: c.TempDir(), now: 1000}
	h.chunkRange = gen.Pick(r, []int64{100, 200, 400})
	h.comp = gen.Pick(r, []compression.Type{compression.None, compression.Snappy, compression.Zstd})
	h.isoOff = r.IntN(3) == 0
	for i, ls := range gen.SeriesSet(r, 6+r.IntN(9)) {
		h.series = append(h.series, &hser{ls: ls, kind: []int{0, 0, 0, 1, 2}[(i+r.IntN(5))%5], active: r.IntN(3) != 0, meta: r.IntN(len(metas))})
	}
	h.ctl = sched.Install()
	defer h.ctl.Uninstall()
	h.ctl.OnHit(h.onHit)
	if !h.open() {
		return
	}
	defer func() {
		if h.db != nil {
			h.db.Close()
		}
	}()
	steps := 30 + r.IntN(61)
	for i := 0; i < steps && !h.stop; i++ {
		h.now += int64(1 + r.IntN(int(h.chunkRange/3)))
		switch op := r.IntN(100); {
		case op < 52:
			h.appendBatch(false)
			if r.IntN(3) == 0 {
				h.churn()
			}
		case op < 60:
			var mint, maxt int64
			switch r.IntN(4) {
			case 0:
				mint, maxt = math.MinInt64, math.MaxInt64
			case 1:
				mint, maxt = h.now-int64(r.IntN(300)), math.MaxInt64
			default:
				mint = h.now - int64(r.IntN(600))
				maxt = mint + int64(r.IntN(400))
			}
			s := h.series[r.IntN(len(h.series))]
			var ms []*labels.Matcher
			s.ls.Range(func(l labels.Label) {
				ms = append(ms, labels.MustNewMatcher(labels.MatchEqual, l.Name, l.Value))
			})
			if r.IntN(4) == 0 {
				ms = []*labels.Matcher{labels.MustNewMatcher(labels.MatchEqual, "__name__", s.ls.Get("__name__"))}
			}
			err := h.db.Delete(context.Background(), mint, maxt, ms...)
			h.tr("delete [%d,%d] %v err=%v", mint, maxt, ms, err)
			h.c.Count("head_deletes", 1)
		case op < 74:
			err := h.db.Compact(context.Background())
			h.tr("compact err=%v headMin=%d headMax=%d", err, h.db.Head().MinTime(), h.db.Head().MaxTime())
			h.afterOp("Compact")
		case op < 80:
			hd := h.db.Head()
			if hd.NumSeries() == 0 || hd.MaxTime() <= hd.MinTime() {
				break
			}
			lo, hi := hd.MinTime(), hd.MaxTime()
			maxt := lo + r.Int64N(hi-lo+1)
			if len(h.evictMaxts) > 0 && r.IntN(5) < 2 {
				// boundary: truncate exactly at the head max time of an earlier series eviction
				// (the time until which the evicted series' records have to be kept)
				if b := h.evictMaxts[r.IntN(len(h.evictMaxts))] - 1; b >= lo && b <= hi {
					maxt = b
					h.c.Count("head_compacthead_at_eviction_boundary", 1)
				}
			}
			rh := tsdb.NewRangeHead(hd, lo, maxt)
			ex := rh.BlockMaxTime()
			h.exactMint = &ex
			err := h.db.CompactHead(rh)
			h.tr("compactHead [%d,%d] err=%v", lo, maxt, err)
			h.afterOp("CompactHead")
			h.exactMint = nil
		case op < 85:
			h.appendBatch(true)
			h.evictMaxts = append(h.evictMaxts, h.db.Head().MaxTime())
			err := h.db.CompactStaleHead()
			h.tr("compactStaleHead err=%v", err)
			h.c.Count("head_stale_compactions", 1)
			h.afterOp("CompactStaleHead")
		case op < 90:
			refs := h.db.Head().VerifSeriesRefs()
			var all []uint64
			for ref := range refs {
				all = append(all, ref)
			}
			sort.Slice(all, func(i, j int) bool { return all[i] < all[j] })
			var sel []storage.SeriesRef
			for _, ref := range all {
				if r.IntN(3) == 0 {
					sel = append(sel, storage.SeriesRef(ref))
				}
			}
			h.evictMaxts = append(h.evictMaxts, h.db.Head().MaxTime())
			err := h.db.CompactSelectedSeries(sel)
			h.tr("compactSelectedSeries %v err=%v", sel, err)
			h.c.Count("head_selected_compactions", 1)
			h.afterOp("CompactSelectedSeries")
		default:
			err := h.db.Close()
			h.db = nil
			h.tr("close err=%v", err)
			if !h.open() {
				return
			}
			h.c.Count("head_restarts", 1)
		}
	}
	c.Count("head_histories", 1)
	c.Count("head_truncations_compared", int64(h.truncChecked))
	if h.nontrivial {
		c.Nontrivial("head", h.chunkRange, h.comp, strings.Join(h.trace, ";"))
	}
	if c.Idx < 2 {
		t := h.trace
		if len(t) > 20 {
			t = t[:20]
		}
		c.Sample(map[string]any{"storage": "head", "block_range": h.chunkRange, "series": len(h.series), "first_steps": t, "truncations_compared": h.truncChecked, "truncations_that_dropped_series_records": h.dropsSeen})
	}
}

// ---------------------------------------------------------------- agent part

const (
	kindAgentInMem = "agent-inmem-checkpoint-drops-entries-at-or-after-mint"
	kindAgentDup   = "agent-duplicate-ref-series-record-dropped-before-its-entries"
)

type aser struct {
	ls   labels.Labels
	kind int
	abs  *gen.AbsHist
	last int64
	has  bool
}

func runAgent(c *core.Case) {
	r := c.Rng
	dir := c.TempDir()
	scratch := c.TempDir()
	inMem := r.IntN(3) == 0
	comp := gen.Pick(r, []compression.Type{compression.None, compression.Snappy, compression.Zstd})
	window := gen.Pick(r, []int64{0, 0, 10, 1000})
	var trace []string
	tr := func(format string, args ...any) {
		s := fmt.Sprintf(format, args...)
		trace = append(trace, s)
		c.Logf("%s", s)
	}
	open := func() *agent.DB {
		o := agent.DefaultOptions()
		o.WALSegmentSize = 32 * 1024
		o.WALCompression = comp
		o.StripeSize = 4
		o.TruncateFrequency = 2 * time.Hour
		o.NoLockfile = true
		o.OutOfOrderTimeWindow = window
		o.CheckpointFromInMemorySeries = inMem
		o.CheckpointBatchSize = gen.Pick(r, []int{0, 2, 1000})
		db, err := agent.Open(tsdbx.NopLogger(), nil, nil, dir, o)
		if err != nil {
			c.Violatef("agent-reopen-failed", "agent.Open: %v\ntrace: %s", err, tail(trace, 40))
			return nil
		}
		return db
	}
	db := open()
	if db == nil {
		return
	}
	defer func() {
		if db != nil {
			db.Close()
		}
	}()
	var series []*aser
	for i, ls := range gen.SeriesSet(r, 4+r.IntN(8)) {
		series = append(series, &aser{ls: ls, kind: []int{0, 0, 1, 2}[(i+r.IntN(4))%4]})
	}
	walDir := filepath.Join(dir, "wal")
	now := int64(1000)
	uid := 0
	truncChecked, nontrivial := 0, false
	maxMint := int64(0)
	dupRefs := map[uint64]bool{}
	known := map[string]bool{}
	restarts := 0
	steps := 30 + r.IntN(61)
	for i := 0; i < steps; i++ {
		now += int64(1 + r.IntN(40))
		switch op := r.IntN(100); {
		case op < 55:
			v2 := r.IntN(2) == 0
			var a storage.Appender
			var a2 storage.AppenderV2
			if v2 {
				a2 = db.AppenderV2(context.Background())
			} else {
				a = db.Appender(context.Background())
			}
			n := 1 + r.IntN(8)
			if r.IntN(10) == 0 {
				n = 60 + r.IntN(200)
			}
			acc := 0
			for j := 0; j < n; j++ {
				s := series[r.IntN(len(series))]
				t := now + int64(r.IntN(3))
				if s.has && r.IntN(6) == 0 {
					t = s.last - int64(r.IntN(20))
				}
				uid++
				var v float64
				var hh *histogram.Histogram
				var fh *histogram.FloatHistogram
				switch s.kind {
				case 0:
					v = 1e6 + float64(uid)
				default:
					if s.abs == nil || r.IntN(6) == 0 {
						s.abs = gen.NewAbsHist(r, true)
					} else {
						s.abs = s.abs.Mutate(r)
					}
					if s.kind == 1 {
						hh = s.abs.Int(r)
						hh.Sum = 2e6 + float64(uid)
					} else {
						fh = s.abs.Float(r)
						fh.Sum = 2e6 + float64(uid)
					}
				}
				var ex []exemplar.Exemplar
				if r.IntN(5) == 0 {
					uid++
					ex = append(ex, exemplar.Exemplar{Labels: labels.FromStrings("trace_id", fmt.Sprint(uid)), Value: 3e6 + float64(uid), Ts: t, HasTs: true})
				}
				var err error
				var ref storage.SeriesRef
				if v2 {
					ref, err = a2.Append(0, s.ls, 0, t, v, hh, fh, storage.AOptions{Exemplars: ex})
				} else {
					if hh != nil || fh != nil {
						ref, err = a.AppendHistogram(0, s.ls, t, hh, fh)
					} else {
						ref, err = a.Append(0, s.ls, t, v)
					}
					if err == nil {
						for _, e := range ex {
							a.AppendExemplar(ref, s.ls, e)
						}
					}
				}
				if err == nil {
					acc++
					if !s.has || t > s.last {
						s.last, s.has = t, true
					}
				}
			}
			commit := r.IntN(8) != 0
			var err error
			switch {
			case commit && v2:
				err = a2.Commit()
			case commit:
				err = a.Commit()
			case v2:
				err = a2.Rollback()
			default:
				err = a.Rollback()
			}
			tr("session v2=%v appends=%d accepted=%d commit=%v err=%v now=%d", v2, n, acc, commit, err, now)
			c.Count("agent_appends_accepted", int64(acc))
		case op < 88:
			var mint int64
			var with []*aser
			for _, s := range series {
				if s.has {
					with = append(with, s)
				}
			}
			switch k := r.IntN(10); {
			case k < 3 && len(with) > 0:
				mint = with[r.IntN(len(with))].last
			case k < 5 && len(with) > 0:
				mint = with[r.IntN(len(with))].last + 1
			case k < 6:
				mint = now + 5
			case k < 7:
				mint = 0
			default:
				mint = now - int64(r.IntN(150))
			}
			if mint < 0 {
				mint = 0
			}
			// The agent accepts any truncation time; series collected under an earlier, larger time
			// are gone for good, so everything is judged at the largest time used so far.
			callMint := mint
			if mint > maxMint {
				maxMint = mint
			}
			mint = maxMint
			full := filepath.Join(scratch, fmt.Sprintf("full-%d", i))
			core.Must(walscan.CopyDir(walDir, full), "copy agent WAL")
			before, err := walscan.Read(full)
			core.Must(err, "decode retained agent log")
			err = db.VerifTruncate(callMint)
			tr("truncate(%d) bound=%d inmem=%v err=%v", callMint, mint, inMem, err)
			c.Count("agent_truncations", 1)
			after, rerr := walscan.Read(walDir)
			os.RemoveAll(full)
			if rerr != nil {
				c.Violatef("agent-wal-unreadable", "after VerifTruncate(%d): %v\ntrace: %s", mint, rerr, tail(trace, 40))
				return
			}
			if after.Checkpoint == before.Checkpoint {
				break // no checkpoint written
			}
			c.Count("agent_checkpoints", 1)
			// which refs are duplicates (same labels as another, lower ref that survives)?
			_, fdef, _, _ := integrity(before, mint)
			orphans, tdef, n, stale := integrity(after, mint)
			c.Count("agent_entries_integrity_checked", int64(n))
			c.Count("agent_stale_entries_of_collected_series", int64(stale))
			byLabels := map[string][]uint64{}
			for ref, ls := range tdef {
				for _, l := range ls {
					byLabels[l] = append(byLabels[l], ref)
				}
			}
			isDup := func(ref uint64) bool {
				for _, l := range fdef[ref] {
					for _, other := range byLabels[l] {
						if other != ref {
							return true
						}
					}
				}
				return false
			}
			var dupOrph, otherOrph []orphan
			for _, o := range orphans {
				if (isDup(o.ref) && restarts > 0) || dupRefs[o.ref] {
					dupRefs[o.ref] = true // stays an orphan in later checkpoints
					dupOrph = append(dupOrph, o)
				} else {
					otherOrph = append(otherOrph, o)
				}
			}
			if len(otherOrph) > 0 {
				o := otherOrph[0]
				c.Violatef("agent-"+o.class+"-without-preceding-series-record", "after VerifTruncate(%d): %d entries of the truncated agent log refer to a ref without an earlier series record; first: ref=%d in %s: %s (labels in the untruncated log: %v)\ncheckpoint=%d segments=[%d,%d]\ntrace: %s",
					mint, len(otherOrph), o.ref, locName(o.loc), o.desc, fdef[o.ref], after.Checkpoint, after.First, after.Last, tail(trace, 60))
				return
			}
			if len(dupOrph) > 0 {
				c.Count("known_agent_duplicate_ref_orphans", int64(len(dupOrph)))
				if !known[kindAgentDup] {
					known[kindAgentDup] = true
					o := dupOrph[0]
					c.Violatef(kindAgentDup, "after VerifTruncate(%d): %d entries refer to a ref whose series record the checkpoint dropped although the label set lives on under another ref (duplicate series record after restart); first: ref=%d in %s: %s labels %v\ncheckpoint=%d segments=[%d,%d]\ntrace: %s",
						mint, len(dupOrph), o.ref, locName(o.loc), o.desc, fdef[o.ref], after.Checkpoint, after.First, after.Last, tail(trace, 60))
				}
			}
			// (b) record-level equivalence at or after mint
			af, afLoc := attributed(before, mint)
			at, _ := attributed(after, mint)
			var missing, extra []string
			for k, n := range af {
				if at[k] < n {
					missing = append(missing, k)
				}
			}
			for k, n := range at {
				if af[k] < n {
					extra = append(extra, k)
				}
			}
			sort.Strings(missing)
			sort.Strings(extra)
			dupLabels := map[string]bool{}
			for _, o := range dupOrph {
				for _, l := range fdef[o.ref] {
					dupLabels[l] = true
				}
			}
			var unexplained, unexplainedExtra []string
			for _, m := range missing {
				l := m[:strings.Index(m, "|")]
				if dupLabels[l] || (inMem && afLoc[m] <= after.Checkpoint) {
					continue
				}
				unexplained = append(unexplained, m)
			}
			for _, e := range extra {
				// the in-memory checkpoint writes one (ref, last timestamp, 0) entry per live series
				if inMem && strings.HasSuffix(e, "|f:0000000000000000") {
					continue
				}
				unexplainedExtra = append(unexplainedExtra, e)
			}
			extraAll := extra
			extra = unexplainedExtra
			switch {
			case len(unexplained) > 0:
				c.Violatef("agent-entries-at-or-after-mint-lost", "after VerifTruncate(%d): %d entries with t >= mint that replaying the untruncated log attributes to a series are not attributed by the truncated log; first: %s\ncheckpoint=%d segments=[%d,%d]\ntrace: %s", mint, len(unexplained), trunc(unexplained[0]), after.Checkpoint, after.First, after.Last, tail(trace, 60))
				return
			case len(extra) > 0:
				c.Violatef("agent-entries-invented-by-truncation", "after VerifTruncate(%d): %d entries with t >= mint in the truncated log that the untruncated log does not have; first: %s\ntrace: %s", mint, len(extra), trunc(extra[0]), tail(trace, 60))
				return
			case inMem && (len(missing) > 0 || len(extraAll) > 0):
				extra = extraAll
				c.Count("known_agent_inmem_missing", int64(len(missing)))
				c.Count("known_agent_inmem_synthetic", int64(len(extra)))
				if !known[kindAgentInMem] {
					known[kindAgentInMem] = true
					first := ""
					if len(missing) > 0 {
						first = missing[0]
					} else {
						first = extra[0]
					}
					c.Violatef(kindAgentInMem, "CheckpointFromInMemorySeries=true, VerifTruncate(%d) wrote checkpoint %d: %d entries with t >= mint are gone, %d synthetic entries were added; first: %s\ntrace: %s", mint, after.Checkpoint, len(missing), len(extra), trunc(first), tail(trace, 60))
				}
			}
			tot := 0
			for _, n := range af {
				tot += n
			}
			c.Count("agent_entries_compared", int64(tot))
			truncChecked++
			if len(countSeriesRecs(before)) > len(countSeriesRecs(after)) && tot > 0 {
				nontrivial = true
			}
		default:
			err := db.Close()
			tr("close err=%v", err)
			db = open()
			if db == nil {
				return
			}
			restarts++
			c.Count("agent_restarts", 1)
		}
	}
	c.Count("agent_histories", 1)
	c.Count("agent_truncations_compared", int64(truncChecked))
	if nontrivial {
		c.Nontrivial("agent", inMem, comp, window, strings.Join(trace, ";"))
	}
	if c.Idx == 2 {
		t := trace
		if len(t) > 20 {
			t = t[:20]
		}
		c.Sample(map[string]any{"storage": "agent", "in_memory_checkpoint": inMem, "series": len(series), "first_steps": t, "truncations_compared": truncChecked})
	}
}

func trunc(s string) string {
	if len(s) > 300 {
		return s[:300] + "…"
	}
	return s
}
