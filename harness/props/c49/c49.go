// Package c49: config.Load → Config.String → config.Load is lossless (round-trip identity monitor).
package c49

import (
	"fmt"
	"math/rand/v2"
	"reflect"
	"regexp"
	"sort"
	"strings"

	"go.yaml.in/yaml/v2"

	"github.com/prometheus/prometheus/config"
	_ "github.com/prometheus/prometheus/discovery/dns"  // dns_sd_configs
	_ "github.com/prometheus/prometheus/discovery/file" // file_sd_configs
	_ "github.com/prometheus/prometheus/discovery/http" // http_sd_configs
	"github.com/prometheus/prometheus/model/labels"
	"github.com/prometheus/prometheus/model/relabel"

	"verif/internal/core"
	"verif/internal/tsdbx"
)

func init() {
	core.Register(&core.Prop{
		ID:        "C49",
		Title:     "Printing a configuration and loading it back is lossless",
		Level:     "exploration",
		Technique: "round-trip identity monitor: Load(text) → String → Load → String on generated YAML configurations, structural comparison of the two loaded configs",
		LevelText: "YAML configurations are generated from section templates (global, runtime, rule_files, scrape_config_files, scrape_configs with static/file/dns/http SD, HTTP client options without inline secrets, relabel rules of all eleven actions, alerting, remote_write with queue/metadata config, remote_read, storage.tsdb/exemplars, tracing, otlp) with random field values including explicit zero values. Texts rejected by the first config.Load are discarded (counted). For accepted ones: c1=Load(t0), t1=c1.String(), c2=Load(t1) must succeed, c1 and c2 must be equal field by field (all fields incl. unexported, via reflection; regexps by source text; nil and empty slices/maps identified), and t2=c2.String() must equal t1. Held on the generated configurations only.",
		LevelNote: "Trusted: reflection walk as the notion of 'equal configuration' (nil vs empty collections are NOT distinguished; a nil pointer and a pointer to a zero value ARE). Secrets are never generated (the statement excludes them); SD mechanisms other than static/file/dns/http, sigv4/azuread/google_iam/oauth2 are not generated. Environment expansion in external labels: only '$$' escapes and one undefined variable are generated.",
		DesignRef: "DESIGN.md §5 C49",
		Rule:      "case = one generated YAML text; non-trivial iff the first Load accepted it and it sets at least 8 scalar fields; distinct by text",
		Cases: func(variant string, tier core.Tier) int {
			if variant != "default" {
				return 0
			}
			if tier == core.Thorough {
				return 60000
			}
			return 3000
		},
		Run:           run,
		MinNontrivial: func(t core.Tier) int { return 800 },
	})
}

// ---------------------------------------------------------------- YAML building

type g struct {
	r      *rand.Rand
	fields int // scalar fields emitted
	utf8   bool
	jobs   int
}

type obj = yaml.MapSlice

func (x *g) p(percent int) bool { return x.r.IntN(100) < percent }

func pick[T any](x *g, xs ...T) T { return xs[x.r.IntN(len(xs))] }

func (x *g) set(o *obj, key string, v any) {
	*o = append(*o, yaml.MapItem{Key: key, Value: v})
	switch v.(type) {
	case obj, []any, []obj:
	default:
		x.fields++
	}
}

// opt sets key with probability percent; the value is produced lazily.
func (x *g) opt(o *obj, percent int, key string, f func() any) {
	if x.p(percent) {
		x.set(o, key, f())
	}
}

func (x *g) duration() string {
	if x.p(12) {
		return "0s"
	}
	return pick(x, "1ms", "100ms", "1s", "5s", "10s", "15s", "30s", "45s", "1m", "90s", "1m30s", "2m", "5m", "1h", "1h30m", "36h", "1d", "2d12h", "1w", "1y", "1500ms", "1s500ms")
}

func (x *g) smallDuration() string {
	if x.p(8) {
		return "0s"
	}
	return pick(x, "1ms", "30ms", "100ms", "1s", "5s", "10s", "15s", "30s", "1m", "2m")
}

func (x *g) size() any {
	if x.p(10) {
		return "0B"
	}
	return pick[any](x, "1B", "512B", "1KB", "1KiB", "1536B", "10MB", "15MiB", "1GB", "1GiB", "2TB", "1025KiB", "2048B", "1MB512KB")
}

func (x *g) uintv() any {
	if x.p(15) {
		return 0
	}
	return pick(x, 1, 2, 30, 200, 1500, 100000)
}

func (x *g) boolv() bool { return x.r.IntN(2) == 0 }

func (x *g) labelName() string {
	if x.utf8 && x.p(10) {
		return pick(x, "très", "with.dot", "日本")
	}
	return pick(x, "job", "instance", "env", "region", "a", "a_b", "__address__", "__name__", "__meta_x", "zone", "L9")
}

func (x *g) labelValue() string {
	return pick(x, "x", "prod", "eu-west-1", "with space", "q\"uote", "new\nline", "日本", "", "1", "true", "null", "0x10", "a: b", "- dash", "#hash", "tab\there", "1e3", "~", "'single'", "back\\slash", "{brace}", "*star", "&amp", "%pct", "@at", "trailing ", " leading")
}

func (x *g) filePath() string {
	return pick(x, "a.log", "dir/b.log", "/abs/c.log", "with space.log", "../up.log")
}

func (x *g) regex() string {
	return pick(x, "(.*)", "", "foo.*", "a|b", "(?i)x", "[a-z]+", "(.+);(.+)", `\d+`, "日本", `.*\n`, "^anchored$", "a{2,3}", "expensive_.*", `(.*)\.(.*)`, "x?", "(a)(b)?")
}

func (x *g) protocols() []any {
	all := []string{"PrometheusProto", "OpenMetricsText0.0.1", "OpenMetricsText1.0.0", "PrometheusText0.0.4", "PrometheusText1.0.0"}
	x.r.Shuffle(len(all), func(i, j int) { all[i], all[j] = all[j], all[i] })
	n := 1 + x.r.IntN(len(all))
	out := make([]any, n)
	for i := range out {
		out[i] = all[i]
	}
	return out
}

func (x *g) stringMap(n int, keys func() string, vals func() string) obj {
	o := obj{}
	seen := map[string]bool{}
	for i := 0; i < n; i++ {
		k := keys()
		if seen[k] {
			continue
		}
		seen[k] = true
		x.set(&o, k, vals())
	}
	return o
}

func (x *g) relabelRule() obj {
	o := obj{}
	srcs := func() any {
		n := 1 + x.r.IntN(3)
		out := make([]any, n)
		for i := range out {
			out[i] = x.labelName()
		}
		return out
	}
	act := pick(x, "replace", "keep", "drop", "keepequal", "dropequal", "hashmod", "labelmap", "labeldrop", "labelkeep", "lowercase", "uppercase")
	actText := act
	if x.p(10) {
		actText = strings.ToUpper(act[:1]) + act[1:]
	}
	switch act {
	case "replace":
		x.opt(&o, 80, "source_labels", srcs)
		x.opt(&o, 40, "separator", func() any { return pick(x, ";", "", ",", " ", "::", "\n") })
		x.opt(&o, 70, "regex", func() any { return x.regex() })
		x.set(&o, "target_label", pick(x, "job", "env", "a_b", "new_label", "${1}", "foo_${1}", "$1"))
		x.opt(&o, 60, "replacement", func() any { return pick(x, "$1", "${1}_x", "", "foo", "$1:$2", "a b", "$$") })
		if x.p(70) {
			x.set(&o, "action", actText)
		}
	case "keep", "drop":
		x.set(&o, "source_labels", srcs())
		x.opt(&o, 30, "separator", func() any { return pick(x, ";", "", ",", "@") })
		x.set(&o, "regex", x.regex())
		x.set(&o, "action", actText)
	case "keepequal", "dropequal":
		x.set(&o, "source_labels", srcs())
		x.set(&o, "target_label", pick(x, "job", "env", "a_b"))
		x.set(&o, "action", actText)
	case "hashmod":
		x.set(&o, "source_labels", srcs())
		x.set(&o, "modulus", pick[uint64](x, 1, 2, 8, 1000, 18446744073709551615))
		x.set(&o, "target_label", pick(x, "__tmp_hash", "shard"))
		x.opt(&o, 20, "separator", func() any { return "," })
		x.set(&o, "action", actText)
	case "labelmap":
		x.set(&o, "regex", pick(x, "__meta_(.+)", "(.*)", "a_(.+)_(.+)"))
		x.opt(&o, 50, "replacement", func() any { return pick(x, "$1", "k_${1}", "x$1") })
		x.set(&o, "action", actText)
	case "labeldrop", "labelkeep":
		x.set(&o, "regex", x.regex())
		x.set(&o, "action", actText)
	case "lowercase", "uppercase":
		x.set(&o, "source_labels", srcs())
		x.set(&o, "target_label", pick(x, "job", "env", "a_b"))
		x.set(&o, "action", actText)
	}
	return o
}

func (x *g) relabelRules() []any {
	n := 1 + x.r.IntN(3)
	out := make([]any, n)
	for i := range out {
		out[i] = x.relabelRule()
	}
	return out
}

func (x *g) tlsConfig() obj {
	o := obj{}
	x.opt(&o, 50, "ca_file", func() any { return "ca.pem" })
	if x.p(40) {
		x.set(&o, "cert_file", "cert.pem")
		x.set(&o, "key_file", "key.pem")
	}
	x.opt(&o, 40, "server_name", func() any { return pick(x, "example.org", "") })
	x.opt(&o, 50, "insecure_skip_verify", func() any { return x.boolv() })
	x.opt(&o, 30, "min_version", func() any { return pick(x, "TLS12", "TLS13", "TLS10") })
	x.opt(&o, 15, "max_version", func() any { return "TLS13" })
	return o
}

// httpClient adds HTTP client options (never an inline secret).
func (x *g) httpClient(o *obj) {
	switch x.r.IntN(6) {
	case 0:
		b := obj{}
		x.set(&b, "username", pick(x, "user", "u s", ""))
		x.opt(&b, 70, "password_file", func() any { return "pw.txt" })
		x.set(o, "basic_auth", b)
	case 1:
		a := obj{}
		x.opt(&a, 60, "type", func() any { return pick(x, "Bearer", "Token", "bearer", "") })
		x.set(&a, "credentials_file", "cred.txt")
		x.set(o, "authorization", a)
	case 2:
		if x.p(50) {
			x.set(o, "bearer_token_file", "token.txt")
		}
	}
	x.opt(o, 30, "tls_config", func() any { return x.tlsConfig() })
	x.opt(o, 30, "follow_redirects", func() any { return x.boolv() })
	x.opt(o, 30, "enable_http2", func() any { return x.boolv() })
	switch x.r.IntN(8) {
	case 0:
		x.set(o, "proxy_url", pick(x, "http://proxy:3128", "http://proxy.example.org/path?x=1", "socks5://p:1"))
		x.opt(o, 40, "no_proxy", func() any { return "localhost,10.0.0.0/8" })
	case 1:
		x.set(o, "proxy_from_environment", x.boolv())
	}
	if x.p(12) {
		h := obj{}
		n := 1 + x.r.IntN(2)
		for i := 0; i < n; i++ {
			hv := obj{}
			if x.p(70) {
				x.set(&hv, "values", []any{x.labelValue(), "v2"}[:1+x.r.IntN(2)])
			} else {
				x.set(&hv, "files", []any{"hdr.txt"})
			}
			x.set(&h, pick(x, "X-Custom", "x-scope-orgid", "X-Other"), hv)
			if i == 0 && n == 2 {
				h[0].Key = "X-First"
			}
		}
		x.set(o, "http_headers", h)
	}
}

func (x *g) staticConfigs() []any {
	n := 1 + x.r.IntN(2)
	out := make([]any, n)
	for i := range out {
		o := obj{}
		nt := x.r.IntN(3)
		ts := make([]any, nt)
		for j := range ts {
			ts[j] = pick(x, "localhost:9090", "host-1:80", "10.0.0.1:9100", "[::1]:9090", "example.org", "h:1")
		}
		if nt > 0 || x.p(50) {
			x.set(&o, "targets", ts)
		}
		x.opt(&o, 50, "labels", func() any {
			return x.stringMap(1+x.r.IntN(3), x.labelName, x.labelValue)
		})
		out[i] = o
	}
	return out
}

func (x *g) sdConfigs(o *obj) {
	x.opt(o, 70, "static_configs", func() any { return x.staticConfigs() })
	x.opt(o, 15, "file_sd_configs", func() any {
		f := obj{}
		x.set(&f, "files", []any{pick(x, "targets/*.json", "t.yml", "/abs/x.yaml"), "more/*.yml"}[:1+x.r.IntN(2)])
		x.opt(&f, 50, "refresh_interval", func() any { return pick(x, "30s", "1m", "5m", "10m", "1h", "90s") })
		return []any{f}
	})
	x.opt(o, 12, "dns_sd_configs", func() any {
		f := obj{}
		x.set(&f, "names", []any{"srv.example.org", "b.example.org"}[:1+x.r.IntN(2)])
		if x.p(50) {
			x.set(&f, "type", pick(x, "A", "AAAA", "MX", "NS"))
			x.set(&f, "port", pick(x, 80, 9100))
		}
		x.opt(&f, 50, "refresh_interval", func() any { return pick(x, "30s", "1m", "5m", "10m", "1h", "90s") })
		return []any{f}
	})
	x.opt(o, 10, "http_sd_configs", func() any {
		f := obj{}
		x.set(&f, "url", pick(x, "http://sd.example.org/targets", "https://sd:8443/x?y=z"))
		x.opt(&f, 50, "refresh_interval", func() any { return pick(x, "30s", "1m", "5m", "10m", "1h", "90s") })
		return []any{f}
	})
}

func (x *g) validationScheme(o *obj) {
	if x.p(25) {
		x.set(o, "metric_name_validation_scheme", pick(x, "utf8", "legacy"))
	}
	if x.p(25) {
		x.set(o, "metric_name_escaping_scheme", pick(x, "allow-utf-8", "underscores", "dots", "values"))
	}
}

func (x *g) limits(o *obj, percent int) {
	x.opt(o, percent, "body_size_limit", func() any { return x.size() })
	x.opt(o, percent, "sample_limit", func() any { return x.uintv() })
	x.opt(o, percent, "target_limit", func() any { return x.uintv() })
	x.opt(o, percent, "label_limit", func() any { return x.uintv() })
	x.opt(o, percent, "label_name_length_limit", func() any { return x.uintv() })
	x.opt(o, percent, "label_value_length_limit", func() any { return x.uintv() })
	x.opt(o, percent, "keep_dropped_targets", func() any { return x.uintv() })
}

func (x *g) global() obj {
	o := obj{}
	iv := pick(x, "5s", "15s", "30s", "1m", "2m", "1h", "0s")
	x.opt(&o, 60, "scrape_interval", func() any { return iv })
	x.opt(&o, 40, "scrape_timeout", func() any { return pick(x, "1s", "5s", "10s", "0s", "100ms", "3s") })
	x.opt(&o, 40, "evaluation_interval", func() any { return x.duration() })
	x.opt(&o, 25, "rule_query_offset", func() any { return x.smallDuration() })
	x.opt(&o, 25, "query_log_file", func() any { return x.filePath() })
	x.opt(&o, 25, "scrape_failure_log_file", func() any { return x.filePath() })
	x.opt(&o, 50, "external_labels", func() any {
		return x.stringMap(1+x.r.IntN(4), x.labelName, func() string {
			if x.p(6) {
				return pick(x, "a$$b", "$$", "$$x", "cost: 5$$", "$C49_UNDEFINED_VARIABLE")
			}
			return x.labelValue()
		})
	})
	x.limits(&o, 20)
	x.validationScheme(&o)
	x.opt(&o, 25, "scrape_protocols", func() any { return x.protocols() })
	x.opt(&o, 25, "scrape_native_histograms", func() any { return x.boolv() })
	x.opt(&o, 25, "convert_classic_histograms_to_nhcb", func() any { return x.boolv() })
	x.opt(&o, 25, "always_scrape_classic_histograms", func() any { return x.boolv() })
	x.opt(&o, 25, "extra_scrape_metrics", func() any { return x.boolv() })
	return o
}

func (x *g) scrapeConfig() obj {
	o := obj{}
	x.jobs++
	x.set(&o, "job_name", fmt.Sprintf("%s-%d", pick(x, "node", "prometheus", "job with space", "日本", "a:b", "q\"j"), x.jobs))
	x.opt(&o, 30, "honor_labels", func() any { return x.boolv() })
	x.opt(&o, 30, "honor_timestamps", func() any { return x.boolv() })
	x.opt(&o, 30, "track_timestamps_staleness", func() any { return x.boolv() })
	x.opt(&o, 20, "params", func() any {
		p := obj{}
		for _, k := range []string{"module", "target", "match[]"}[:1+x.r.IntN(3)] {
			x.set(&p, k, []any{x.labelValue(), "second"}[:1+x.r.IntN(2)])
		}
		return p
	})
	x.opt(&o, 35, "scrape_interval", func() any { return pick(x, "5s", "10s", "1m", "1h", "0s") })
	x.opt(&o, 35, "scrape_timeout", func() any { return pick(x, "1s", "5s", "0s", "500ms") })
	x.opt(&o, 20, "scrape_protocols", func() any { return x.protocols() })
	x.opt(&o, 15, "fallback_scrape_protocol", func() any {
		return pick(x, "PrometheusProto", "OpenMetricsText0.0.1", "OpenMetricsText1.0.0", "PrometheusText0.0.4", "PrometheusText1.0.0")
	})
	x.opt(&o, 20, "scrape_native_histograms", func() any { return x.boolv() })
	x.opt(&o, 20, "always_scrape_classic_histograms", func() any { return x.boolv() })
	x.opt(&o, 20, "convert_classic_histograms_to_nhcb", func() any { return x.boolv() })
	x.opt(&o, 15, "scrape_failure_log_file", func() any { return x.filePath() })
	x.opt(&o, 30, "metrics_path", func() any {
		return pick(x, "/metrics", "/probe", "/federate", "metrics", "/a b", "/x/y", "/metrics", "")
	})
	x.opt(&o, 30, "scheme", func() any { return pick(x, "http", "https", "https", "http", "https", "") })
	x.opt(&o, 30, "enable_compression", func() any { return x.boolv() })
	x.limits(&o, 12)
	x.opt(&o, 15, "native_histogram_bucket_limit", func() any { return x.uintv() })
	x.opt(&o, 15, "native_histogram_min_bucket_factor", func() any { return pick[any](x, 0, 1.1, 1.5, 2, 1.0000001, 1e-9) })
	x.validationScheme(&o)
	x.opt(&o, 20, "extra_scrape_metrics", func() any { return x.boolv() })
	x.sdConfigs(&o)
	x.httpClient(&o)
	x.opt(&o, 50, "relabel_configs", func() any { return x.relabelRules() })
	x.opt(&o, 40, "metric_relabel_configs", func() any { return x.relabelRules() })
	return o
}

func (x *g) alerting() obj {
	o := obj{}
	x.opt(&o, 50, "alert_relabel_configs", func() any { return x.relabelRules() })
	x.opt(&o, 80, "alertmanagers", func() any {
		n := 1 + x.r.IntN(2)
		out := make([]any, n)
		for i := range out {
			a := obj{}
			x.opt(&a, 40, "scheme", func() any { return pick(x, "http", "https", "https", "http", "https", "") })
			x.opt(&a, 40, "path_prefix", func() any { return pick(x, "/", "/am", "", "/a b") })
			x.opt(&a, 40, "timeout", func() any { return x.smallDuration() })
			x.opt(&a, 40, "api_version", func() any { return "v2" })
			x.sdConfigs(&a)
			x.httpClient(&a)
			x.opt(&a, 30, "relabel_configs", func() any { return x.relabelRules() })
			x.opt(&a, 30, "alert_relabel_configs", func() any { return x.relabelRules() })
			out[i] = a
		}
		return out
	})
	return o
}

func (x *g) headers() obj {
	return x.stringMap(1+x.r.IntN(2), func() string { return pick(x, "X-Scope-OrgID", "x-custom", "X-Other") }, x.labelValue)
}

func (x *g) remoteWrite(i int) obj {
	o := obj{}
	x.set(&o, "url", pick(x, "http://remote1/push", "https://rw.example.org:8443/api/v1/write?tenant=a%20b", "http://[::1]:9090/w", "http://h/p#frag"))
	x.opt(&o, 40, "remote_timeout", func() any { return x.smallDuration() })
	x.opt(&o, 30, "headers", func() any { return x.headers() })
	x.opt(&o, 40, "write_relabel_configs", func() any { return x.relabelRules() })
	x.opt(&o, 60, "name", func() any { return fmt.Sprintf("%s%d", pick(x, "rw", "remote write ", "日本"), i) })
	x.opt(&o, 30, "send_exemplars", func() any { return x.boolv() })
	x.opt(&o, 30, "send_native_histograms", func() any { return x.boolv() })
	x.opt(&o, 20, "round_robin_dns", func() any { return x.boolv() })
	x.opt(&o, 30, "protobuf_message", func() any { return pick(x, "prometheus.WriteRequest", "io.prometheus.write.v2.Request") })
	x.opt(&o, 15, "failed_request_logging", func() any { return x.boolv() })
	x.opt(&o, 50, "queue_config", func() any {
		q := obj{}
		x.opt(&q, 40, "capacity", func() any { return pick(x, 1, 500, 10000) })
		x.opt(&q, 40, "max_shards", func() any { return pick(x, 10, 50, 200) })
		x.opt(&q, 40, "min_shards", func() any { return pick(x, 1, 2, 10) })
		x.opt(&q, 40, "max_samples_per_send", func() any { return pick(x, 1, 100, 2000) })
		x.opt(&q, 40, "batch_send_deadline", func() any { return x.smallDuration() })
		x.opt(&q, 40, "min_backoff", func() any { return pick(x, "0s", "1ms", "30ms", "1s", "10ms") })
		x.opt(&q, 40, "max_backoff", func() any { return pick(x, "1s", "5s", "1m", "10s", "2s", "0s") })
		x.opt(&q, 30, "retry_on_http_429", func() any { return x.boolv() })
		x.opt(&q, 30, "sample_age_limit", func() any { return x.duration() })
		return q
	})
	x.opt(&o, 40, "metadata_config", func() any {
		q := obj{}
		x.opt(&q, 60, "send", func() any { return x.boolv() })
		x.opt(&q, 60, "send_interval", func() any { return x.smallDuration() })
		x.opt(&q, 60, "max_samples_per_send", func() any { return pick(x, 0, 1, 500, 2000) })
		return q
	})
	x.httpClient(&o)
	return o
}

func (x *g) remoteRead(i int) obj {
	o := obj{}
	x.set(&o, "url", pick(x, "http://remote1/read", "https://rr.example.org/api/v1/read?x=1", "http://h:1/r"))
	x.opt(&o, 40, "remote_timeout", func() any { return x.smallDuration() })
	x.opt(&o, 40, "chunked_read_limit", func() any { return pick(x, 0, 1, 1024, 50000000, 100000000) })
	x.opt(&o, 30, "headers", func() any { return x.headers() })
	x.opt(&o, 40, "read_recent", func() any { return x.boolv() })
	x.opt(&o, 60, "name", func() any { return fmt.Sprintf("rr%d", i) })
	x.opt(&o, 30, "required_matchers", func() any { return x.stringMap(1+x.r.IntN(2), x.labelName, x.labelValue) })
	x.opt(&o, 40, "filter_external_labels", func() any { return x.boolv() })
	x.httpClient(&o)
	return o
}

func (x *g) storage() obj {
	o := obj{}
	x.opt(&o, 70, "tsdb", func() any {
		t := obj{}
		x.opt(&t, 50, "out_of_order_time_window", func() any { return x.duration() })
		x.opt(&t, 30, "stale_series_compaction_threshold", func() any { return pick[any](x, 0, 0.5, 1, 0.25, 0.1) })
		x.opt(&t, 30, "chunk_encoding", func() any {
			c := obj{}
			x.opt(&c, 80, "floats", func() any { return pick(x, "xor", "xor2", "") })
			return c
		})
		x.opt(&t, 50, "retention", func() any {
			rt := obj{}
			x.opt(&rt, 60, "time", func() any { return x.duration() })
			x.opt(&rt, 60, "size", func() any { return x.size() })
			x.opt(&rt, 40, "percentage", func() any { return pick[any](x, 0, 50, 33.3, 100, 0.1) })
			return rt
		})
		return t
	})
	x.opt(&o, 60, "exemplars", func() any {
		e := obj{}
		x.opt(&e, 80, "max_exemplars", func() any { return pick(x, 0, -1, 1, 100000, 5) })
		return e
	})
	return o
}

func (x *g) tracing() obj {
	o := obj{}
	x.opt(&o, 60, "client_type", func() any { return pick(x, "http", "grpc") })
	x.set(&o, "endpoint", pick(x, "localhost:4317", "otel.example.org:4318", "https://x/y"))
	x.opt(&o, 50, "sampling_fraction", func() any { return pick[any](x, 0, 1, 0.5, 0.001, 0.1) })
	x.opt(&o, 40, "insecure", func() any { return x.boolv() })
	x.opt(&o, 30, "tls_config", func() any { return x.tlsConfig() })
	x.opt(&o, 30, "headers", func() any { return x.headers() })
	x.opt(&o, 30, "compression", func() any { return pick(x, "gzip", "") })
	x.opt(&o, 40, "timeout", func() any { return x.smallDuration() })
	return o
}

func (x *g) otlp() obj {
	o := obj{}
	attrs := func() any {
		all := []any{"k8s.cluster.name", "service.name", " padded ", "host.name", "日本"}
		return all[:1+x.r.IntN(len(all))]
	}
	if x.p(35) {
		all := x.boolv()
		x.set(&o, "promote_all_resource_attributes", all)
		if all {
			x.opt(&o, 50, "ignore_resource_attributes", attrs)
		}
	} else {
		x.opt(&o, 50, "promote_resource_attributes", attrs)
	}
	x.opt(&o, 40, "translation_strategy", func() any {
		return pick(x, "UnderscoreEscapingWithSuffixes", "UnderscoreEscapingWithoutSuffixes", "NoUTF8EscapingWithSuffixes", "NoTranslation", "")
	})
	x.opt(&o, 35, "keep_identifying_resource_attributes", func() any { return x.boolv() })
	x.opt(&o, 35, "convert_histograms_to_nhcb", func() any { return x.boolv() })
	x.opt(&o, 35, "promote_scope_metadata", func() any { return x.boolv() })
	x.opt(&o, 35, "label_name_underscore_sanitization", func() any { return x.boolv() })
	x.opt(&o, 35, "label_name_preserve_multiple_underscores", func() any { return x.boolv() })
	return o
}

func (x *g) config() (string, []string) {
	top := obj{}
	var sections []string
	add := func(percent int, name string, f func() any) {
		if x.p(percent) {
			top = append(top, yaml.MapItem{Key: name, Value: f()})
			sections = append(sections, name)
		}
	}
	x.utf8 = true
	add(75, "global", func() any {
		gl := x.global()
		for _, it := range gl {
			if it.Key == "metric_name_validation_scheme" && it.Value == "legacy" {
				x.utf8 = false
			}
		}
		return gl
	})
	add(20, "runtime", func() any {
		o := obj{}
		x.opt(&o, 85, "gogc", func() any { return pick(x, 0, -1, 1, 50, 75, 100, 400) })
		return o
	})
	add(30, "rule_files", func() any {
		return []any{"first.rules", "my/*.rules", "/abs/r.yml", "with space/*.yaml"}[:1+x.r.IntN(4)]
	})
	add(15, "scrape_config_files", func() any { return []any{"scrape/*.yml", "one.yml"}[:1+x.r.IntN(2)] })
	add(80, "scrape_configs", func() any {
		n := 1 + x.r.IntN(3)
		out := make([]any, n)
		for i := range out {
			out[i] = x.scrapeConfig()
		}
		return out
	})
	add(35, "alerting", func() any { return x.alerting() })
	add(40, "remote_write", func() any {
		n := 1 + x.r.IntN(2)
		out := make([]any, n)
		for i := range out {
			out[i] = x.remoteWrite(i)
		}
		return out
	})
	add(30, "remote_read", func() any {
		n := 1 + x.r.IntN(2)
		out := make([]any, n)
		for i := range out {
			out[i] = x.remoteRead(i)
		}
		return out
	})
	add(35, "storage", func() any { return x.storage() })
	add(20, "tracing", func() any { return x.tracing() })
	add(35, "otlp", func() any { return x.otlp() })
	// section order in the file is irrelevant to the loader: shuffle it
	x.r.Shuffle(len(top), func(i, j int) { top[i], top[j] = top[j], top[i] })
	b, err := yaml.Marshal(top)
	core.Must(err, "marshalling the generated YAML tree")
	if len(top) == 0 {
		return "", sections
	}
	return string(b), sections
}

// ---------------------------------------------------------------- structural rendering

type leaf struct {
	val     string
	zero    bool
	dropped bool // lies in a value that yaml 'omitempty' removes from the output
}

var (
	regexpType = reflect.TypeOf(relabel.Regexp{})
	labelsType = reflect.TypeOf(labels.Labels{})
)

func tagName(f reflect.StructField) (name string, omitempty, inline bool) {
	tag := f.Tag.Get("yaml")
	parts := strings.Split(tag, ",")
	name = parts[0]
	for _, p := range parts[1:] {
		switch p {
		case "omitempty":
			omitempty = true
		case "inline":
			inline = true
		}
	}
	switch {
	case name == "-":
		name = "~" + f.Name
	case name == "":
		name = strings.ToLower(f.Name)
	}
	return
}

func render(v reflect.Value, path string, dropped bool, depth int, out map[string]leaf) {
	if depth > 40 {
		out[path] = leaf{val: "<too deep>"}
		return
	}
	if v.Type() == regexpType {
		inner := v.Field(0)
		switch {
		case inner.IsNil():
			out[path] = leaf{val: "<nil regexp>", zero: true, dropped: dropped}
		case v.CanInterface():
			out[path] = leaf{val: "regexp:" + v.Interface().(relabel.Regexp).String(), dropped: dropped}
		default:
			out[path] = leaf{val: "<regexp>", dropped: dropped}
		}
		return
	}
	if v.Type() == labelsType && v.CanInterface() {
		ls := v.Interface().(labels.Labels)
		out[path] = leaf{val: "labels:" + ls.String(), zero: ls.IsEmpty(), dropped: dropped}
		return
	}
	switch v.Kind() {
	case reflect.Ptr:
		if v.IsNil() {
			out[path] = leaf{val: "<nil>", zero: true, dropped: dropped}
			return
		}
		out[path+"*"] = leaf{val: "<set>"}
		render(v.Elem(), path, false, depth+1, out)
	case reflect.Interface:
		if v.IsNil() {
			out[path] = leaf{val: "<nil>", zero: true, dropped: dropped}
			return
		}
		render(v.Elem(), path+"("+v.Elem().Type().String()+")", false, depth+1, out)
	case reflect.Struct:
		t := v.Type()
		for i := 0; i < t.NumField(); i++ {
			name, omit, inline := tagName(t.Field(i))
			fv := v.Field(i)
			p := path + "." + name
			if inline {
				p = path
			}
			render(fv, p, dropped || (omit && fv.IsZero()), depth+1, out)
		}
	case reflect.Slice, reflect.Array:
		for i := 0; i < v.Len(); i++ {
			render(v.Index(i), fmt.Sprintf("%s[%d]", path, i), false, depth+1, out)
		}
	case reflect.Map:
		keys := v.MapKeys()
		sort.Slice(keys, func(i, j int) bool { return fmt.Sprint(keyString(keys[i])) < fmt.Sprint(keyString(keys[j])) })
		for _, k := range keys {
			render(v.MapIndex(k), fmt.Sprintf("%s{%s}", path, keyString(k)), false, depth+1, out)
		}
	case reflect.Bool:
		out[path] = leaf{val: fmt.Sprint(v.Bool()), zero: !v.Bool(), dropped: dropped}
	case reflect.Int, reflect.Int8, reflect.Int16, reflect.Int32, reflect.Int64:
		out[path] = leaf{val: fmt.Sprint(v.Int()), zero: v.Int() == 0, dropped: dropped}
	case reflect.Uint, reflect.Uint8, reflect.Uint16, reflect.Uint32, reflect.Uint64, reflect.Uintptr:
		out[path] = leaf{val: fmt.Sprint(v.Uint()), zero: v.Uint() == 0, dropped: dropped}
	case reflect.Float32, reflect.Float64:
		out[path] = leaf{val: fmt.Sprintf("%x", v.Float()), zero: v.Float() == 0, dropped: dropped}
	case reflect.String:
		out[path] = leaf{val: fmt.Sprintf("%q", v.String()), zero: v.String() == "", dropped: dropped}
	default: // func, chan, unsafe pointer
		out[path] = leaf{val: fmt.Sprintf("<%s nil=%v>", v.Kind(), v.IsZero()), zero: v.IsZero(), dropped: dropped}
	}
}

func keyString(k reflect.Value) string {
	if k.Kind() == reflect.String {
		return k.String()
	}
	return fmt.Sprintf("%v", k)
}

func renderConfig(c *config.Config) map[string]leaf {
	out := map[string]leaf{}
	render(reflect.ValueOf(c).Elem(), "", false, 0, out)
	return out
}

var (
	indexRe = regexp.MustCompile(`\[\d+\]|\{[^}]*\}|\([^)]*\)|\*`)
)

func normalizePath(p string) string {
	return strings.TrimPrefix(indexRe.ReplaceAllString(p, ""), ".")
}

type diff struct {
	path   string
	a, b   leaf
	ha, hb bool
}

func compare(a, b map[string]leaf) []diff {
	paths := map[string]bool{}
	for p := range a {
		paths[p] = true
	}
	for p := range b {
		paths[p] = true
	}
	var ps []string
	for p := range paths {
		ps = append(ps, p)
	}
	sort.Strings(ps)
	var out []diff
	for _, p := range ps {
		la, ha := a[p]
		lb, hb := b[p]
		if ha && hb && la.val == lb.val {
			continue
		}
		out = append(out, diff{p, la, lb, ha, hb})
	}
	return out
}

// ---------------------------------------------------------------- the case

func run(c *core.Case) {
	x := &g{r: c.Rng}
	t0, sections := x.config()
	logger := tsdbx.NopLogger()
	c1, err := config.Load(t0, logger)
	if err != nil {
		c.Count("generated_rejected_by_first_load", 1)
		c.Seen("rejection_reason", classifyErr(err))
		return
	}
	c.Count("generated_accepted", 1)
	for _, s := range sections {
		c.Seen("section", s)
	}
	t1 := c1.String()
	if strings.HasPrefix(t1, "<error creating config string") {
		c.Violatef("print-error", "Config.String() failed for an accepted configuration: %s\ninput:\n%s", t1, t0)
		return
	}
	c2, err := config.Load(t1, logger)
	if err != nil {
		kind := "reload-rejected"
		if strings.Contains(err.Error(), "action requires only 'source_labels' and `target_label`") {
			kind = "reload-rejected:equal-action-default-regex"
		}
		c.ViolateExtra(kind, map[string]string{"input": t0, "printed": t1}, "the printed form of an accepted configuration is rejected by config.Load: %v", err)
		return
	}
	r1, r2 := renderConfig(c1), renderConfig(c2)
	diffs := compare(r1, r2)
	if len(diffs) > 0 {
		// classify every difference on its own: a difference that fits none of the narrow predicates keeps
		// the generic kind, so a known mechanism cannot hide another one in the same configuration
		byPath := map[string]diff{}
		dollar := false
		var rest []diff
		for _, d := range diffs {
			switch {
			case d.ha && d.hb && d.a.zero && d.a.dropped && !d.b.zero:
				// an explicit zero value was removed by 'omitempty' and the reload restored a non-zero default
				np := normalizePath(d.path)
				if _, ok := byPath[np]; !ok {
					byPath[np] = d
				}
			case d.path == ".global.external_labels" && dollarOnly(c1, c2):
				dollar = true
			default:
				rest = append(rest, d)
			}
		}
		extra := map[string]string{"input": t0, "printed": t1}
		var nps []string
		for np := range byPath {
			nps = append(nps, np)
		}
		sort.Strings(nps)
		for _, np := range nps {
			d := byPath[np]
			c.ViolateExtra("zero-dropped:"+np, extra, "explicit zero value of %s is omitted by Config.String() ('omitempty') and the reload restores the default: loaded=%s reloaded=%s (at %s)", np, d.a.val, d.b.val, d.path)
		}
		if dollar {
			c.ViolateExtra("external-label-dollar-unescaped", extra, "external label values containing '$' (written '$$' in the input) are printed unescaped and expanded again on reload: loaded %s, reloaded %s", c1.GlobalConfig.ExternalLabels, c2.GlobalConfig.ExternalLabels)
		}
		if len(rest) > 0 {
			var lines []string
			for i, d := range rest {
				if i >= 12 {
					lines = append(lines, "…")
					break
				}
				lines = append(lines, fmt.Sprintf("%s: loaded=%s reloaded=%s", d.path, show(d.a, d.ha), show(d.b, d.hb)))
			}
			c.ViolateExtra("config-mismatch", extra, "Load(String(c)) differs from c:\n%s", strings.Join(lines, "\n"))
		}
	} else {
		t2 := c2.String()
		if t2 != t1 {
			c.ViolateExtra("text-mismatch", map[string]string{"input": t0}, "the reloaded configuration is equal but prints differently:\nfirst:\n%s\nsecond:\n%s", t1, t2)
		}
	}
	c.Count("scalar_fields_generated", int64(x.fields))
	c.Count("compared_leaves", int64(len(r1)))
	if x.fields >= 8 {
		c.Nontrivial(t0)
	}
	if c.Idx < 3 {
		s := t0
		if len(s) > 1500 {
			s = s[:1500] + "…"
		}
		c.Sample(map[string]any{"input_yaml": s, "sections": sections, "scalar_fields": x.fields, "leaves_compared": len(r1)})
	}
}

func show(l leaf, has bool) string {
	if !has {
		return "<absent>"
	}
	return l.val
}

// dollarOnly: the external labels of c1 and c2 differ only in labels whose loaded value contains '$'.
func dollarOnly(c1, c2 *config.Config) bool {
	m1, m2 := c1.GlobalConfig.ExternalLabels.Map(), c2.GlobalConfig.ExternalLabels.Map()
	differ := false
	for k, v := range m1 {
		if w, ok := m2[k]; !ok || w != v {
			if !strings.Contains(v, "$") {
				return false
			}
			differ = true
		}
	}
	for k := range m2 {
		if _, ok := m1[k]; !ok {
			return false
		}
	}
	return differ
}

var digits = regexp.MustCompile(`[0-9]+|"[^"]*"`)

func classifyErr(err error) string {
	s := err.Error()
	if i := strings.Index(s, "\n"); i >= 0 {
		s = s[:i]
	}
	s = digits.ReplaceAllString(s, "#")
	if len(s) > 90 {
		s = s[:90]
	}
	return s
}
