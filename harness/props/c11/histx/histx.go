// Package histx holds the helpers shared by the native-histogram checks C11 and C12: generated
// histogram sequences (built on gen.AbsHist), canonical layout-independent keys, a tiny-range
// tsdb.DB opener and a time-aligned multi-series append driver.  It registers nothing.
package histx

import (
	"context"
	"fmt"
	"math"
	"math/rand/v2"
	"sort"

	"github.com/prometheus/prometheus/model/histogram"
	"github.com/prometheus/prometheus/model/labels"
	"github.com/prometheus/prometheus/model/value"
	"github.com/prometheus/prometheus/storage"
	"github.com/prometheus/prometheus/tsdb"
	"github.com/prometheus/prometheus/tsdb/chunkenc"

	"verif/internal/gen"
	"verif/internal/tsdbx"
)

// Item is one histogram sample to append.  H/FH are the objects handed to the code under test
// (never shared between items); Keys are the accepted canonical renderings of the value read back.
type Item struct {
	T, ST int64
	Stale bool
	Float bool
	Gauge bool
	H     *histogram.Histogram
	FH    *histogram.FloatHistogram
	Keys  []string
	self  string // semantic rendering of the passed object at creation time
}

// Kind is "h" or "fh".
func (it *Item) Kind() string {
	if it.Float {
		return "fh"
	}
	return "h"
}

func selfKey(it *Item) string {
	if it.Float {
		return fmt.Sprintf("fh gauge=%v %s", it.FH.CounterResetHint == histogram.GaugeType, gen.FloatHistKey(it.FH))
	}
	return fmt.Sprintf("h gauge=%v %s", it.H.CounterResetHint == histogram.GaugeType, gen.HistKey(it.H))
}

// Unchanged reports whether the object passed to the storage still means what it meant when it
// was created (layout-independent: schema, zero threshold, custom bounds, count, sum, zero count,
// bucket index -> count, gauge-ness).  It returns "" or a description.
func (it *Item) Unchanged() string {
	if now := selfKey(it); now != it.self {
		return fmt.Sprintf("t=%d: passed object was %q, is now %q", it.T, it.self, now)
	}
	return ""
}

// KeyOf renders an observed sample canonically; every staleness marker renders as "stale".
func KeyOf(s tsdbx.Sample) string {
	switch s.Kind {
	case "h":
		if value.IsStaleNaN(s.H.Sum) {
			return "stale"
		}
		return "h:" + gen.HistKey(s.H)
	case "fh":
		if value.IsStaleNaN(s.FH.Sum) {
			return "stale"
		}
		return "fh:" + gen.FloatHistKey(s.FH)
	case "f":
		if value.IsStaleNaN(s.F) {
			return "stale"
		}
		return fmt.Sprintf("f:%016x", math.Float64bits(s.F))
	}
	return "?"
}

func (it *Item) Accepts(k string) bool {
	for _, x := range it.Keys {
		if x == k {
			return true
		}
	}
	return false
}

// SeqOpts steers GenSeq.
type SeqOpts struct {
	N           int
	Kind        string // "int" | "float" | "mixed"
	AllowCustom bool
	StaleOneIn  int // 0 = never
	ResetHintIn int // explicit CounterReset hint one in N (0 = never)
	// Calm re-draws most mutations that would force a new chunk for a counter histogram (layout
	// parameter change or a decreasing count), so that chunks get long and see many recodes.
	Calm bool
}

// disruptive reports whether going from a to b changes a layout parameter or lowers any count.
func disruptive(a, b *gen.AbsHist) bool {
	if a.Schema != b.Schema || a.ZeroThreshold != b.ZeroThreshold || len(a.Custom) != len(b.Custom) || b.ZeroCount < a.ZeroCount {
		return true
	}
	for i := range a.Custom {
		if a.Custom[i] != b.Custom[i] {
			return true
		}
	}
	for k, v := range a.Pos {
		if b.Pos[k] < v {
			return true
		}
	}
	for k, v := range a.Neg {
		if b.Neg[k] < v {
			return true
		}
	}
	return false
}

func tweak(r *rand.Rand, a *gen.AbsHist) {
	switch r.IntN(6) {
	case 0: // hostile sums
		a.Sum = []float64{math.Inf(1), math.Inf(-1), math.Copysign(0, -1), math.NaN(), 1e308, 5e-324, -123.456}[r.IntN(7)]
	case 1:
		if a.Schema != histogram.CustomBucketsSchema {
			a.ZeroThreshold = []float64{math.SmallestNonzeroFloat64, 1e-300, 0.1, 1.5e10, 3.0000000001, 0.0009765625}[r.IntN(6)]
		}
	case 2:
		if a.Schema == histogram.CustomBucketsSchema {
			f := []float64{1.0 / 3, 1e-3, 1.0000001, 1e6 + 0.1, 1e-9, 7}[r.IntN(6)]
			for i := range a.Custom {
				a.Custom[i] *= f
			}
			for i := 1; i < len(a.Custom); i++ { // keep strictly increasing under rounding
				if !(a.Custom[i] > a.Custom[i-1]) {
					a.Custom[i] = math.Nextafter(a.Custom[i-1], math.Inf(1))
				}
			}
		}
	case 3: // large counts
		for k := range a.Pos {
			if r.IntN(2) == 0 {
				a.Pos[k] += uint64(1) << uint(10+r.IntN(40))
			}
		}
	}
}

// compensatedDecrease lowers the zero count or one bucket and raises another bucket by at least
// as much, so that the total count does not drop: only a per-bucket comparison can see the reset.
func compensatedDecrease(r *rand.Rand, a *gen.AbsHist) {
	keys := make([]int32, 0, len(a.Pos))
	for k, v := range a.Pos {
		if v > 0 {
			keys = append(keys, k)
		}
	}
	sort.Slice(keys, func(i, j int) bool { return keys[i] < keys[j] })
	var d uint64
	var from int32
	fromZero := a.Schema != histogram.CustomBucketsSchema && a.ZeroCount > 0 && (len(keys) == 0 || r.IntN(2) == 0)
	switch {
	case fromZero:
		d = 1 + r.Uint64N(a.ZeroCount)
		a.ZeroCount -= d
	case len(keys) > 0:
		from = keys[r.IntN(len(keys))]
		d = 1 + r.Uint64N(a.Pos[from])
		a.Pos[from] -= d
	default:
		return
	}
	// receiver: another populated bucket, or a neighbour index
	var to int32
	if len(keys) > 1 || (fromZero && len(keys) > 0) {
		for tries := 0; tries < 8; tries++ {
			to = keys[r.IntN(len(keys))]
			if fromZero || to != from {
				break
			}
		}
		if !fromZero && to == from {
			to = from + 1
		}
	} else {
		to = from + 1
	}
	if a.Schema == histogram.CustomBucketsSchema && int(to) > len(a.Custom) {
		to = from - 1
		if to < 0 {
			a.Pos[from] += d // cannot compensate inside the custom layout: undo
			return
		}
	}
	a.Pos[to] += d + uint64(r.IntN(3))
}

// GenSeq draws a sequence of histogram items (timestamps left at zero).
func GenSeq(r *rand.Rand, o SeqOpts) []*Item {
	a := gen.NewAbsHist(r, o.AllowCustom)
	if r.IntN(3) == 0 {
		tweak(r, a)
	}
	isFloat := o.Kind == "float" || (o.Kind == "mixed" && r.IntN(2) == 0)
	factor := []float64{1, 1, 0.5, 1.25, 1.0 / 3, 1000.5}[r.IntN(6)]
	out := make([]*Item, 0, o.N)
	for i := 0; i < o.N; i++ {
		if i > 0 {
			next := a.Mutate(r)
			for tries := 0; o.Calm && tries < 6 && disruptive(a, next) && r.IntN(8) != 0; tries++ {
				next = a.Mutate(r)
			}
			a = next
			if r.IntN(30) == 0 {
				compensatedDecrease(r, a)
			}
			if r.IntN(40) == 0 && !(o.Calm && r.IntN(4) != 0) {
				tweak(r, a)
			}
			if o.Kind == "mixed" && r.IntN(25) == 0 {
				isFloat = !isFloat
			}
			if r.IntN(60) == 0 {
				a.Gauge = !a.Gauge
			}
		}
		it := &Item{Float: isFloat, Gauge: a.Gauge}
		if o.StaleOneIn > 0 && i > 0 && r.IntN(o.StaleOneIn) == 0 {
			it.Stale = true
			if isFloat {
				it.FH = gen.StaleFloatHist()
			} else {
				it.H = gen.StaleHist()
			}
			it.Gauge = false
			it.Keys = []string{"stale"}
			it.self = selfKey(it)
			out = append(out, it)
			continue
		}
		h := a.Int(r)
		explicitReset := o.ResetHintIn > 0 && !a.Gauge && r.IntN(o.ResetHintIn) == 0
		if isFloat {
			fh := h.ToFloat(nil)
			if factor != 1 {
				fh.Mul(factor)
			}
			if explicitReset {
				fh.CounterResetHint = histogram.CounterReset
			}
			it.FH = fh
			it.Keys = []string{"fh:" + gen.FloatHistKey(fh)}
		} else {
			if explicitReset {
				h.CounterResetHint = histogram.CounterReset
			}
			it.H = h
			it.Keys = []string{"h:" + gen.HistKey(h), "fh:" + gen.FloatHistKey(h.ToFloat(nil))}
		}
		it.self = selfKey(it)
		out = append(out, it)
	}
	return out
}

// Valid reports whether the item's histogram passes the repository's own Validate.
func (it *Item) Valid() error {
	if it.Float {
		return it.FH.Validate()
	}
	return it.H.Validate()
}

// CompareSeries checks got against want (both ascending in T).  "" or a first difference.
func CompareSeries(want []*Item, got []tsdbx.Sample) string {
	for i := 1; i < len(got); i++ {
		if got[i].T <= got[i-1].T {
			return fmt.Sprintf("timestamps not strictly increasing: %d then %d", got[i-1].T, got[i].T)
		}
	}
	gi := 0
	for _, w := range want {
		if gi >= len(got) || got[gi].T > w.T {
			return fmt.Sprintf("missing sample t=%d (appended %s); returned timestamps %v", w.T, w.Keys[0], tsOf(got))
		}
		if got[gi].T < w.T {
			return fmt.Sprintf("unexpected sample t=%d %s (never appended)", got[gi].T, KeyOf(got[gi]))
		}
		if k := KeyOf(got[gi]); !w.Accepts(k) {
			return fmt.Sprintf("wrong value at t=%d: read %s, appended %s", w.T, k, w.Keys[0])
		}
		gi++
	}
	if gi < len(got) {
		return fmt.Sprintf("unexpected sample t=%d %s (never appended)", got[gi].T, KeyOf(got[gi]))
	}
	return ""
}

func tsOf(s []tsdbx.Sample) []int64 {
	out := make([]int64, 0, len(s))
	for i, x := range s {
		if i >= 60 {
			break
		}
		out = append(out, x.T)
	}
	return out
}

// InRange filters items by timestamp.
func InRange(items []*Item, mint, maxt int64) []*Item {
	var out []*Item
	for _, it := range items {
		if it.T >= mint && it.T <= maxt {
			out = append(out, it)
		}
	}
	return out
}

// ---------------------------------------------------------------- DB

// DBInfo describes the drawn options.
type DBInfo struct {
	BlockRange int64
	HistST     bool
	V2         bool
	OOOWindow  int64
	Desc       string
}

// OpenDB opens a real tsdb.DB with a tiny block range in dir; background compaction is disabled.
func OpenDB(dir string, r *rand.Rand, oooWindow int64) (*tsdb.DB, DBInfo, error) {
	opts := tsdb.DefaultOptions()
	info := DBInfo{OOOWindow: oooWindow}
	info.BlockRange = []int64{500, 1000, 2000, 5000}[r.IntN(4)]
	opts.MinBlockDuration = info.BlockRange
	opts.MaxBlockDuration = info.BlockRange * []int64{1, 3, 9}[r.IntN(3)]
	opts.WALSegmentSize = 4 * 32 * 1024
	opts.NoLockfile = true
	opts.StripeSize = 128
	opts.RetentionDuration = 0
	opts.OutOfOrderTimeWindow = oooWindow
	if oooWindow > 0 {
		opts.OutOfOrderCapMax = int64([]int{4, 8, 32}[r.IntN(3)])
	}
	opts.EnableOverlappingCompaction = r.IntN(2) == 0
	info.HistST = r.IntN(3) == 0
	opts.EnableHistogramSTEncoding = info.HistST
	if r.IntN(4) == 0 {
		opts.EnableSTStorage = true
		opts.FloatChunkEncoding = chunkenc.EncXOR2
	}
	info.V2 = r.IntN(2) == 0
	info.Desc = fmt.Sprintf("blockRange=%d maxBlock=%d histST=%v stStorage=%v v2=%v ooo=%d oooCap=%d overlapCompaction=%v",
		info.BlockRange, opts.MaxBlockDuration, info.HistST, opts.EnableSTStorage, info.V2, oooWindow, opts.OutOfOrderCapMax, opts.EnableOverlappingCompaction)
	db, err := tsdb.Open(dir, tsdbx.NopLogger(), nil, opts, nil)
	if err != nil {
		return nil, info, err
	}
	db.DisableCompactions()
	return db, info, nil
}

// Batch is an open appender with a unified Append.
type Batch struct {
	v1 storage.Appender
	v2 storage.AppenderV2
}

func NewBatch(db *tsdb.DB, v2 bool) *Batch {
	if v2 {
		return &Batch{v2: db.AppenderV2(context.Background())}
	}
	return &Batch{v1: db.Appender(context.Background())}
}

func (b *Batch) Append(ls labels.Labels, it *Item) error {
	var err error
	if b.v2 != nil {
		_, err = b.v2.Append(0, ls, it.ST, it.T, 0, it.H, it.FH, storage.AOptions{})
	} else {
		_, err = b.v1.AppendHistogram(0, ls, it.T, it.H, it.FH)
	}
	return err
}

func (b *Batch) Commit() error {
	if b.v2 != nil {
		return b.v2.Commit()
	}
	return b.v1.Commit()
}

// Timestamps draws n strictly increasing timestamps starting near t0.
func Timestamps(r *rand.Rand, n int, t0 int64) []int64 {
	step := []int64{1, 5, 10, 15, 50}[r.IntN(5)]
	out := make([]int64, n)
	t := t0
	for i := range out {
		d := step
		switch r.IntN(10) {
		case 0:
			d = 1 + r.Int64N(2*step)
		case 1:
			d = step * int64(1+r.IntN(20)) // a gap
		}
		t += d
		out[i] = t
	}
	return out
}
