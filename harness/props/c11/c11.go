// Package c11: native histograms are stored and read back faithfully (round-trip monitor over
// the chunk appenders and over head -> m-mapped -> block of a real tsdb.DB).
package c11

import (
	"context"
	"fmt"
	"hash/fnv"
	"math"
	"math/rand/v2"

	"github.com/prometheus/prometheus/model/histogram"
	"github.com/prometheus/prometheus/model/labels"
	"github.com/prometheus/prometheus/tsdb"
	"github.com/prometheus/prometheus/tsdb/chunkenc"

	"verif/internal/core"
	"verif/internal/tsdbx"
	"verif/props/c11/histx"
)

func init() {
	core.Register(&core.Prop{
		ID:        "C11",
		Title:     "Native histograms are stored and read back faithfully",
		Level:     "exploration",
		Technique: "round-trip identity on layout-independent histogram keys (schema, zero threshold, custom bounds, count, sum bits, zero count, bucket index -> count) through the real chunk appenders and through a real tsdb.DB read at three storage stages",
		LevelText: "Generated sequences of valid integer/float/mixed native histograms (exponential schemas -4..8 and custom buckets, gauge and counter, random span layouts with explicit empty buckets, growing/shrinking/shifting buckets, resets, schema/zero-threshold/custom-bound changes, hostile sums incl. NaN/Inf/-0, huge counts, staleness markers, explicit CounterReset hints) are (a) appended directly through HistogramAppender/FloatHistogramAppender and their ST variants with appendOnly probes, harness-initiated cuts and appender-initiated cuts/recodes, then read back from the live chunks and from chunks reloaded from bytes (AtHistogram, AtFloatHistogram on integer chunks, object re-use); (b) appended time-aligned to 3..8 series of a real tsdb.DB (every third case) (tiny block ranges, V1 or V2 appender, random commit batches, optional ST encodings) and read through Querier (full and random sub-ranges) and ChunkQuerier from the head, after ForceHeadMMap and after compaction into blocks (CompactHead over the whole head, or, for heads spanning at most 4 block ranges, DB.Compact leaving a head remainder). Oracle: at every appended timestamp exactly one sample whose canonical key equals the appended histogram's (an integer histogram may come back as the equal float histogram), a staleness marker wherever one was appended, nothing else; the objects handed to the storage keep their meaning (same canonical key and gauge-ness). Held on the observed sequences only.",
		LevelNote: "Trusted: gen.HistKey/FloatHistKey as the definition of 'same histogram' (absent bucket = 0). Reductions: in-order appends only (out-of-order insertion is driven by C12); start timestamps are passed as hostile input but AtST is not compared (the statement does not cover it); appenders are not re-opened from bytes (outside the statement; HistogramChunk.Appender() has the same missing bit-position restore as the C10 XOR finding).",
		DesignRef: "DESIGN.md §5 C11",
		Rule:      "case = 3 direct appender sequences (20..400 samples each); every third case additionally drives one real DB with 3..8 series (20..200 samples each, quick; ..400 thorough); non-trivial iff the direct path saw at least one recode or appender-initiated chunk cut and, in DB cases, all three stages (head, m-mapped, block) were compared with at least 20 histogram samples each; distinct by a hash of all appended (t, canonical key)",
		Cases: func(variant string, tier core.Tier) int {
			if variant != "default" {
				return 0
			}
			if tier == core.Thorough {
				return 40000
			}
			return 1500
		},
		Run:            run,
		MinNontrivial:  func(t core.Tier) int { return 500 },
		CaseTimeoutSec: 180,
	})
}

// ---------------------------------------------------------------- direct appender path

type directStats struct {
	recodes, appCuts, ownCuts, appendOnlyErrs, samples, chunks int
}

func encFor(r *rand.Rand, isFloat bool) chunkenc.Encoding {
	st := r.IntN(3) == 0
	switch {
	case isFloat && st:
		return chunkenc.EncFloatHistogramST
	case isFloat:
		return chunkenc.EncFloatHistogram
	case st:
		return chunkenc.EncHistogramST
	default:
		return chunkenc.EncHistogram
	}
}

func appendItem(app chunkenc.Appender, prev chunkenc.Appender, it *histx.Item, appendOnly bool) (chunkenc.Chunk, bool, chunkenc.Appender, error) {
	if it.Float {
		return app.AppendFloatHistogram(prev, it.ST, it.T, it.FH, appendOnly)
	}
	return app.AppendHistogram(prev, it.ST, it.T, it.H, appendOnly)
}

// directRun appends a single-kind sequence through the chunk appenders and reads it back.
func directRun(c *core.Case, r *rand.Rand, items []*histx.Item, isFloat bool, st *directStats) bool {
	enc := encFor(r, isFloat)
	newChunk := func() (chunkenc.Chunk, chunkenc.Appender) {
		ch, err := chunkenc.NewEmptyChunk(enc)
		core.Must(err, "NewEmptyChunk")
		app, err := ch.Appender()
		core.Must(err, "Appender on empty chunk")
		return ch, app
	}
	cur, app := newChunk()
	chunksList := []chunkenc.Chunk{cur}
	ownCutAt := 30 + r.IntN(300)
	for i, it := range items {
		last := chunksList[len(chunksList)-1]
		var prev chunkenc.Appender
		mode := "normal"
		switch {
		case i > 0 && (last.NumSamples() >= ownCutAt || (len(last.Bytes()) > 1024 && r.IntN(4) == 0) || r.IntN(40) == 0):
			mode = "owncut"
		case i > 0 && r.IntN(6) == 0:
			mode = "appendOnly"
		}
		if mode == "appendOnly" {
			nc, recoded, napp, err := appendItem(app, nil, it, true)
			if err == nil {
				if nc != nil {
					if recoded {
						chunksList[len(chunksList)-1] = nc
						st.recodes++
					} else {
						chunksList = append(chunksList, nc)
						st.appCuts++
					}
				}
				app = napp
				st.samples++
				continue
			}
			st.appendOnlyErrs++
			mode = "owncut" // what callers of appendOnly do on refusal: start a new chunk themselves
		}
		if mode == "owncut" {
			prev = app
			cur, app = newChunk()
			chunksList = append(chunksList, cur)
			st.ownCuts++
		}
		nc, recoded, napp, err := appendItem(app, prev, it, false)
		if err != nil {
			c.Violatef("append-error", "enc=%v sample #%d t=%d: append with appendOnly=false failed: %v", enc, i, it.T, err)
			return false
		}
		if nc != nil {
			if recoded {
				chunksList[len(chunksList)-1] = nc
				st.recodes++
			} else {
				chunksList = append(chunksList, nc)
				st.appCuts++
			}
		}
		app = napp
		st.samples++
	}
	st.chunks += len(chunksList)

	read := func(reload bool) ([]tsdbx.Sample, string) {
		var got []tsdbx.Sample
		var reuseH *histogram.Histogram
		var reuseFH *histogram.FloatHistogram
		var reuseIt chunkenc.Iterator
		for ci, ch := range chunksList {
			if reload {
				cp := append([]byte(nil), ch.Bytes()...)
				rc, err := chunkenc.FromData(ch.Encoding(), cp)
				core.Must(err, "FromData")
				ch = rc
			}
			it := ch.Iterator(reuseIt)
			if r.IntN(2) == 0 {
				reuseIt = it
			} else {
				reuseIt = nil
			}
			n := 0
			for vt := it.Next(); vt != chunkenc.ValNone; vt = it.Next() {
				n++
				switch vt {
				case chunkenc.ValHistogram:
					if r.IntN(3) == 0 { // "AtFloatHistogram works, too"
						t, fh := it.AtFloatHistogram(reuseFH)
						got = append(got, tsdbx.Sample{T: t, Kind: "fh", FH: fh.Copy()})
						if r.IntN(2) == 0 {
							reuseFH = fh
						} else {
							reuseFH = nil
						}
					} else {
						t, h := it.AtHistogram(reuseH)
						got = append(got, tsdbx.Sample{T: t, Kind: "h", H: h.Copy()})
						if r.IntN(2) == 0 {
							reuseH = h
						} else {
							reuseH = nil
						}
					}
				case chunkenc.ValFloatHistogram:
					t, fh := it.AtFloatHistogram(reuseFH)
					got = append(got, tsdbx.Sample{T: t, Kind: "fh", FH: fh.Copy()})
					if r.IntN(2) == 0 {
						reuseFH = fh
					} else {
						reuseFH = nil
					}
				default:
					return got, fmt.Sprintf("chunk %d: unexpected value type %v", ci, vt)
				}
				if at := it.AtT(); at != got[len(got)-1].T {
					return got, fmt.Sprintf("chunk %d: AtT()=%d but At*Histogram returned t=%d", ci, at, got[len(got)-1].T)
				}
			}
			if err := it.Err(); err != nil {
				return got, fmt.Sprintf("chunk %d: iterator error %v", ci, err)
			}
			if n != ch.NumSamples() {
				return got, fmt.Sprintf("chunk %d: iterated %d samples, NumSamples()=%d", ci, n, ch.NumSamples())
			}
		}
		return got, ""
	}
	for _, reload := range []bool{false, true} {
		got, f := read(reload)
		if f == "" {
			f = histx.CompareSeries(items, got)
		}
		if f != "" {
			c.Violatef("direct-roundtrip-mismatch", "enc=%v %d samples in %d chunks (recodes=%d appender-cuts=%d own-cuts=%d) reloaded=%v: %s", enc, len(items), len(chunksList), st.recodes, st.appCuts, st.ownCuts, reload, f)
			return false
		}
	}
	return true
}

// ---------------------------------------------------------------- DB path

type seriesData struct {
	ls    labels.Labels
	items []*histx.Item
}

func checkStage(c *core.Case, r *rand.Rand, db *tsdb.DB, ser []*seriesData, stage, desc string, tmin, tmax int64) (int, bool) {
	compared := 0
	ranges := [][2]int64{{math.MinInt64, math.MaxInt64}}
	for i := 0; i < 2; i++ {
		a := tmin + r.Int64N(tmax-tmin+1)
		b := tmin + r.Int64N(tmax-tmin+1)
		if a > b {
			a, b = b, a
		}
		ranges = append(ranges, [2]int64{a, b})
	}
	for ri, rg := range ranges {
		q, err := db.Querier(rg[0], rg[1])
		if err != nil {
			c.Violatef("query-error", "stage %s: Querier(%d,%d): %v [%s]", stage, rg[0], rg[1], err, desc)
			return compared, false
		}
		d, _, err := tsdbx.DumpQuerier(q)
		q.Close()
		if err != nil {
			c.Violatef("query-error", "stage %s range [%d,%d]: %v [%s]", stage, rg[0], rg[1], err, desc)
			return compared, false
		}
		known := map[string]bool{}
		for _, s := range ser {
			key := s.ls.String()
			known[key] = true
			want := histx.InRange(s.items, rg[0], rg[1])
			if f := histx.CompareSeries(want, d[key]); f != "" {
				c.Violatef("stage-"+stage+"-mismatch", "stage %s, Querier range [%d,%d], series %s: %s [%s]", stage, rg[0], rg[1], key, f, desc)
				return compared, false
			}
			if ri == 0 {
				compared += len(want)
			}
		}
		for k, v := range d {
			if !known[k] && len(v) > 0 {
				c.Violatef("stage-"+stage+"-mismatch", "stage %s: unknown series %s returned [%s]", stage, k, desc)
				return compared, false
			}
		}
	}
	// chunk level (whole chunks are returned; compare over the full range only)
	cq, err := db.ChunkQuerier(math.MinInt64, math.MaxInt64)
	if err != nil {
		c.Violatef("query-error", "stage %s: ChunkQuerier: %v [%s]", stage, err, desc)
		return compared, false
	}
	cd, metas, err := tsdbx.DumpChunkQuerier(cq)
	cq.Close()
	if err != nil {
		c.Violatef("query-error", "stage %s chunk querier: %v [%s]", stage, err, desc)
		return compared, false
	}
	for _, s := range ser {
		key := s.ls.String()
		if f := histx.CompareSeries(s.items, cd[key]); f != "" {
			c.Violatef("stage-"+stage+"-chunk-mismatch", "stage %s, ChunkQuerier, series %s: %s [%s]", stage, key, f, desc)
			return compared, false
		}
		c.Count("chunks_read_"+stage, int64(len(metas[key])))
	}
	return compared, true
}

func dbRun(c *core.Case, r *rand.Rand) (ok bool, compared [3]int, h uint64) {
	dir := c.TempDir()
	db, info, err := histx.OpenDB(dir, r, 0)
	core.Must(err, "tsdb.Open")
	defer db.Close()

	nSeries := 3 + r.IntN(6)
	maxN := 200
	if c.Tier == core.Thorough {
		maxN = 400
	}
	n := 20 + r.IntN(maxN-19)
	ts := histx.Timestamps(r, n, int64(r.IntN(100000)))
	var ser []*seriesData
	hh := fnv.New64a()
	for s := 0; s < nSeries; s++ {
		kind := []string{"int", "float", "mixed"}[r.IntN(3)]
		items := histx.GenSeq(r, histx.SeqOpts{N: n, Kind: kind, AllowCustom: true, StaleOneIn: []int{0, 15, 40}[r.IntN(3)], ResetHintIn: []int{0, 40}[r.IntN(2)], Calm: r.IntN(2) == 0})
		sd := &seriesData{ls: labels.FromStrings("__name__", "h", "s", fmt.Sprint(s), "kind", kind)}
		skip := []int{0, 0, 5, 2}[r.IntN(4)] // series with holes so that commits mix series unevenly
		for i, it := range items {
			if skip > 0 && r.IntN(skip) == 0 && i > 0 {
				continue
			}
			if err := it.Valid(); err != nil {
				c.Count("generated_invalid_histograms_skipped", 1)
				continue
			}
			it.T = ts[i]
			if r.IntN(3) != 0 {
				it.ST = ts[i] - int64(r.IntN(1000))
			}
			sd.items = append(sd.items, it)
			fmt.Fprintf(hh, "%d|%d|%s\n", s, it.T, it.Keys[0])
			c.Seen("schema", fmt.Sprint(schemaOf(it)))
		}
		ser = append(ser, sd)
	}
	h = hh.Sum64()

	// time-aligned appends in random commit batches
	pos := make([]int, nSeries)
	b := histx.NewBatch(db, info.V2)
	inBatch := 0
	batchSize := 1 + r.IntN(60)
	for _, t := range ts {
		for si, sd := range ser {
			if pos[si] < len(sd.items) && sd.items[pos[si]].T == t {
				it := sd.items[pos[si]]
				pos[si]++
				if err := b.Append(sd.ls, it); err != nil {
					c.Violatef("db-append-error", "series %s t=%d: append of a valid in-order histogram failed: %v [%s]", sd.ls, t, err, info.Desc)
					return false, compared, h
				}
				inBatch++
			}
		}
		if inBatch >= batchSize {
			if err := b.Commit(); err != nil {
				c.Violatef("db-append-error", "commit failed: %v [%s]", err, info.Desc)
				return false, compared, h
			}
			b = histx.NewBatch(db, info.V2)
			inBatch = 0
			batchSize = 1 + r.IntN(60)
		}
	}
	if err := b.Commit(); err != nil {
		c.Violatef("db-append-error", "commit failed: %v [%s]", err, info.Desc)
		return false, compared, h
	}
	tmin, tmax := ts[0], ts[len(ts)-1]

	n0, ok := checkStage(c, r, db, ser, "head", info.Desc, tmin, tmax)
	compared[0] = n0
	if !ok {
		return false, compared, h
	}
	db.ForceHeadMMap()
	n1, ok := checkStage(c, r, db, ser, "mmap", info.Desc, tmin, tmax)
	compared[1] = n1
	if !ok {
		return false, compared, h
	}
	mode := "CompactHead"
	// DB.Compact writes one block per chunk range (each block write allocates ~20 MiB of
	// buffers), so it is used only when the head spans a handful of ranges.
	if r.IntN(2) == 0 && (tmax-tmin)/info.BlockRange <= 4 {
		mode = "Compact"
		if err := db.Compact(context.Background()); err != nil {
			c.Violatef("compaction-error", "DB.Compact: %v [%s]", err, info.Desc)
			return false, compared, h
		}
	} else {
		if err := db.CompactHead(tsdb.NewRangeHead(db.Head(), db.Head().MinTime(), db.Head().MaxTime())); err != nil {
			c.Violatef("compaction-error", "DB.CompactHead: %v [%s]", err, info.Desc)
			return false, compared, h
		}
	}
	if len(db.Blocks()) == 0 && mode == "Compact" {
		// the head was too short to be compactable: persist it explicitly
		mode = "Compact(no-op)+CompactHead"
		if err := db.CompactHead(tsdb.NewRangeHead(db.Head(), db.Head().MinTime(), db.Head().MaxTime())); err != nil {
			c.Violatef("compaction-error", "DB.CompactHead: %v [%s]", err, info.Desc)
			return false, compared, h
		}
	}
	c.Seen("compaction_mode", mode)
	c.Count("blocks_after_compaction", int64(len(db.Blocks())))
	if len(db.Blocks()) == 0 {
		c.Count("db_cases_without_block", 1)
		return true, compared, h
	}
	n2, ok := checkStage(c, r, db, ser, "block", info.Desc+" compaction="+mode, tmin, tmax)
	compared[2] = n2
	if !ok {
		return false, compared, h
	}
	for _, sd := range ser {
		for _, it := range sd.items {
			if f := it.Unchanged(); f != "" {
				c.Violatef("caller-histogram-changed", "DB path series %s: %s [%s]", sd.ls, f, info.Desc)
				return false, compared, h
			}
		}
	}
	return true, compared, h
}

func schemaOf(it *histx.Item) int32 {
	if it.Float {
		return it.FH.Schema
	}
	return it.H.Schema
}

// ---------------------------------------------------------------- case

func run(c *core.Case) {
	r := c.Rng
	var st directStats
	directOK := true
	hh := fnv.New64a()
	for k := 0; k < 3 && directOK; k++ {
		isFloat := r.IntN(2) == 0
		kind := "int"
		if isFloat {
			kind = "float"
		}
		n := 20 + r.IntN(381)
		raw := histx.GenSeq(r, histx.SeqOpts{N: n, Kind: kind, AllowCustom: true, StaleOneIn: []int{0, 12, 40}[r.IntN(3)], ResetHintIn: []int{0, 30}[r.IntN(2)], Calm: r.IntN(2) == 0})
		ts := histx.Timestamps(r, n, r.Int64N(1<<40)-(1<<39))
		var items []*histx.Item
		for i, it := range raw {
			if it.Valid() != nil {
				c.Count("generated_invalid_histograms_skipped", 1)
				continue
			}
			it.T = ts[i]
			switch r.IntN(4) {
			case 0:
				it.ST = ts[i] - int64(r.IntN(100000))
			case 1:
				it.ST = int64(r.Uint64() >> 2)
			}
			items = append(items, it)
			fmt.Fprintf(hh, "%d|%s\n", it.T, it.Keys[0])
		}
		directOK = directRun(c, r, items, isFloat, &st)
		if directOK {
			for _, it := range items {
				if f := it.Unchanged(); f != "" {
					c.Violatef("caller-histogram-changed", "direct appender path: %s", f)
					directOK = false
					break
				}
			}
		}
	}
	c.Count("direct_samples", int64(st.samples))
	c.Count("direct_chunks", int64(st.chunks))
	c.Count("direct_recodes", int64(st.recodes))
	c.Count("direct_appender_cuts", int64(st.appCuts))
	c.Count("direct_harness_cuts", int64(st.ownCuts))
	c.Count("direct_appendonly_refusals", int64(st.appendOnlyErrs))
	if !directOK {
		return
	}

	if c.Idx%3 != 0 { // direct-only case
		if st.recodes+st.appCuts > 0 {
			c.Nontrivial(hh.Sum64())
		}
		return
	}
	ok, compared, dbHash := dbRun(c, r)
	c.Count("db_samples_compared_head", int64(compared[0]))
	c.Count("db_samples_compared_mmap", int64(compared[1]))
	c.Count("db_samples_compared_block", int64(compared[2]))
	if !ok {
		return
	}
	if st.recodes+st.appCuts > 0 && compared[0] >= 20 && compared[1] >= 20 && compared[2] >= 20 {
		c.Nontrivial(hh.Sum64(), dbHash)
	}
	if c.Idx < 9 {
		c.Sample(map[string]any{
			"direct": map[string]int{"samples": st.samples, "chunks": st.chunks, "recodes": st.recodes, "appender_cuts": st.appCuts, "harness_cuts": st.ownCuts, "appendOnly_refusals": st.appendOnlyErrs},
			"db":     map[string]int{"head": compared[0], "mmap": compared[1], "block": compared[2]},
		})
	}
}
