// Package c05: readers see whole transactions only.
//
// Controlled part: appender goroutines are actors that pause at the commit-protocol hook sites;
// a PRNG-driven controller releases one actor at a time and creates queriers (drained at once
// or several steps later) at the quiescent points in between, i.e. also in the middle of a
// multi-series commit.  Stress part: free-running appenders and readers with hook jitter; the
// recorded history is checked per transaction with porcupine (write-once flag) and for
// atomicity directly.
package c05

import (
	"context"
	"fmt"
	"math"
	"sort"
	"strings"
	"sync"
	"sync/atomic"
	"time"

	"github.com/anishathalye/porcupine"

	"github.com/prometheus/prometheus/model/labels"
	"github.com/prometheus/prometheus/storage"
	"github.com/prometheus/prometheus/tsdb"

	"verif/internal/core"
	"verif/internal/sched"
	"verif/internal/tsdbx"
)

var pauseSites = []string{"tsdb.commit.begin", "tsdb.commit.afterLog", "tsdb.commit.afterSeries", "tsdb.commit.beforeWBL", "tsdb.commit.beforeClose"}

func init() {
	core.Register(&core.Prop{
		ID:        "C05",
		Title:     "Readers see whole transactions only",
		Level:     "exploration",
		Technique: "controlled scheduling at commit-protocol pause points (snapshot-visibility oracle) + uncontrolled stress with hook jitter checked by porcupine; race detector on the stress part",
		LevelText: "Controlled: 2–4 appender actors run multi-series transactions (unique value = transaction id, tiny SamplesPerChunk so chunks are cut inside transactions, an m-mapping actor, rollbacks) and pause at commit.begin / afterLog / after every series / beforeWBL / beforeClose; a PRNG-driven controller releases one actor at a time and creates queriers at the quiescent points between releases, draining them immediately or several steps later. For every querier and transaction: it sees all of the transaction's finally stored samples or none; none if Commit had not returned when the querier was created; all if it had. Stress: 6 appenders and 3 readers run freely with yield/sleep jitter at every hook; call/return times of Commit and Querier() form a history that porcupine checks per transaction against a write-once flag, atomicity is checked directly; the same workload runs under the race detector. Held on the explored schedules only.",
		LevelNote: "Interleavings are explored at pause-point granularity; inside critical sections only the race detector looks. Samples dropped at commit as out-of-order are not part of a transaction's visible set (taken from a final quiescent query). A committed transaction hidden behind an incomplete one in the same series is reported under a known-finding kind.",
		DesignRef: "DESIGN.md §5 C05",
		Rule:      "case = one schedule (controlled) or one stress run (every 8th case); non-trivial iff ≥1 querier was created while some transaction was in the middle of its commit (controlled) or ≥1 read overlapped a commit (stress) and ≥2 transactions committed; distinct by decision sequence",
		Cases: func(variant string, tier core.Tier) int {
			switch variant {
			case "default":
				if tier == core.Thorough {
					return 12000
				}
				return 480
			case "race":
				if tier == core.Thorough {
					return 400
				}
				return 32
			}
			return 0
		},
		Variants:       []string{"race"},
		Run:            run,
		MinNontrivial:  func(t core.Tier) int { return 100 },
		CaseTimeoutSec: 240,
	})
}

type txn struct {
	id       int
	series   []int
	t        int64
	rollback bool
	// controller-observed state
	commitCalled   atomic.Bool
	commitReturned atomic.Bool
	callNs, retNs  int64
	err            error
}

func seriesLabels(i int) labels.Labels {
	return labels.FromStrings("__name__", "m", "s", fmt.Sprint(i))
}

func openHead(c *core.Case, spc int) *tsdb.DB {
	o := tsdb.DefaultOptions()
	o.SamplesPerChunk = spc
	o.IsolationDisabled = false
	o.MinBlockDuration = 1 << 40
	o.MaxBlockDuration = 1 << 40
	o.RetentionDuration = 0
	o.NoLockfile = true
	db, err := tsdb.Open(c.TempDir(), tsdbx.NopLogger(), nil, o, nil)
	core.Must(err, "open db")
	db.DisableCompactions()
	return db
}

type reading struct {
	perSeries map[string][]int // series → txn ids in time order
}

func drain(d tsdbx.Dump) reading {
	r := reading{perSeries: map[string][]int{}}
	for k, ss := range d {
		for _, s := range ss {
			r.perSeries[k] = append(r.perSeries[k], int(s.F))
		}
	}
	return r
}

func run(c *core.Case) {
	if c.Variant == "race" || c.Idx%8 == 7 {
		runStress(c)
		return
	}
	runControlled(c)
}

func runControlled(c *core.Case) {
	r := c.Rng
	nSeries := 2 + r.IntN(3)
	nApp := 2 + r.IntN(3)
	spc := []int{2, 3, 4, 8}[r.IntN(4)]
	db := openHead(c, spc)
	defer db.Close()
	ctl := sched.Install()
	defer ctl.Uninstall()

	// seed every series with one committed sample so that series exist
	{
		app := db.Appender(context.Background())
		for i := 0; i < nSeries; i++ {
			app.Append(0, seriesLabels(i), 1000, 0)
		}
		core.Must(app.Commit(), "seed commit")
	}
	var nextT atomic.Int64
	nextT.Store(1000)
	var txns []*txn
	var mu sync.Mutex
	newTxn := func() *txn {
		mu.Lock()
		defer mu.Unlock()
		t := &txn{id: len(txns) + 1}
		txns = append(txns, t)
		return t
	}
	// plan per appender
	type plan struct {
		n        int
		series   [][]int
		rollback []bool
	}
	plans := make([]plan, nApp)
	for a := range plans {
		n := 1 + r.IntN(3)
		p := plan{n: n}
		for i := 0; i < n; i++ {
			k := 2 + r.IntN(nSeries-1)
			p.series = append(p.series, r.Perm(nSeries)[:k])
			p.rollback = append(p.rollback, r.IntN(8) == 0)
		}
		plans[a] = p
	}
	var actors []*sched.Actor
	for a := 0; a < nApp; a++ {
		p := plans[a]
		act := ctl.Go(fmt.Sprintf("app%d", a), pauseSites, func() {
			for i := 0; i < p.n; i++ {
				tx := newTxn()
				tx.series = p.series[i]
				tx.rollback = p.rollback[i]
				tx.t = nextT.Add(10)
				app := db.Appender(context.Background())
				for _, s := range tx.series {
					app.Append(0, seriesLabels(s), tx.t, float64(tx.id))
				}
				if tx.rollback {
					app.Rollback()
					continue
				}
				tx.commitCalled.Store(true)
				tx.err = app.Commit()
				tx.commitReturned.Store(true)
			}
		})
		actors = append(actors, act)
	}
	withMMap := r.IntN(2) == 0
	type qrec struct {
		step       int
		q          storage.Querier
		returnedAt map[int]bool // txn id → Commit had returned at creation
		openAt     map[int]bool // txn id → Commit called but not returned at creation (mid-commit)
		knownAt    int          // number of txns existing at creation
		read       *reading
		drainStep  int
	}
	var queriers []*qrec
	var decisions []string
	midCommitQueriers := 0
	snapshotTxns := func() (ret, open map[int]bool, n int) {
		mu.Lock()
		defer mu.Unlock()
		ret, open = map[int]bool{}, map[int]bool{}
		for _, t := range txns {
			if t.commitReturned.Load() {
				ret[t.id] = true
			} else if t.commitCalled.Load() {
				open[t.id] = true
			}
		}
		return ret, open, len(txns)
	}
	drainQ := func(qr *qrec, step int) bool {
		d, _, err := tsdbx.DumpQuerier(qr.q)
		if err != nil {
			c.Violatef("query-error", "draining querier created at step %d: %v", qr.step, err)
			return false
		}
		rd := drain(d)
		qr.read = &rd
		qr.drainStep = step
		qr.q.Close()
		return true
	}
	// wait until every actor is paused or done
	state := map[*sched.Actor]string{} // "" running, "paused:<site>", "done"
	settle := func(a *sched.Actor) bool {
		ev, _, ok := a.NextPauseOrDone(20 * time.Second)
		if !ok {
			c.Inconclusive("actor %s neither paused nor finished within the watchdog (blocked outside the hooks)", a.Name)
			return false
		}
		if ev.Done {
			if ev.Panic != nil {
				panic(ev.Panic)
			}
			state[a] = "done"
		} else {
			state[a] = "paused:" + ev.Site
		}
		return true
	}
	for _, a := range actors {
		if !settle(a) {
			releaseAll(actors, state)
			return
		}
	}
	step := 0
	for {
		var runnable []*sched.Actor
		for _, a := range actors {
			if strings.HasPrefix(state[a], "paused:") {
				runnable = append(runnable, a)
			}
		}
		// querier creation at this quiescent point
		if r.IntN(3) != 0 || len(runnable) == 0 {
			q, err := db.Querier(math.MinInt64, math.MaxInt64)
			core.Must(err, "Querier")
			ret, open, n := snapshotTxns()
			qr := &qrec{step: step, q: q, returnedAt: ret, openAt: open, knownAt: n}
			if len(open) > 0 {
				midCommitQueriers++
			}
			queriers = append(queriers, qr)
			decisions = append(decisions, fmt.Sprintf("Q%d", len(queriers)))
			if r.IntN(2) == 0 {
				if !drainQ(qr, step) {
					releaseAll(actors, state)
					return
				}
			}
		}
		if len(runnable) == 0 {
			break
		}
		// chunk m-mapping as a schedule decision of its own (runs to completion: its hook fires per
		// stripe, far too often to be a useful pause point)
		if withMMap && r.IntN(6) == 0 {
			db.ForceHeadMMap()
			decisions = append(decisions, "mmap")
		}
		// maybe drain an old querier
		for _, qr := range queriers {
			if qr.read == nil && r.IntN(4) == 0 {
				if !drainQ(qr, step) {
					releaseAll(actors, state)
					return
				}
			}
		}
		a := runnable[r.IntN(len(runnable))]
		decisions = append(decisions, a.Name+"@"+strings.TrimPrefix(state[a], "paused:tsdb."))
		state[a] = ""
		a.Release()
		if !settle(a) {
			releaseAll(actors, state)
			return
		}
		step++
		if step > 400 {
			c.Inconclusive("schedule longer than 400 steps")
			releaseAll(actors, state)
			return
		}
	}
	for _, qr := range queriers {
		if qr.read == nil {
			if !drainQ(qr, step) {
				return
			}
		}
	}
	// final quiescent truth: which samples of each transaction are stored at all
	fq, err := db.Querier(math.MinInt64, math.MaxInt64)
	core.Must(err, "final Querier")
	fd, _, err := tsdbx.DumpQuerier(fq)
	fq.Close()
	core.Must(err, "final dump")
	final := drain(fd)
	stored := map[int]map[string]bool{} // txn → series having its sample
	for k, ids := range final.perSeries {
		for _, id := range ids {
			if stored[id] == nil {
				stored[id] = map[string]bool{}
			}
			stored[id][k] = true
		}
	}
	committed := 0
	for _, t := range txns {
		if t.rollback {
			if len(stored[t.id]) > 0 {
				c.Violatef("rolled-back-sample-visible", "transaction %d was rolled back but the final query returns its samples in %v\nschedule: %v", t.id, keys(stored[t.id]), decisions)
			}
			continue
		}
		if t.err != nil {
			c.Violatef("commit-failed", "transaction %d: Commit: %v", t.id, t.err)
			continue
		}
		committed++
	}
	// series order of txn ids (to recognise the known finding)
	for qi, qr := range queriers {
		seen := map[int]map[string]bool{}
		for k, ids := range qr.read.perSeries {
			for _, id := range ids {
				if seen[id] == nil {
					seen[id] = map[string]bool{}
				}
				seen[id][k] = true
			}
		}
		for _, t := range txns {
			if t.id == 0 || t.rollback || len(stored[t.id]) == 0 {
				if len(seen[t.id]) > 0 && t.rollback {
					c.Violatef("rolled-back-sample-visible", "querier Q%d saw samples of rolled-back transaction %d\nschedule: %v", qi+1, t.id, decisions)
				}
				continue
			}
			nSeen, nStored := len(seen[t.id]), len(stored[t.id])
			what := fmt.Sprintf("querier Q%d (created at step %d, drained at step %d) and transaction %d (t=%d, series %v): saw its sample in %v, finally stored in %v; at creation Commit returned=%v, mid-commit=%v\nschedule: %v",
				qi+1, qr.step, qr.drainStep, t.id, t.t, t.series, keys(seen[t.id]), keys(stored[t.id]), qr.returnedAt[t.id], qr.openAt[t.id], decisions)
			switch {
			case !qr.returnedAt[t.id] && nSeen > 0:
				c.Violatef("dirty-read", "sample of a transaction whose Commit had not returned is visible: %s", what)
			case qr.returnedAt[t.id] && nSeen < nStored:
				// known finding: hidden behind a transaction that was incomplete at creation, in the same series
				excused := true
				for k := range stored[t.id] {
					if seen[t.id][k] {
						continue
					}
					hiddenByOpen := false
					for _, id := range final.perSeries[k] {
						if id == t.id {
							break
						}
						if qr.openAt[id] {
							hiddenByOpen = true
						}
					}
					if !hiddenByOpen {
						excused = false
					}
				}
				if excused {
					c.Violatef("committed-txn-hidden-behind-open-txn-in-same-series", "a transaction committed before the querier was created is (partly) invisible because an earlier sample of the same series belongs to a transaction that was still committing: %s", what)
				} else if nSeen == 0 {
					c.Violatef("lost-read", "transaction committed before the querier was created is invisible: %s", what)
				} else {
					c.Violatef("partial-transaction-visible", "transaction is partly visible: %s", what)
				}
			case nSeen > 0 && nSeen < nStored:
				c.Violatef("partial-transaction-visible", "transaction is partly visible: %s", what)
			}
		}
	}
	c.Count("controlled_schedules", 1)
	c.Count("steps", int64(step))
	c.Count("queriers", int64(len(queriers)))
	c.Count("queriers_created_mid_commit", int64(midCommitQueriers))
	c.Count("transactions_committed", int64(committed))
	for s, n := range ctl.Hits() {
		if n > 0 {
			c.Seen("hook_site", s)
		}
	}
	if midCommitQueriers > 0 && committed >= 2 {
		c.Nontrivial(decisions)
	}
	if c.Idx < 2 {
		c.Sample(map[string]any{"mode": "controlled", "appenders": nApp, "series": nSeries, "samples_per_chunk": spc, "schedule": decisions})
	}
}

func keys(m map[string]bool) []string {
	var out []string
	for k := range m {
		out = append(out, k)
	}
	sort.Strings(out)
	return out
}

func releaseAll(actors []*sched.Actor, state map[*sched.Actor]string) {
	// let everything run to completion so that the DB can be closed
	for _, a := range actors {
		a.SetPause()
	}
	for _, a := range actors {
		if strings.HasPrefix(state[a], "paused:") {
			a.Release()
		}
	}
	for _, a := range actors {
		if state[a] != "done" {
			for {
				ev, ok := a.Next(20 * time.Second)
				if !ok || ev.Done {
					break
				}
			}
		}
	}
}

// ---------------------------------------------------------------- stress part

type wrec struct {
	id        int
	series    []int
	call, ret int64
	err       error
}

type opIn struct {
	write bool
	txn   int
}

func runStress(c *core.Case) {
	r := c.Rng
	nSeries := 3
	db := openHead(c, 4)
	defer db.Close()
	ctl := sched.Install()
	defer ctl.Uninstall()
	ctl.SetJitter(300, uint64(c.Idx)+1)
	{
		app := db.Appender(context.Background())
		for i := 0; i < nSeries; i++ {
			app.Append(0, seriesLabels(i), 1000, 0)
		}
		core.Must(app.Commit(), "seed commit")
	}
	const nApp, nRead = 6, 3
	perApp := 12
	if c.Tier == core.Thorough {
		perApp = 30
	}
	var idGen, tGen atomic.Int64
	tGen.Store(1000)
	t0 := time.Now()
	now := func() int64 { return int64(time.Since(t0)) }
	type rrec struct {
		call, ret int64
		seen      map[int]map[string]bool
		err       error
	}
	var mu sync.Mutex
	var writes []wrec
	var reads []rrec
	var wg sync.WaitGroup
	var stop atomic.Bool
	seeds := make([]uint64, nApp)
	for i := range seeds {
		seeds[i] = r.Uint64()
	}
	for a := 0; a < nApp; a++ {
		wg.Add(1)
		go func(a int) {
			defer wg.Done()
			x := seeds[a]
			for i := 0; i < perApp; i++ {
				x = x*6364136223846793005 + 1442695040888963407
				id := int(idGen.Add(1))
				k := 2 + int(x>>33)%2
				series := []int{int(x>>40) % nSeries, (int(x>>40) + 1) % nSeries, (int(x>>40) + 2) % nSeries}[:k]
				app := db.Appender(context.Background())
				t := tGen.Add(1)
				for _, s := range series {
					app.Append(0, seriesLabels(s), t, float64(id))
				}
				w := wrec{id: id, series: series, call: now()}
				w.err = app.Commit()
				w.ret = now()
				mu.Lock()
				writes = append(writes, w)
				mu.Unlock()
			}
		}(a)
	}
	var rwg sync.WaitGroup
	for i := 0; i < nRead; i++ {
		rwg.Add(1)
		go func() {
			defer rwg.Done()
			for !stop.Load() {
				rr := rrec{call: now(), seen: map[int]map[string]bool{}}
				q, err := db.Querier(math.MinInt64, math.MaxInt64)
				rr.ret = now()
				if err != nil {
					rr.err = err
				} else {
					d, _, err := tsdbx.DumpQuerier(q)
					q.Close()
					rr.err = err
					for k, ss := range d {
						for _, s := range ss {
							id := int(s.F)
							if rr.seen[id] == nil {
								rr.seen[id] = map[string]bool{}
							}
							rr.seen[id][k] = true
						}
					}
				}
				mu.Lock()
				reads = append(reads, rr)
				mu.Unlock()
				time.Sleep(50 * time.Microsecond)
			}
		}()
	}
	wg.Wait()
	stop.Store(true)
	rwg.Wait()
	// final truth
	fq, err := db.Querier(math.MinInt64, math.MaxInt64)
	core.Must(err, "final Querier")
	fd, _, err := tsdbx.DumpQuerier(fq)
	fq.Close()
	core.Must(err, "final dump")
	stored := map[int]map[string]bool{}
	order := map[string][]int{}
	for k, ss := range fd {
		for _, s := range ss {
			id := int(s.F)
			order[k] = append(order[k], id)
			if stored[id] == nil {
				stored[id] = map[string]bool{}
			}
			stored[id][k] = true
		}
	}
	wByID := map[int]wrec{}
	for _, w := range writes {
		wByID[w.id] = w
		if w.err != nil {
			c.Violatef("commit-failed", "Commit: %v", w.err)
			return
		}
	}
	var ops []porcupine.Operation
	overlapping, excusedN := 0, 0
	for ri, rr := range reads {
		if rr.err != nil {
			c.Violatef("query-error", "%v", rr.err)
			return
		}
		for _, w := range writes {
			st := stored[w.id]
			if len(st) == 0 {
				continue // every sample dropped at commit (out of order): no visible set
			}
			n := len(rr.seen[w.id])
			if n > 0 && n < len(st) {
				// partial: excused only by the known finding (hidden behind a txn open during the read's creation)
				if hiddenBehindOpen(rr.call, rr.ret, w.id, st, rr.seen[w.id], order, wByID) {
					excusedN++
					continue
				}
				c.Violatef("partial-transaction-visible", "stress read %d saw transaction %d in %v but it is stored in %v", ri, w.id, keys(rr.seen[w.id]), keys(st))
				return
			}
			if w.call < rr.ret && rr.call < w.ret {
				overlapping++
			}
			if n == 0 && w.ret < rr.call && hiddenBehindOpen(rr.call, rr.ret, w.id, st, nil, order, wByID) {
				excusedN++
				continue // known finding; leave this read out of the history
			}
			ops = append(ops, porcupine.Operation{ClientId: 100 + ri%nRead, Input: opIn{false, w.id}, Call: rr.call, Output: n > 0, Return: rr.ret})
		}
	}
	for _, w := range writes {
		if len(stored[w.id]) > 0 {
			ops = append(ops, porcupine.Operation{ClientId: w.id % nApp, Input: opIn{true, w.id}, Call: w.call, Output: true, Return: w.ret})
		}
	}
	model := porcupine.Model{
		Partition: func(history []porcupine.Operation) [][]porcupine.Operation {
			m := map[int][]porcupine.Operation{}
			for _, o := range history {
				m[o.Input.(opIn).txn] = append(m[o.Input.(opIn).txn], o)
			}
			var out [][]porcupine.Operation
			for _, v := range m {
				out = append(out, v)
			}
			return out
		},
		Init: func() any { return false },
		Step: func(state, input, output any) (bool, any) {
			in := input.(opIn)
			if in.write {
				return true, true
			}
			return output.(bool) == state.(bool), state
		},
		Equal: func(a, b any) bool { return a.(bool) == b.(bool) },
	}
	res := porcupine.CheckOperationsTimeout(model, ops, 60*time.Second)
	switch res {
	case porcupine.Illegal:
		c.Violatef("visibility-not-linearizable", "stress history of %d operations (%d commits, %d reads) is not linearizable per transaction against a write-once flag: some read saw a transaction before its Commit was called, or missed one whose Commit had returned before Querier() was called", len(ops), len(writes), len(reads))
	case porcupine.Unknown:
		c.Inconclusive("porcupine timed out on %d operations", len(ops))
	}
	if excusedN > 0 {
		c.Violatef("committed-txn-hidden-behind-open-txn-in-same-series", "%d (read, transaction) pairs of the stress run: a committed transaction was (partly) invisible while an earlier sample of the same series belonged to a transaction that was committing while the querier was created", excusedN)
	}
	c.Count("stress_runs", 1)
	c.Count("stress_commits", int64(len(writes)))
	c.Count("stress_reads", int64(len(reads)))
	c.Count("stress_history_ops", int64(len(ops)))
	c.Count("stress_read_commit_overlaps", int64(overlapping))
	if overlapping > 0 && len(writes) >= 2 {
		c.Nontrivial("stress", c.Idx, c.Variant, len(reads), overlapping)
	}
	if c.Idx%8 == 7 && c.Idx < 16 {
		c.Sample(map[string]any{"mode": "stress", "commits": len(writes), "reads": len(reads), "history_ops": len(ops), "overlaps": overlapping, "porcupine": fmt.Sprint(res)})
	}
}

// hiddenBehindOpen: every series where txn id is stored but unseen has, earlier in that series,
// a sample of a transaction whose Commit interval overlaps the read's Querier() interval or
// which was still open when Querier() was called.
func hiddenBehindOpen(rcall, rret int64, id int, st, seen map[string]bool, order map[string][]int, w map[int]wrec) bool {
	for k := range st {
		if seen[k] {
			continue
		}
		hidden := false
		for _, other := range order[k] {
			if other == id {
				break
			}
			o, ok := w[other]
			if !ok {
				continue
			}
			// o was (possibly) still committing when the querier was created
			if o.call < rret && rcall < o.ret {
				hidden = true
				break
			}
		}
		if !hidden {
			return false
		}
	}
	return true
}
