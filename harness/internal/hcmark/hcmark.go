// Package hcmark relates the m-map markers of the WBL to the chunk records of the head-chunk
// files: the witness predicate of the known finding ooo-sample-lost-to-wbl-marker-of-absent-chunk
// (C03, C04).
package hcmark

import (
	"encoding/binary"
	"os"
	"path/filepath"
	"strconv"

	"github.com/prometheus/prometheus/model/labels"
	"github.com/prometheus/prometheus/tsdb/record"
	"github.com/prometheus/prometheus/tsdb/wlog"

	"verif/internal/tsdbx"
)

// HeadChunkBounds returns the offsets of the chunk records of a head-chunk file plus the end of
// the last one, as far as the file parses.
func HeadChunkBounds(b []byte) []int64 {
	var out []int64
	off := 8
	for off+25 < len(b) {
		allZero := true
		for _, x := range b[off : off+24] {
			if x != 0 {
				allZero = false
				break
			}
		}
		if allZero {
			break
		}
		n, w := binary.Uvarint(b[off+25:])
		if w <= 0 || off+25+w+int(n)+4 > len(b) {
			break
		}
		out = append(out, int64(off))
		off += 25 + w + int(n) + 4
	}
	out = append(out, int64(off))
	return out
}

// HeadChunkRecs returns the refs (file sequence<<32 | offset) of the chunk records in the
// head-chunk files of dir, as far as each file parses.
func HeadChunkRecs(dir string) map[uint64]bool {
	out := map[uint64]bool{}
	ents, _ := os.ReadDir(filepath.Join(dir, "chunks_head"))
	for _, en := range ents {
		seq, err := strconv.ParseUint(en.Name(), 10, 32)
		if err != nil {
			continue
		}
		b, err := os.ReadFile(filepath.Join(dir, "chunks_head", en.Name()))
		if err != nil {
			continue
		}
		bs := HeadChunkBounds(b)
		for _, off := range bs[:len(bs)-1] {
			out[seq<<32|uint64(off)] = true
		}
	}
	return out
}

// WBLMarkers returns, per series ref, the chunk refs named by the m-map markers in the WBL.
func WBLMarkers(dir string) map[uint64][]uint64 {
	out := map[uint64][]uint64{}
	sr, err := wlog.NewSegmentsReader(filepath.Join(dir, "wbl"))
	if err != nil {
		return out
	}
	defer sr.Close()
	dec := record.NewDecoder(labels.NewSymbolTable(), tsdbx.NopLogger())
	r := wlog.NewReader(sr)
	for r.Next() {
		rec := r.Record()
		if dec.Type(rec) == record.MmapMarkers {
			ms, err := dec.MmapMarkers(rec, nil)
			if err != nil {
				break
			}
			for _, m := range ms {
				out[uint64(m.Ref)] = append(out[uint64(m.Ref)], uint64(m.MmapRef))
			}
		}
	}
	return out
}

// DanglingMarkerHonoured is the witness predicate of the known finding
// ooo-sample-lost-to-wbl-marker-of-absent-chunk: the WBL holds an m-map marker of the series
// whose chunk record is not in the head-chunk files, while a chunk record that the open loaded
// (in the files before the open and still there after it) has a larger ref.  WBL replay honours
// a marker when its ref is not beyond the newest loaded chunk, and then drops the out-of-order
// samples replayed so far, although the chunk that should hold them does not exist.
func DanglingMarkerHonoured(pre, post map[uint64]bool, markers []uint64) bool {
	for _, m := range markers {
		if pre[m] && post[m] {
			continue
		}
		for r := range pre {
			if post[r] && r > m {
				return true
			}
		}
	}
	return false
}

// SeriesRefsInWAL returns every series ref that a series record of the checkpoint or the WAL gives
// to the label set k (a series re-created after a restart has several; WBL records may use any).
func SeriesRefsInWAL(dir, k string) []uint64 {
	seen := map[uint64]bool{}
	dec := record.NewDecoder(labels.NewSymbolTable(), tsdbx.NopLogger())
	read := func(d string) {
		sr, err := wlog.NewSegmentsReader(d)
		if err != nil {
			return
		}
		defer sr.Close()
		r := wlog.NewReader(sr)
		for r.Next() {
			rec := r.Record()
			if dec.Type(rec) != record.Series {
				continue
			}
			ss, err := dec.Series(rec, nil)
			if err != nil {
				return
			}
			for _, x := range ss {
				if x.Labels.String() == k {
					seen[uint64(x.Ref)] = true
				}
			}
		}
	}
	wal := filepath.Join(dir, "wal")
	if cp, _, err := wlog.LastCheckpoint(wal); err == nil {
		read(cp)
	}
	read(wal)
	var out []uint64
	for r := range seen {
		out = append(out, r)
	}
	return out
}
