package promqlref

import (
	"fmt"
	"strings"

	"github.com/prometheus/prometheus/model/labels"
)

// Reference semantics of selectors, written from docs/querying/basics.md ("Instant vector
// selectors", "Range Vector Selectors", "Offset modifier", "@ modifier", "Subquery", "Staleness")
// and the statement of property C28.

// Mod is the pair of time modifiers of a selector or subquery.
type Mod struct {
	HasAt   bool
	At      int64 // ms, used when HasAt && !AtStart && !AtEnd
	AtStart bool  // @ start()
	AtEnd   bool  // @ end()
	Offset  int64 // ms; positive looks into the past, negative into the future
	AtFirst bool  // rendering order only: "@ x offset d" vs "offset d @ x" (documented as equivalent)
}

// Eff returns the time the modified selector looks at when the surrounding evaluation time is t.
// qStart/qEnd are the bounds of the top-level query (equal to t for an instant query).
func (m Mod) Eff(t, qStart, qEnd int64) int64 {
	base := t
	if m.HasAt {
		switch {
		case m.AtStart:
			base = qStart
		case m.AtEnd:
			base = qEnd
		default:
			base = m.At
		}
	}
	return base - m.Offset
}

func (m Mod) String() string {
	at, off := "", ""
	if m.HasAt {
		switch {
		case m.AtStart:
			at = " @ start()"
		case m.AtEnd:
			at = " @ end()"
		default:
			at = " @ " + AtSec(m.At)
		}
	}
	if m.Offset != 0 {
		off = " offset " + Dur(m.Offset)
	}
	if m.AtFirst {
		return at + off
	}
	return off + at
}

// InstantAt: the latest sample of s in (te-lookback, te]; absent if there is none or if that
// latest sample is a staleness marker.
func InstantAt(s *Series, te, lookback int64) (Smp, bool) {
	var best *Smp
	for i := range s.Samples {
		x := &s.Samples[i]
		if x.T > te-lookback && x.T <= te {
			if best == nil || x.T > best.T {
				best = x
			}
		}
	}
	if best == nil || best.Stale() {
		return Smp{}, false
	}
	return *best, true
}

// Window: the non-stale samples of s with lo < T <= hi, in time order.
func Window(s *Series, lo, hi int64) []Smp {
	var out []Smp
	for _, x := range s.Samples {
		if x.T > lo && x.T <= hi && !x.Stale() {
			out = append(out, x)
		}
	}
	return out
}

// SubqSteps: all multiples of step inside (te-r, te], ascending.
func SubqSteps(te, r, step int64) []int64 {
	lo := te - r
	// smallest multiple of step that is > lo (floor division, also for negative lo)
	k := lo / step
	if lo%step != 0 && lo < 0 {
		k--
	}
	var out []int64
	for u := (k + 1) * step; u <= te; u += step {
		out = append(out, u)
	}
	return out
}

// MatchersText renders matchers as a selector text "{a="b",...}".
func MatchersText(ms []*labels.Matcher) string {
	parts := make([]string, len(ms))
	for i, m := range ms {
		parts[i] = fmt.Sprintf("%s%s%q", m.Name, m.Type, m.Value)
	}
	return "{" + strings.Join(parts, ",") + "}"
}
