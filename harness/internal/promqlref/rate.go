package promqlref

import (
	"math"
)

// Reference for rate/increase/delta/irate/idelta/resets/changes on float samples, written from
// docs/querying/functions.md and the statement of property C30:
//
//   - delta: last - first; increase/rate: the same plus, for every counter reset between two
//     consecutive samples (value decreased, or the later sample's start timestamp says the counter
//     was restarted after the earlier sample), the value before the reset.
//   - The result is extrapolated to the window boundaries: on each side, if the gap between the
//     boundary and the first/last sample is below 1.1 x the average sample interval the slope is
//     extended over the whole gap, otherwise over half an average interval.  For counters the
//     extension on the left never goes beyond the point where the counter would have been zero.
//   - rate = increase / range seconds.
//   - irate/idelta use the last two samples only; irate treats a decrease as a restart from zero.
//   - resets counts decreases, changes counts value changes, between consecutive samples.
//
// If the first sample's start timestamp lies strictly inside the window (and before the sample)
// the counter is known to have started from zero there: the increase then counts the first value
// as well, the covered interval starts at the start timestamp and nothing is extrapolated on the left.

// FS is a float sample with an optional start timestamp (0 = unknown).
type FS struct {
	T  int64
	ST int64
	F  float64
}

// STReset tells whether cur's start timestamp shows a counter restart after prev.
// ambiguous is set for start timestamps that coincide with the previous sample's time, where the
// interpretation (delta series vs unknown start) is not part of the property statement.
func STReset(prev, cur FS) (reset, ambiguous bool) {
	if cur.ST == 0 || cur.ST >= cur.T {
		return false, false // unknown or invalid start timestamp
	}
	if cur.ST == prev.T {
		return false, true
	}
	return cur.ST > prev.T, false
}

// RateResult is the outcome of the reference; Alt lists all acceptable values (more than one only
// when a boundary gap equals 1.1 x the average interval exactly, where the property does not fix
// the side of the comparison).
type RateResult struct {
	Present   bool
	Alt       []float64
	Ambiguous bool // inputs for which the statement does not determine the result (skip the value check)
	Raw       float64
	Clamped   bool // the zero-point limit was the binding one in some alternative
	NearThr   bool // some boundary gap is within 1 ms of 1.1 x the average interval
	Resets    int
	STResets  int
	STStart   bool // first sample's start timestamp inside the window was used
}

// ExtrapolatedRate computes rate (isCounter,isRate), increase (isCounter,!isRate) or delta
// (!isCounter,!isRate) for the samples of one series inside the window (rs, re] (ms).
// useST enables start-timestamp handling for the counter functions.
func ExtrapolatedRate(w []FS, rs, re int64, isCounter, isRate, useST bool) RateResult {
	var res RateResult
	n := len(w)
	if n == 0 {
		return res
	}
	first, last := w[0], w[n-1]
	raw := last.F - first.F
	if isCounter {
		for i := 1; i < n; i++ {
			reset := w[i].F < w[i-1].F
			if reset {
				res.Resets++
			}
			if useST {
				sr, amb := STReset(w[i-1], w[i])
				if amb {
					res.Ambiguous = true
				}
				if sr && !reset {
					res.STResets++
					reset = true
				}
			}
			if reset {
				raw += w[i-1].F
			}
		}
	}
	sampledMs := last.T - first.T
	startedInWindow := isCounter && useST && first.ST != 0 && first.ST > rs && first.ST < first.T
	if !startedInWindow && n < 2 {
		return res
	}
	res.Present = true
	// gaps to the boundaries, seconds
	gapStartMs := first.T - rs
	gapEndMs := re - last.T
	avg := 0.0
	if n > 1 {
		avg = float64(sampledMs) / 1000 / float64(n-1)
	}
	// exact comparison gap <> 1.1*avg  ⇔  10*gap*(n-1) <> 11*sampled
	cmpThr := func(gapMs int64) int {
		a := 10 * gapMs * int64(n-1)
		b := 11 * sampledMs
		if d := 10 * int64(n-1); a-b <= d && b-a <= d {
			res.NearThr = true
		}
		switch {
		case a < b:
			return -1
		case a > b:
			return 1
		}
		return 0
	}
	sideOptions := func(gapMs int64) []float64 {
		full := float64(gapMs) / 1000
		half := avg / 2
		switch cmpThr(gapMs) {
		case -1:
			return []float64{full}
		case 1:
			return []float64{half}
		}
		return []float64{full, half}
	}
	var startOpts []float64
	sampled := float64(sampledMs) / 1000
	if startedInWindow {
		res.STStart = true
		raw += first.F
		sampled = float64(last.T-first.ST) / 1000
		startOpts = []float64{0}
	} else {
		startOpts = sideOptions(gapStartMs)
	}
	endOpts := sideOptions(gapEndMs)
	res.Raw = raw
	for _, ds := range startOpts {
		if isCounter && !startedInWindow && raw > 0 && first.F >= 0 {
			// time it takes, at the observed slope, to get from zero to the first value
			dz := sampled * (first.F / raw)
			if dz < ds {
				ds = dz
				res.Clamped = true
			}
		}
		for _, de := range endOpts {
			v := raw
			if sampled != 0 {
				v = raw * ((sampled + ds + de) / sampled)
			}
			if isRate {
				v /= float64(re-rs) / 1000
			}
			res.Alt = append(res.Alt, v)
		}
	}
	return res
}

// InstantRate computes irate (isRate) or idelta for the window samples.
func InstantRate(w []FS, isRate, useST bool) (v float64, present, ambiguous bool) {
	n := len(w)
	if n < 2 {
		return 0, false, false
	}
	prev, cur := w[n-2], w[n-1]
	if cur.T == prev.T {
		return 0, false, false
	}
	d := cur.F - prev.F
	if isRate {
		reset := cur.F < prev.F
		if useST {
			sr, amb := STReset(prev, cur)
			ambiguous = amb
			reset = reset || sr
		}
		if reset {
			d = cur.F
		}
		d /= float64(cur.T-prev.T) / 1000
	}
	return d, true, ambiguous
}

// CountResets / CountChanges: direct counts over consecutive samples.  ok=false when a NaN takes
// part in a comparison (the documentation does not say how NaN compares).
func CountResets(w []FS, useST bool) (n int, ok bool) {
	ok = true
	for i := 1; i < len(w); i++ {
		if math.IsNaN(w[i].F) || math.IsNaN(w[i-1].F) {
			ok = false
		}
		reset := w[i].F < w[i-1].F
		if useST {
			sr, amb := STReset(w[i-1], w[i])
			if amb {
				ok = false
			}
			reset = reset || sr
		}
		if reset {
			n++
		}
	}
	return n, ok
}

func CountChanges(w []FS) (n int, ok bool) {
	ok = true
	for i := 1; i < len(w); i++ {
		if math.IsNaN(w[i].F) || math.IsNaN(w[i-1].F) {
			ok = false
		}
		if w[i].F != w[i-1].F {
			n++
		}
	}
	return n, ok
}

// CloseRel: |a-b| <= tol*max(|a|,|b|), NaN==NaN, infinities by sign, zeros equal regardless of sign.
func CloseRel(a, b, tol float64) bool {
	if math.IsNaN(a) || math.IsNaN(b) {
		return math.IsNaN(a) && math.IsNaN(b)
	}
	if math.IsInf(a, 0) || math.IsInf(b, 0) {
		return a == b
	}
	if a == b {
		return true
	}
	return math.Abs(a-b) <= tol*math.Max(math.Abs(a), math.Abs(b))
}
