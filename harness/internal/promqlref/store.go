// Package promqlref holds what the PromQL reference checks C28/C29/C30 share: a small in-memory
// dataset model, a loader that puts the dataset into a real tsdb.DB, thin wrappers around the
// real promql.Engine, and reference computations written from docs/querying/*.md and the
// property statements (never from promql/engine.go or promql/functions.go).
package promqlref

import (
	"context"
	"fmt"
	"math"
	"sort"
	"strings"
	"time"

	"github.com/prometheus/prometheus/model/histogram"
	"github.com/prometheus/prometheus/model/labels"
	"github.com/prometheus/prometheus/model/value"
	"github.com/prometheus/prometheus/promql"
	"github.com/prometheus/prometheus/promql/parser"
	"github.com/prometheus/prometheus/storage"
	"github.com/prometheus/prometheus/tsdb"
	"github.com/prometheus/prometheus/tsdb/chunkenc"

	"verif/internal/core"
	"verif/internal/gen"
	"verif/internal/tsdbx"
)

// Smp is one stored sample of the model.  Exactly one of (float), H, FH is meaningful.
type Smp struct {
	T  int64
	ST int64 // start timestamp, 0 = unknown (only stored when the store has ST storage on)
	F  float64
	H  *histogram.Histogram
	FH *histogram.FloatHistogram
}

func (s Smp) IsHist() bool { return s.H != nil || s.FH != nil }

// Stale tells whether the sample is a staleness marker (float or histogram flavour).
func (s Smp) Stale() bool {
	switch {
	case s.H != nil:
		return value.IsStaleNaN(s.H.Sum)
	case s.FH != nil:
		return value.IsStaleNaN(s.FH.Sum)
	}
	return value.IsStaleNaN(s.F)
}

// FloatHist returns the sample's histogram as a float histogram (what PromQL works with).
func (s Smp) FloatHist() *histogram.FloatHistogram {
	if s.FH != nil {
		return s.FH
	}
	if s.H != nil {
		return s.H.ToFloat(nil)
	}
	return nil
}

// Val is the value part as PromQL sees it.
func (s Smp) Val() Val {
	if s.IsHist() {
		return Val{H: s.FloatHist()}
	}
	return Val{F: s.F}
}

func (s Smp) String() string {
	st := ""
	if s.ST != 0 {
		st = fmt.Sprintf("(st=%d)", s.ST)
	}
	switch {
	case s.Stale():
		if s.IsHist() {
			return fmt.Sprintf("%d%s:staleH", s.T, st)
		}
		return fmt.Sprintf("%d%s:stale", s.T, st)
	case s.IsHist():
		return fmt.Sprintf("%d%s:H(count=%g)", s.T, st, s.FloatHist().Count)
	}
	return fmt.Sprintf("%d%s:%v", s.T, st, s.F)
}

// Series is a label set with samples in strictly increasing timestamp order.
type Series struct {
	Labels  labels.Labels
	Samples []Smp
}

type Dataset struct {
	Series []*Series
}

func (d *Dataset) String() string {
	var sb strings.Builder
	for _, s := range d.Series {
		fmt.Fprintf(&sb, "%s:", s.Labels.String())
		for _, x := range s.Samples {
			sb.WriteString(" " + x.String())
		}
		sb.WriteString("\n")
	}
	return sb.String()
}

// Select returns the series matched by all matchers (labels.Matcher is trusted here; matcher
// semantics are the subject of C16/C17, not of these checks).
func (d *Dataset) Select(ms []*labels.Matcher) []*Series {
	var out []*Series
	for _, s := range d.Series {
		ok := true
		for _, m := range ms {
			if !m.Matches(s.Labels.Get(m.Name)) {
				ok = false
				break
			}
		}
		if ok {
			out = append(out, s)
		}
	}
	return out
}

// Store is a dataset loaded into a real TSDB.
type Store struct {
	DB *tsdb.DB
	DS *Dataset
}

type StoreOpts struct {
	// STStorage turns on start-timestamp storage (XOR2 float chunks, ST histogram chunks) and
	// appends through AppenderV2 so that Smp.ST is stored.
	STStorage bool
}

// Load opens a tsdb.DB in a scratch directory of the case, appends the dataset (one commit per
// distinct timestamp so that float/histogram alternation inside a series keeps its order) and
// verifies through a plain Querier that the database holds exactly the dataset.  Any failure
// here is a harness-side error (storage fidelity is the subject of C01/C02, not of the PromQL checks).
func Load(c *core.Case, ds *Dataset, o StoreOpts) *Store {
	opts := tsdb.DefaultOptions()
	opts.RetentionDuration = 0
	opts.MinBlockDuration = int64(24 * time.Hour / time.Millisecond)
	opts.MaxBlockDuration = int64(24 * time.Hour / time.Millisecond)
	opts.NoLockfile = true
	opts.WALSegmentSize = 64 * 1024
	if o.STStorage {
		opts.EnableSTStorage = true
		opts.EnableHistogramSTEncoding = true
		opts.FloatChunkEncoding = chunkenc.EncXOR2
	}
	db, err := tsdb.Open(c.TempDir(), tsdbx.NopLogger(), nil, opts, nil)
	core.Must(err, "tsdb.Open")
	db.DisableCompactions()
	loaded := false
	defer func() {
		if !loaded {
			_ = db.Close() // never leave the background goroutine of a half-loaded DB behind
		}
	}()

	// all timestamps in order
	tset := map[int64]bool{}
	for _, s := range ds.Series {
		for i, x := range s.Samples {
			if i > 0 && x.T <= s.Samples[i-1].T {
				panic(core.HarnessError{Msg: "dataset series not strictly increasing"})
			}
			tset[x.T] = true
		}
	}
	ts := make([]int64, 0, len(tset))
	for t := range tset {
		ts = append(ts, t)
	}
	sort.Slice(ts, func(i, j int) bool { return ts[i] < ts[j] })
	pos := make([]int, len(ds.Series))
	ctx := context.Background()
	for _, t := range ts {
		if o.STStorage {
			app := db.AppenderV2(ctx)
			for si, s := range ds.Series {
				if pos[si] < len(s.Samples) && s.Samples[pos[si]].T == t {
					x := s.Samples[pos[si]]
					pos[si]++
					_, err := app.Append(0, s.Labels, x.ST, x.T, x.F, x.H, x.FH, storage.AppendV2Options{})
					core.Must(err, fmt.Sprintf("AppenderV2.Append %s %s", s.Labels, x))
				}
			}
			core.Must(app.Commit(), "commit")
			continue
		}
		app := db.Appender(ctx)
		for si, s := range ds.Series {
			if pos[si] < len(s.Samples) && s.Samples[pos[si]].T == t {
				x := s.Samples[pos[si]]
				pos[si]++
				var err error
				if x.IsHist() {
					_, err = app.AppendHistogram(0, s.Labels, x.T, x.H, x.FH)
				} else {
					_, err = app.Append(0, s.Labels, x.T, x.F)
				}
				core.Must(err, fmt.Sprintf("Appender.Append %s %s", s.Labels, x))
			}
		}
		core.Must(app.Commit(), "commit")
	}

	// self check
	q, err := db.Querier(math.MinInt64, math.MaxInt64)
	core.Must(err, "db.Querier")
	dump, _, err := tsdbx.DumpQuerier(q)
	q.Close()
	core.Must(err, "dump")
	for _, s := range ds.Series {
		got := dump[s.Labels.String()]
		if len(got) != len(s.Samples) {
			panic(core.HarnessError{Msg: fmt.Sprintf("load self-check: series %s has %d samples in the TSDB, dataset has %d", s.Labels, len(got), len(s.Samples))})
		}
		for i, x := range s.Samples {
			g := got[i]
			ok := g.T == x.T
			switch {
			case !ok:
			case x.Stale():
				gs := Smp{F: g.F, H: g.H, FH: g.FH}
				// the head stores a float staleness marker that follows a histogram as a histogram
				// staleness marker; both are "the series went stale" for PromQL
				ok = gs.Stale()
			case x.H != nil:
				ok = g.Kind == "h" && gen.HistKey(g.H) == gen.HistKey(x.H)
			case x.FH != nil:
				ok = g.Kind == "fh" && gen.FloatHistKey(g.FH) == gen.FloatHistKey(x.FH)
			default:
				ok = g.Kind == "f" && gen.SameFloat(g.F, x.F)
			}
			if !ok {
				panic(core.HarnessError{Msg: fmt.Sprintf("load self-check: series %s sample %d: stored %s, dataset %s", s.Labels, i, g, x)})
			}
		}
	}
	loaded = true
	return &Store{DB: db, DS: ds}
}

func (s *Store) Close() { _ = s.DB.Close() }

// EngineOpts are the knobs the checks vary.
type EngineOpts struct {
	Lookback           time.Duration
	DefaultSubqStepMs  int64
	UseStartTimestamps bool
	ParserOpts         parser.Options
}

// NewEngine builds a real promql.Engine with @ and negative offsets enabled.
func NewEngine(o EngineOpts) *promql.Engine {
	if o.DefaultSubqStepMs == 0 {
		o.DefaultSubqStepMs = 60000
	}
	step := o.DefaultSubqStepMs
	return promql.NewEngine(promql.EngineOpts{
		Logger:                   tsdbx.NopLogger(),
		MaxSamples:               50000000,
		Timeout:                  100 * time.Second,
		LookbackDelta:            o.Lookback,
		NoStepSubqueryIntervalFn: func(int64) int64 { return step },
		EnableAtModifier:         true,
		EnableNegativeOffset:     true,
		UseStartTimestamps:       o.UseStartTimestamps,
		Parser:                   parser.NewParser(o.ParserOpts),
	})
}

// Val is a float or a float histogram.
type Val struct {
	F float64
	H *histogram.FloatHistogram
}

func (v Val) String() string {
	if v.H != nil {
		return "H{" + gen.FloatHistKey(v.H) + "}"
	}
	return fmt.Sprintf("%v(%016x)", v.F, math.Float64bits(v.F))
}

// SameBits: floats bitwise, histograms by canonical (layout-independent, hint-independent) key.
func (v Val) SameBits(w Val) bool {
	if (v.H == nil) != (w.H == nil) {
		return false
	}
	if v.H != nil {
		return gen.FloatHistKey(v.H) == gen.FloatHistKey(w.H)
	}
	return gen.SameFloat(v.F, w.F)
}

// Vec is an instant vector keyed by the label set's String().
type Vec map[string]Val

func (v Vec) String() string {
	ks := make([]string, 0, len(v))
	for k := range v {
		ks = append(ks, k)
	}
	sort.Strings(ks)
	var sb strings.Builder
	sb.WriteString("[")
	for i, k := range ks {
		if i > 0 {
			sb.WriteString("; ")
		}
		fmt.Fprintf(&sb, "%s => %s", k, v[k])
	}
	sb.WriteString("]")
	return sb.String()
}

// Outcome is what the real engine produced for an instant query.
type Outcome struct {
	Err    error
	Vec    Vec      // vector results
	Scalar *float64 // scalar results
	Dup    string   // non-empty when the engine returned the same label set twice
	Order  []string
	Warn   []string
	LS     map[string]labels.Labels // key → label set
}

// Instant runs an instant query at t (ms) on the real engine.
func (s *Store) Instant(eng *promql.Engine, q string, t int64, lookback time.Duration) Outcome {
	ctx := context.Background()
	var qo promql.QueryOpts
	if lookback > 0 {
		qo = promql.NewPrometheusQueryOpts(false, lookback)
	}
	qry, err := eng.NewInstantQuery(ctx, s.DB, qo, q, time.UnixMilli(t))
	if err != nil {
		return Outcome{Err: err}
	}
	defer qry.Close()
	res := qry.Exec(ctx)
	out := Outcome{Err: res.Err}
	for _, w := range res.Warnings.AsErrors() {
		out.Warn = append(out.Warn, w.Error())
	}
	if res.Err != nil {
		return out
	}
	switch v := res.Value.(type) {
	case promql.Vector:
		out.Vec = Vec{}
		out.LS = map[string]labels.Labels{}
		for _, smp := range v {
			k := smp.Metric.String()
			out.LS[k] = smp.Metric
			if _, dup := out.Vec[k]; dup {
				out.Dup = k
			}
			if smp.T != t {
				out.Dup = fmt.Sprintf("%s has result timestamp %d, query time %d", k, smp.T, t)
			}
			val := Val{F: smp.F}
			if smp.H != nil {
				val = Val{H: smp.H.Copy()}
			}
			out.Vec[k] = val
			out.Order = append(out.Order, k)
		}
	case promql.Scalar:
		f := v.V
		out.Scalar = &f
	default:
		out.Err = fmt.Errorf("harness: unexpected result type %T", res.Value)
	}
	return out
}

// RangeOutcome is what the real engine produced for a range query: step time → vector.
type RangeOutcome struct {
	Err   error
	Steps map[int64]Vec
	Bad   string // structural problem (duplicate series, point off the step grid, unordered points)
	LS    map[string]labels.Labels
}

// Range runs a range query on the real engine.
func (s *Store) Range(eng *promql.Engine, q string, start, end, step int64, lookback time.Duration) RangeOutcome {
	ctx := context.Background()
	var qo promql.QueryOpts
	if lookback > 0 {
		qo = promql.NewPrometheusQueryOpts(false, lookback)
	}
	qry, err := eng.NewRangeQuery(ctx, s.DB, qo, q, time.UnixMilli(start), time.UnixMilli(end), time.Duration(step)*time.Millisecond)
	if err != nil {
		return RangeOutcome{Err: err}
	}
	defer qry.Close()
	res := qry.Exec(ctx)
	out := RangeOutcome{Err: res.Err, Steps: map[int64]Vec{}, LS: map[string]labels.Labels{}}
	if res.Err != nil {
		return out
	}
	m, ok := res.Value.(promql.Matrix)
	if !ok {
		out.Err = fmt.Errorf("harness: unexpected range result type %T", res.Value)
		return out
	}
	put := func(k string, t int64, v Val) {
		if t < start || t > end || (t-start)%step != 0 {
			out.Bad = fmt.Sprintf("series %s has a point at %d which is not on the step grid %d+k*%d..%d", k, t, start, step, end)
		}
		if out.Steps[t] == nil {
			out.Steps[t] = Vec{}
		}
		if _, dup := out.Steps[t][k]; dup {
			out.Bad = fmt.Sprintf("series %s has two points at %d", k, t)
		}
		out.Steps[t][k] = v
	}
	seen := map[string]bool{}
	for _, ser := range m {
		k := ser.Metric.String()
		if seen[k] {
			out.Bad = fmt.Sprintf("series %s returned twice", k)
		}
		seen[k] = true
		out.LS[k] = ser.Metric
		for i, p := range ser.Floats {
			if i > 0 && p.T <= ser.Floats[i-1].T {
				out.Bad = fmt.Sprintf("series %s float points not increasing", k)
			}
			put(k, p.T, Val{F: p.F})
		}
		for i, p := range ser.Histograms {
			if i > 0 && p.T <= ser.Histograms[i-1].T {
				out.Bad = fmt.Sprintf("series %s histogram points not increasing", k)
			}
			put(k, p.T, Val{H: p.H.Copy()})
		}
	}
	return out
}

// DropName returns the label set without the metric name.
func DropName(ls labels.Labels) labels.Labels {
	return labels.NewBuilder(ls).Del(labels.MetricName).Labels()
}

// Dur renders a millisecond duration for PromQL (e.g. 1500 → "1500ms", -20 → "-20ms").
func Dur(ms int64) string {
	if ms%1000 == 0 && ms != 0 {
		return fmt.Sprintf("%ds", ms/1000)
	}
	return fmt.Sprintf("%dms", ms)
}

// AtSec renders a millisecond timestamp as the float-seconds literal of the @ modifier.
func AtSec(ms int64) string {
	neg := ms < 0
	if neg {
		ms = -ms
	}
	s := fmt.Sprintf("%d.%03d", ms/1000, ms%1000)
	if neg {
		s = "-" + s
	}
	return s
}
