package promqlref

import (
	"fmt"
	"math"
	"sort"
	"strconv"
	"strings"

	"github.com/prometheus/prometheus/model/labels"
)

// Reference evaluator for aggregations and binary operators on float instant vectors, written
// from docs/querying/operators.md and the statement of property C29.  Wherever the documentation
// leaves an outcome open the evaluator records the alternatives (AltL/AltV/Bracket/AnyV) or
// declares the whole result unspecified (Res.Unspec) instead of picking one.

// ---------------------------------------------------------------- AST

type Node interface {
	String() string
	IsScalar() bool
}

type Sel struct {
	Text string
	Ms   []*labels.Matcher
}

type Num struct{ V float64 }

type Neg struct{ X Node }

type Agg struct {
	Op          string // sum avg min max count group stddev stdvar quantile topk bottomk limitk count_values
	HasClause   bool
	Without     bool
	Grouping    []string
	Param       float64 // k or φ
	ParamStr    string  // count_values label
	Arg         Node
	ClauseAfter bool
}

type Bin struct {
	Op      string // + - * / % ^ atan2 == != > < >= <= and or unless
	Bool    bool
	HasOn   bool // on(...) given
	HasIgn  bool // ignoring(...) given
	MLabels []string
	Group   string   // "", "left", "right"
	Include []string // labels of group_left/right(...)
	HasIncl bool
	FillL   *float64 // fill value for a missing left side
	FillR   *float64
	FillOne bool // rendered as fill(v) (FillL==FillR)
	L, R    Node
}

func (s *Sel) IsScalar() bool { return false }
func (n *Num) IsScalar() bool { return true }
func (n *Neg) IsScalar() bool { return n.X.IsScalar() }
func (a *Agg) IsScalar() bool { return false }
func (b *Bin) IsScalar() bool { return b.L.IsScalar() && b.R.IsScalar() }

func (s *Sel) String() string { return s.Text }

func FmtNum(v float64) string {
	switch {
	case math.IsNaN(v):
		return "NaN"
	case math.IsInf(v, 1):
		return "Inf"
	case math.IsInf(v, -1):
		return "-Inf"
	}
	return strconv.FormatFloat(v, 'g', -1, 64)
}

func (n *Num) String() string {
	s := FmtNum(n.V)
	if strings.HasPrefix(s, "-") {
		return "(" + s + ")"
	}
	return s
}

func (n *Neg) String() string { return "-(" + n.X.String() + ")" }

func (a *Agg) String() string {
	clause := ""
	if a.HasClause {
		kw := "by"
		if a.Without {
			kw = "without"
		}
		clause = fmt.Sprintf(" %s (%s) ", kw, strings.Join(a.Grouping, ", "))
	}
	param := ""
	switch a.Op {
	case "topk", "bottomk", "limitk", "quantile":
		param = FmtNum(a.Param) + ", "
	case "count_values":
		param = strconv.Quote(a.ParamStr) + ", "
	}
	if a.ClauseAfter {
		return fmt.Sprintf("%s(%s%s)%s", a.Op, param, a.Arg.String(), strings.TrimRight(clause, " "))
	}
	return fmt.Sprintf("%s%s(%s%s)", a.Op, clause, param, a.Arg.String())
}

func operand(n Node) string {
	switch n.(type) {
	case *Bin, *Neg:
		return "(" + n.String() + ")"
	}
	return n.String()
}

func (b *Bin) String() string {
	var sb strings.Builder
	sb.WriteString(operand(b.L))
	sb.WriteString(" " + b.Op)
	if b.Bool {
		sb.WriteString(" bool")
	}
	if b.HasOn {
		sb.WriteString(" on (" + strings.Join(b.MLabels, ", ") + ")")
	} else if b.HasIgn {
		sb.WriteString(" ignoring (" + strings.Join(b.MLabels, ", ") + ")")
	}
	if b.Group != "" {
		// the label list is always rendered: "group_left (expr)" would read the operand as the list
		sb.WriteString(" group_" + b.Group + " (" + strings.Join(b.Include, ", ") + ")")
	}
	switch {
	case b.FillOne && b.FillL != nil:
		sb.WriteString(" fill(" + FmtNum(*b.FillL) + ")")
	default:
		if b.FillL != nil {
			sb.WriteString(" fill_left(" + FmtNum(*b.FillL) + ")")
		}
		if b.FillR != nil {
			sb.WriteString(" fill_right(" + FmtNum(*b.FillR) + ")")
		}
	}
	sb.WriteString(" " + operand(b.R))
	return sb.String()
}

// ---------------------------------------------------------------- results

// Elem is one expected vector element.
type Elem struct {
	L labels.Labels
	V float64
	// acceptable alternatives (documentation silent); L/V are always acceptable too
	AltL []labels.Labels
	AltV []float64
	// Approx: |got-V| <= Tol (absolute); used for sums/averages/deviations
	Approx bool
	Tol    float64
	// Bracket: Lo <= got <= Hi (NaN accepted when NaNOK); used for quantile
	Bracket bool
	Lo, Hi  float64
	NaNOK   bool
	// AnyV: the value is not determined by the documentation
	AnyV bool
	// KnownAltL: label sets that contradict the documentation but are a recorded known finding
	// (KnownKind names it); matching one of them is reported separately, not as a fresh violation.
	KnownAltL []labels.Labels
	KnownKind string
	// NaNKnownKind: a NaN result (not acceptable by the documentation) that is a recorded known finding.
	NaNKnownKind string
}

func (e Elem) exact() bool {
	return !e.Approx && !e.Bracket && !e.AnyV && len(e.AltL) == 0 && len(e.AltV) == 0 && len(e.KnownAltL) == 0
}

// Res is the reference outcome of an expression.
type Res struct {
	Scalar bool
	Elems  []Elem
	Err    string // an error is required (text names the reason)
	// ErrKnownKind: the required error only arises in the documented reading of a point where the
	// engine is known to deviate (recorded known finding); a successful query is then reported under that kind.
	ErrKnownKind string
	Unspec       string // the documentation does not determine the outcome (no comparison possible)
	// Validate, when set, replaces the element-wise comparison (choice-based operators).
	Validate func(got []Got) string
	// Ordered: the documented result order for instant queries (topk/bottomk); checked by Validate/CompareOrder.
	OrderCheck func(got []Got) string
}

// Got is one element returned by the real engine.
type Got struct {
	L labels.Labels
	V float64
}

func SameVal(a, b float64) bool {
	if math.IsNaN(a) || math.IsNaN(b) {
		return math.IsNaN(a) && math.IsNaN(b)
	}
	return a == b
}

// Accepts tells whether the element accepts the observed value.
func (e Elem) Accepts(v float64) bool {
	if e.AnyV {
		return true
	}
	if e.Bracket {
		if math.IsNaN(v) {
			return e.NaNOK
		}
		return v >= e.Lo && v <= e.Hi
	}
	if e.Approx {
		if SameVal(e.V, v) {
			return true
		}
		if math.IsNaN(v) || math.IsNaN(e.V) || math.IsInf(v, 0) || math.IsInf(e.V, 0) {
			return false
		}
		return math.Abs(v-e.V) <= e.Tol
	}
	if SameVal(e.V, v) {
		return true
	}
	for _, a := range e.AltV {
		if SameVal(a, v) {
			return true
		}
	}
	return false
}

// Compare checks the engine's elements against the reference.  "" = agreement.  known lists
// the kinds of recorded known findings that explain deviations which were tolerated.
func (r Res) Compare(got []Got) (msg string, known []string) {
	if r.Validate != nil {
		return r.Validate(got), nil
	}
	idx := map[string]int{}
	knownIdx := map[string]bool{}
	for i, e := range r.Elems {
		all := append([]labels.Labels{e.L}, e.AltL...)
		for n, l := range append(all, e.KnownAltL...) {
			k := l.String()
			if j, dup := idx[k]; dup && j != i {
				return "", nil // alternatives of different elements collide: undetermined, do not judge
			}
			idx[k] = i
			if n >= len(all) {
				knownIdx[k] = true
			}
		}
	}
	used := map[int]bool{}
	for _, g := range got {
		i, ok := idx[g.L.String()]
		if ok && knownIdx[g.L.String()] {
			known = append(known, r.Elems[i].KnownKind)
		}
		if ok && math.IsNaN(g.V) && r.Elems[i].NaNKnownKind != "" && !r.Elems[i].Accepts(g.V) {
			known = append(known, r.Elems[i].NaNKnownKind)
			used[i] = true
			continue
		}
		if !ok {
			return fmt.Sprintf("labels: unexpected element %s => %v; reference %s", g.L, g.V, r), known
		}
		if used[i] {
			return fmt.Sprintf("labels: element %s returned twice (or two alternatives of one element)", g.L), known
		}
		used[i] = true
		if !r.Elems[i].Accepts(g.V) {
			return fmt.Sprintf("value: element %s => %v(%016x), reference %s", g.L, g.V, math.Float64bits(g.V), r.Elems[i]), known
		}
	}
	for i, e := range r.Elems {
		if !used[i] {
			return fmt.Sprintf("labels: missing element %s; reference %s", e.L, r), known
		}
	}
	return "", known
}

func (e Elem) String() string {
	s := fmt.Sprintf("%s => %v", e.L, e.V)
	switch {
	case e.AnyV:
		s = fmt.Sprintf("%s => any", e.L)
	case e.Bracket:
		s = fmt.Sprintf("%s => [%v,%v] nanok=%v", e.L, e.Lo, e.Hi, e.NaNOK)
	case e.Approx:
		s += fmt.Sprintf(" ±%g", e.Tol)
	}
	if len(e.AltV) > 0 {
		s += fmt.Sprintf(" or %v", e.AltV)
	}
	if len(e.AltL) > 0 {
		s += fmt.Sprintf(" (or labels %v)", e.AltL)
	}
	return s
}

func (r Res) String() string {
	switch {
	case r.Err != "":
		return "error(" + r.Err + ")"
	case r.Unspec != "":
		return "unspecified(" + r.Unspec + ")"
	}
	parts := make([]string, len(r.Elems))
	for i, e := range r.Elems {
		parts[i] = e.String()
	}
	sort.Strings(parts)
	pre := ""
	if r.Scalar {
		pre = "scalar "
	}
	return pre + "[" + strings.Join(parts, "; ") + "]"
}

// ---------------------------------------------------------------- evaluation

// Input resolves a selector to the instant vector (exact float elements, full labels).
type Input func(ms []*labels.Matcher) []Elem

func allExact(es []Elem) bool {
	for _, e := range es {
		if !e.exact() {
			return false
		}
	}
	return true
}

func dupLabels(es []Elem) (string, bool) {
	seen := map[string]bool{}
	for _, e := range es {
		k := e.L.String()
		if seen[k] {
			return k, true
		}
		seen[k] = true
	}
	return "", false
}

func without(ls labels.Labels, names ...string) labels.Labels {
	return labels.NewBuilder(ls).Del(names...).Labels()
}

func only(ls labels.Labels, names []string) labels.Labels {
	b := labels.NewBuilder(labels.EmptyLabels())
	for _, n := range names {
		if v := ls.Get(n); v != "" {
			b.Set(n, v)
		}
	}
	return b.Labels()
}

func Eval(n Node, in Input) Res {
	switch x := n.(type) {
	case *Sel:
		return Res{Elems: in(x.Ms)}
	case *Num:
		return Res{Scalar: true, Elems: []Elem{{L: labels.EmptyLabels(), V: x.V}}}
	case *Neg:
		r := Eval(x.X, in)
		if r.Err != "" || r.Unspec != "" {
			return r
		}
		if r.Validate != nil || !allExact(r.Elems) {
			return Res{Unspec: "operand of unary minus is not exactly determined"}
		}
		out := Res{Scalar: r.Scalar}
		for _, e := range r.Elems {
			ne := Elem{L: e.L, V: -e.V}
			if !r.Scalar && e.L.Get(labels.MetricName) != "" {
				// whether unary minus keeps the metric name is not documented
				ne.L = DropName(e.L)
				ne.AltL = []labels.Labels{e.L}
			}
			out.Elems = append(out.Elems, ne)
		}
		if k, dup := dupLabels(out.Elems); dup {
			return Res{Err: "duplicate label set after dropping the metric name: " + k}
		}
		return out
	case *Agg:
		return evalAgg(x, in)
	case *Bin:
		return evalBin(x, in)
	}
	panic("unknown node")
}

// ---------------------------------------------------------------- aggregation

type group struct {
	key   string
	lbls  labels.Labels
	elems []Elem
}

func (a *Agg) groupLabels(ls labels.Labels) labels.Labels {
	if a.HasClause && a.Without {
		return without(ls, append([]string{labels.MetricName}, a.Grouping...)...)
	}
	return only(ls, a.Grouping) // no clause = by ()
}

func evalAgg(a *Agg, in Input) Res {
	arg := Eval(a.Arg, in)
	if arg.Err != "" || arg.Unspec != "" {
		return arg
	}
	if arg.Validate != nil || !allExact(arg.Elems) {
		return Res{Unspec: "aggregation over values that are not exactly determined"}
	}
	var groups []*group
	byKey := map[string]*group{}
	for _, e := range arg.Elems {
		gl := a.groupLabels(e.L)
		k := gl.String()
		g := byKey[k]
		if g == nil {
			g = &group{key: k, lbls: gl}
			byKey[k] = g
			groups = append(groups, g)
		}
		g.elems = append(g.elems, e)
	}
	switch a.Op {
	case "topk", "bottomk":
		return evalTopK(a, groups)
	case "limitk":
		return evalLimitK(a, groups)
	case "count_values":
		return evalCountValues(a, groups)
	}
	var out Res
	for _, g := range groups {
		vals := make([]float64, len(g.elems))
		for i, e := range g.elems {
			vals[i] = e.V
		}
		e := Elem{L: g.lbls}
		n := float64(len(vals))
		switch a.Op {
		case "count":
			e.V = n
		case "group":
			e.V = 1
		case "min", "max":
			// IEEE comparison; NaN only if all values are NaN
			res := math.NaN()
			for _, v := range vals {
				if math.IsNaN(v) {
					continue
				}
				if math.IsNaN(res) || (a.Op == "min" && v < res) || (a.Op == "max" && v > res) {
					res = v
				}
			}
			e.V = res
		case "sum", "avg":
			s, sumAbs := 0.0, 0.0
			for _, v := range vals {
				s += v
				sumAbs += math.Abs(v)
			}
			hasNaN, posInf, negInf := false, false, false
			for _, v := range vals {
				hasNaN = hasNaN || math.IsNaN(v)
				posInf = posInf || math.IsInf(v, 1)
				negInf = negInf || math.IsInf(v, -1)
			}
			switch {
			case hasNaN || (posInf && negInf):
				e.V = math.NaN()
			case posInf:
				e.V = math.Inf(1)
			case negInf:
				e.V = math.Inf(-1)
			case math.IsInf(sumAbs, 0) || sumAbs > math.MaxFloat64/4:
				e.AnyV = true // partial sums may overflow depending on the order of summation
			default:
				e.Approx = true
				e.V = s
				e.Tol = 1e-12 * sumAbs
				if a.Op == "avg" {
					e.V = s / n
					e.Tol = 1e-12*sumAbs/n + 1e-320 // plus a few denormal steps for the division
				}
				if e.Tol == 0 {
					e.Approx = false // all zeros: exact
				}
			}
		case "stddev", "stdvar":
			finite := true
			sq := 0.0
			mean := 0.0
			for _, v := range vals {
				if math.IsNaN(v) || math.IsInf(v, 0) {
					finite = false
				}
				mean += v / n
				sq += v * v / n
			}
			if !finite || math.IsInf(sq, 0) || math.IsInf(mean*mean, 0) {
				e.AnyV = true // IEEE arithmetic on non-finite input / overflow: formula dependent
				break
			}
			varc := 0.0
			for _, v := range vals {
				varc += (v - mean) * (v - mean) / n
			}
			scale := sq + mean*mean
			// tolerance of the variance: relative to the second moment, plus a few denormal steps
			tv := 1e-10*scale + 1e-318
			e.Approx = true
			if a.Op == "stdvar" {
				e.V = varc
				e.Tol = tv
			} else {
				// the deviation must lie in the square root of the variance interval
				e.V = math.Sqrt(varc)
				e.Tol = math.Max(math.Sqrt(varc+tv)-e.V, e.V-math.Sqrt(math.Max(varc-tv, 0))) + 1e-12*e.V
			}
			if scale == 0 {
				e.Approx = false
				e.V = 0
			}
		case "quantile":
			e = quantileElem(g.lbls, a.Param, vals)
		}
		out.Elems = append(out.Elems, e)
	}
	return out
}

// Kinds of known findings the evaluator can attribute a deviation to.
const (
	KindOnGroupLeftKeepsName = "filter-comparison-on-group-left-keeps-metric-name"
	KindQuantileNaNNextToInf = "quantile-nan-with-infinite-input"
)

// quantileElem: "the value that ranks at number φ*N among the N metric values"; NaN is the smallest
// value; φ<0 → -Inf, φ>1 → +Inf, φ=NaN → NaN.  The interpolation rule between neighbouring ranks is
// not documented, so the reference only brackets the result between the order statistics that
// every common quantile definition uses: 1-based ranks floor(φN) .. ceil(φN)+1 (clamped to 1..N).
func quantileElem(l labels.Labels, phi float64, vals []float64) Elem {
	e := Elem{L: l}
	n := len(vals)
	switch {
	case math.IsNaN(phi):
		e.V = math.NaN()
		return e
	case phi < 0:
		e.V = math.Inf(-1)
		return e
	case phi > 1:
		e.V = math.Inf(1)
		return e
	}
	s := append([]float64(nil), vals...)
	sort.Slice(s, func(i, j int) bool {
		if math.IsNaN(s[i]) {
			return !math.IsNaN(s[j])
		}
		if math.IsNaN(s[j]) {
			return false
		}
		return s[i] < s[j]
	})
	lo := int(math.Floor(phi * float64(n)))
	hi := int(math.Ceil(phi*float64(n))) + 1
	lo = min(max(lo, 1), n)
	hi = min(max(hi, 1), n)
	e.Bracket = true
	e.Lo, e.Hi = s[lo-1], s[hi-1]
	if math.IsNaN(e.Lo) && math.IsNaN(e.Hi) {
		return Elem{L: l, V: math.NaN()} // every candidate is NaN
	}
	if math.IsNaN(e.Lo) {
		e.NaNOK = true
		e.Lo = math.Inf(-1)
	}
	if math.IsNaN(e.Hi) { // all candidates are NaN
		e.NaNOK = true
		e.Hi = math.Inf(1)
	}
	if math.IsInf(e.Lo, -1) && math.IsInf(e.Hi, 1) {
		e.NaNOK = true // a value between -Inf and +Inf is undefined
	}
	if !e.NaNOK {
		for _, v := range vals {
			if math.IsInf(v, 0) {
				e.NaNKnownKind = KindQuantileNaNNextToInf
			}
		}
	}
	// widen by rounding slack of an interpolation
	if !math.IsInf(e.Lo, 0) && !math.IsInf(e.Hi, 0) {
		slack := 1e-12 * math.Max(math.Abs(e.Lo), math.Abs(e.Hi))
		e.Lo -= slack
		e.Hi += slack
	}
	return e
}

// better reports whether a ranks strictly before b for topk (largest first) / bottomk (smallest
// first); NaN is farthest from the top and from the bottom.
func better(op string, a, b float64) bool {
	switch {
	case math.IsNaN(a):
		return false
	case math.IsNaN(b):
		return true
	}
	if op == "topk" {
		return a > b
	}
	return a < b
}

func kOf(p float64) (int, bool) {
	if math.IsNaN(p) || math.IsInf(p, 0) || p != math.Trunc(p) || math.Abs(p) > 1e15 {
		return 0, false
	}
	return int(p), true
}

func evalTopK(a *Agg, groups []*group) Res {
	k, ok := kOf(a.Param)
	if !ok {
		return Res{Unspec: "k is not an integer"}
	}
	var out Res
	unique := true
	type bucket struct {
		g    *group
		want int
	}
	var buckets []bucket
	for _, g := range groups {
		want := min(max(k, 0), len(g.elems))
		buckets = append(buckets, bucket{g, want})
		s := append([]Elem(nil), g.elems...)
		sort.SliceStable(s, func(i, j int) bool { return better(a.Op, s[i].V, s[j].V) })
		if want > 0 && want < len(s) && !better(a.Op, s[want-1].V, s[want].V) {
			unique = false // tie at the cut: any of the tied elements may be chosen
		}
		out.Elems = append(out.Elems, s[:want]...)
	}
	op := a.Op
	validate := func(got []Got) string {
		byGroup := map[string][]Got{}
		for _, x := range got {
			byGroup[a.groupLabels(x.L).String()] = append(byGroup[a.groupLabels(x.L).String()], x)
		}
		for _, b := range buckets {
			gs := byGroup[b.g.key]
			delete(byGroup, b.g.key)
			if len(gs) != b.want {
				return fmt.Sprintf("count: bucket %s has %d elements in the result, expected min(k,n)=%d", b.g.lbls, len(gs), b.want)
			}
			chosen := map[string]bool{}
			for _, x := range gs {
				found := false
				for _, e := range b.g.elems {
					if e.L.String() == x.L.String() {
						found = true
						if !SameVal(e.V, x.V) {
							return fmt.Sprintf("value: %s returned with %v, input value %v", x.L, x.V, e.V)
						}
					}
				}
				if !found {
					return fmt.Sprintf("labels: %s is not an input element of bucket %s", x.L, b.g.lbls)
				}
				if chosen[x.L.String()] {
					return fmt.Sprintf("labels: %s returned twice", x.L)
				}
				chosen[x.L.String()] = true
			}
			for _, e := range b.g.elems {
				if chosen[e.L.String()] {
					continue
				}
				for _, x := range gs {
					if better(op, e.V, x.V) {
						return fmt.Sprintf("selection: %s=%v was left out although it ranks before the selected %s=%v (%s)", e.L, e.V, x.L, x.V, op)
					}
				}
			}
		}
		for k := range byGroup {
			return "labels: result has elements of a bucket that has no input: " + k
		}
		return ""
	}
	out.OrderCheck = func(got []Got) string {
		// buckets consecutive, sorted by value inside (NaN last)
		seenDone := map[string]bool{}
		cur := ""
		for i, x := range got {
			k := a.groupLabels(x.L).String()
			if i == 0 || k != cur {
				if seenDone[k] {
					return fmt.Sprintf("order: elements of bucket %s are not consecutive", k)
				}
				if i > 0 {
					seenDone[cur] = true
				}
				cur = k
				continue
			}
			if better(op, x.V, got[i-1].V) {
				return fmt.Sprintf("order: %v comes after %v inside bucket %s (%s)", x.V, got[i-1].V, k, op)
			}
		}
		return ""
	}
	if !unique {
		out.Validate = validate
	}
	return out
}

func evalLimitK(a *Agg, groups []*group) Res {
	k, ok := kOf(a.Param)
	if !ok {
		return Res{Unspec: "k is not an integer"}
	}
	var out Res
	determined := true
	for _, g := range groups {
		if k > 0 && k < len(g.elems) {
			determined = false
		}
		if k >= len(g.elems) {
			out.Elems = append(out.Elems, g.elems...)
		}
	}
	if determined {
		return out
	}
	out.Validate = func(got []Got) string {
		byGroup := map[string][]Got{}
		for _, x := range got {
			byGroup[a.groupLabels(x.L).String()] = append(byGroup[a.groupLabels(x.L).String()], x)
		}
		for _, g := range groups {
			gs := byGroup[g.key]
			delete(byGroup, g.key)
			want := min(max(k, 0), len(g.elems))
			if len(gs) != want {
				return fmt.Sprintf("count: bucket %s has %d elements in the result, expected min(k,n)=%d", g.lbls, len(gs), want)
			}
			seen := map[string]bool{}
			for _, x := range gs {
				found := false
				for _, e := range g.elems {
					if e.L.String() == x.L.String() {
						found = true
						if !SameVal(e.V, x.V) {
							return fmt.Sprintf("value: %s returned with %v, input value %v", x.L, x.V, e.V)
						}
					}
				}
				if !found || seen[x.L.String()] {
					return fmt.Sprintf("labels: %s is not a (distinct) input element of bucket %s", x.L, g.lbls)
				}
				seen[x.L.String()] = true
			}
		}
		for k := range byGroup {
			return "labels: result has elements of a bucket that has no input: " + k
		}
		return ""
	}
	return out
}

func evalCountValues(a *Agg, groups []*group) Res {
	// one series per group and unique value; label a.ParamStr = the value (textual form not
	// documented: any text that parses back to the value is accepted)
	type cls struct {
		v float64
		n int
	}
	perGroup := map[string][]*cls{}
	if a.HasClause && a.Without {
		for _, l := range a.Grouping {
			if l == a.ParamStr {
				return Res{Unspec: "count_values label is also listed in without(...): the documentation does not say which wins"}
			}
		}
	}
	for _, g := range groups {
		if g.lbls.Get(a.ParamStr) != "" {
			return Res{Unspec: "count_values label collides with a grouping label"}
		}
		hasPosZero, hasNegZero := false, false
		for _, e := range g.elems {
			if e.V == 0 {
				if math.Signbit(e.V) {
					hasNegZero = true
				} else {
					hasPosZero = true
				}
			}
			found := false
			for _, c := range perGroup[g.key] {
				if SameVal(c.v, e.V) {
					c.n++
					found = true
				}
			}
			if !found {
				perGroup[g.key] = append(perGroup[g.key], &cls{e.V, 1})
			}
		}
		if hasPosZero && hasNegZero {
			return Res{Unspec: "count_values over +0 and -0 (sameness of the two zeros is not documented)"}
		}
	}
	var out Res
	for _, g := range groups {
		for _, c := range perGroup[g.key] {
			out.Elems = append(out.Elems, Elem{L: labels.NewBuilder(g.lbls).Set(a.ParamStr, FmtNum(c.v)).Labels(), V: float64(c.n)})
		}
	}
	out.Validate = func(got []Got) string {
		used := map[*cls]bool{}
		for _, x := range got {
			txt := x.L.Get(a.ParamStr)
			if txt == "" {
				return fmt.Sprintf("labels: element %s lacks the value label %q", x.L, a.ParamStr)
			}
			pv, err := strconv.ParseFloat(txt, 64)
			if err != nil {
				return fmt.Sprintf("labels: value label %q of %s does not parse as a number", txt, x.L)
			}
			gk := without(x.L, a.ParamStr).String()
			var hit *cls
			for _, c := range perGroup[gk] {
				if SameVal(c.v, pv) {
					hit = c
				}
			}
			if hit == nil {
				return fmt.Sprintf("labels: element %s: group %s has no input with value %v", x.L, gk, pv)
			}
			if used[hit] {
				return fmt.Sprintf("labels: value %v of group %s reported twice", pv, gk)
			}
			used[hit] = true
			if x.V != float64(hit.n) {
				return fmt.Sprintf("count: element %s => %v, but %d inputs of the group have that value", x.L, x.V, hit.n)
			}
		}
		for gk, cs := range perGroup {
			for _, c := range cs {
				if !used[c] {
					return fmt.Sprintf("labels: missing element for value %v of group %s", c.v, gk)
				}
			}
		}
		return ""
	}
	return out
}

// ---------------------------------------------------------------- binary operators

func isCmp(op string) bool {
	switch op {
	case "==", "!=", ">", "<", ">=", "<=":
		return true
	}
	return false
}

func isSet(op string) bool { return op == "and" || op == "or" || op == "unless" }

func arith(op string, a, b float64) float64 {
	switch op {
	case "+":
		return a + b
	case "-":
		return a - b
	case "*":
		return a * b
	case "/":
		return a / b
	case "%":
		return math.Mod(a, b)
	case "^":
		return math.Pow(a, b)
	case "atan2":
		return math.Atan2(a, b)
	}
	panic("arith " + op)
}

func cmp(op string, a, b float64) bool {
	switch op {
	case "==":
		return a == b
	case "!=":
		return a != b
	case ">":
		return a > b
	case "<":
		return a < b
	case ">=":
		return a >= b
	case "<=":
		return a <= b
	}
	panic("cmp " + op)
}

func b2f(b bool) float64 {
	if b {
		return 1
	}
	return 0
}

func (b *Bin) matchKey(ls labels.Labels) string {
	if b.HasOn {
		return only(ls, b.MLabels).String()
	}
	return without(ls, append([]string{labels.MetricName}, b.MLabels...)...).String()
}

func evalBin(b *Bin, in Input) Res {
	l := Eval(b.L, in)
	if l.Err != "" || l.Unspec != "" {
		return l
	}
	r := Eval(b.R, in)
	if r.Err != "" || r.Unspec != "" {
		return r
	}
	if l.Validate != nil || r.Validate != nil || !allExact(l.Elems) || !allExact(r.Elems) {
		return Res{Unspec: "operand of a binary operator is not exactly determined"}
	}
	switch {
	case l.Scalar && r.Scalar:
		lv, rv := l.Elems[0].V, r.Elems[0].V
		if isCmp(b.Op) {
			return Res{Scalar: true, Elems: []Elem{{L: labels.EmptyLabels(), V: b2f(cmp(b.Op, lv, rv))}}}
		}
		return Res{Scalar: true, Elems: []Elem{{L: labels.EmptyLabels(), V: arith(b.Op, lv, rv)}}}
	case l.Scalar || r.Scalar:
		var vec []Elem
		var sc float64
		if l.Scalar {
			vec, sc = r.Elems, l.Elems[0].V
		} else {
			vec, sc = l.Elems, r.Elems[0].V
		}
		var out Res
		for _, e := range vec {
			lv, rv := e.V, sc
			if l.Scalar {
				lv, rv = sc, e.V
			}
			switch {
			case isCmp(b.Op) && b.Bool:
				out.Elems = append(out.Elems, Elem{L: DropName(e.L), V: b2f(cmp(b.Op, lv, rv))})
			case isCmp(b.Op):
				if cmp(b.Op, lv, rv) {
					out.Elems = append(out.Elems, Elem{L: e.L, V: e.V})
				}
			default:
				out.Elems = append(out.Elems, Elem{L: DropName(e.L), V: arith(b.Op, lv, rv)})
			}
		}
		if k, dup := dupLabels(out.Elems); dup {
			return Res{Err: "duplicate label set after dropping the metric name: " + k}
		}
		return out
	}
	if isSet(b.Op) {
		return evalSet(b, l.Elems, r.Elems)
	}
	return evalVecVec(b, l.Elems, r.Elems)
}

func evalSet(b *Bin, l, r []Elem) Res {
	lk, rk := map[string]bool{}, map[string]bool{}
	for _, e := range l {
		lk[b.matchKey(e.L)] = true
	}
	for _, e := range r {
		rk[b.matchKey(e.L)] = true
	}
	var out Res
	switch b.Op {
	case "and":
		for _, e := range l {
			if rk[b.matchKey(e.L)] {
				out.Elems = append(out.Elems, e)
			}
		}
	case "unless":
		for _, e := range l {
			if !rk[b.matchKey(e.L)] {
				out.Elems = append(out.Elems, e)
			}
		}
	case "or":
		out.Elems = append(out.Elems, l...)
		for _, e := range r {
			if !lk[b.matchKey(e.L)] {
				out.Elems = append(out.Elems, e)
			}
		}
	}
	if k, dup := dupLabels(out.Elems); dup {
		return Res{Unspec: "set operator result contains the label set " + k + " twice"}
	}
	return out
}

// resultLabels computes the output label set of a matched pair for arithmetic/comparison
// operators.  src is the element that provides the labels (the left element for one-to-one, the
// "many" element for group modifiers), one is the element of the "one" side (nil when filled).
func (b *Bin) resultLabels(src Elem, one *Elem, srcIsLeft bool) (labels.Labels, []labels.Labels, []labels.Labels) {
	// metric name: dropped by arithmetic and by bool comparisons; a filtering comparison retains the
	// name of the left side, except that `on` drops it and `group_right` retains the right side's.
	dropName, nameOptional := true, false
	if isCmp(b.Op) && !b.Bool {
		dropName = false
		if b.HasOn {
			dropName = true
			if b.Group == "right" {
				dropName, nameOptional = false, true // the two documented exceptions contradict each other
			}
		}
		if b.Group == "" && !srcIsLeft {
			nameOptional = true // labels come from the right element because the left side was filled in
		}
	}
	var base labels.Labels
	switch {
	case b.Group != "":
		base = DropName(src.L)
	case b.HasOn:
		base = DropName(only(src.L, b.MLabels))
	default:
		base = without(src.L, append([]string{labels.MetricName}, b.MLabels...)...)
	}
	alts := []labels.Labels{base}
	if b.Group != "" {
		for _, il := range b.Include {
			var next []labels.Labels
			for _, a := range alts {
				switch {
				case one != nil && one.L.Get(il) != "":
					next = append(next, labels.NewBuilder(a).Set(il, one.L.Get(il)).Labels())
				case a.Get(il) != "":
					// the "one" side has no such label but the "many" side does: keep or remove – not documented
					next = append(next, a, labels.NewBuilder(a).Del(il).Labels())
				default:
					next = append(next, a)
				}
			}
			alts = next
		}
	}
	name := src.L.Get(labels.MetricName)
	var knownAlts []labels.Labels
	if isCmp(b.Op) && !b.Bool && b.HasOn && b.Group == "left" && name != "" {
		// documentation: "If on is used, then the metric name is dropped"; the engine keeps the name of
		// the "many" side here (known finding)
		for _, a := range alts {
			knownAlts = append(knownAlts, labels.NewBuilder(a).Set(labels.MetricName, name).Labels())
		}
	}
	if !dropName && name != "" {
		var withName []labels.Labels
		for _, a := range alts {
			withName = append(withName, labels.NewBuilder(a).Set(labels.MetricName, name).Labels())
		}
		if nameOptional {
			alts = append(withName, alts...)
		} else {
			alts = withName
		}
	}
	return alts[0], alts[1:], knownAlts
}

func evalVecVec(b *Bin, l, r []Elem) Res {
	lBy, rBy := map[string][]Elem{}, map[string][]Elem{}
	var keys []string
	seenKey := map[string]bool{}
	for _, e := range l {
		k := b.matchKey(e.L)
		lBy[k] = append(lBy[k], e)
		if !seenKey[k] {
			seenKey[k] = true
			keys = append(keys, k)
		}
	}
	for _, e := range r {
		k := b.matchKey(e.L)
		rBy[k] = append(rBy[k], e)
		if !seenKey[k] {
			seenKey[k] = true
			keys = append(keys, k)
		}
	}
	if b.Group != "" && (b.FillL != nil || b.FillR != nil) {
		return Res{Unspec: "fill modifiers together with group modifiers are not modelled"}
	}
	var out Res
	optionalErr := ""
	// every pair (kept or dropped by a filtering comparison) with all label sets it may get
	type pairLabels struct {
		all     []string
		dropped bool
	}
	var pairs []pairLabels
	emit := func(lv, rv float64, src Elem, one *Elem, srcIsLeft bool) {
		lbl, altL, knownL := b.resultLabels(src, one, srcIsLeft)
		e := Elem{L: lbl, AltL: altL, KnownAltL: knownL, KnownKind: KindOnGroupLeftKeepsName}
		pl := pairLabels{}
		for _, l := range append(append([]labels.Labels{lbl}, altL...), knownL...) {
			pl.all = append(pl.all, l.String())
		}
		defer func() { pairs = append(pairs, pl) }()
		switch {
		case isCmp(b.Op) && b.Bool:
			e.V = b2f(cmp(b.Op, lv, rv))
		case isCmp(b.Op):
			if !cmp(b.Op, lv, rv) {
				pl.dropped = true
				return
			}
			e.V = lv
			if b.Group == "right" {
				e.AltV = []float64{rv} // which side's value a filtering comparison returns under group_right is not documented
			}
		default:
			e.V = arith(b.Op, lv, rv)
		}
		out.Elems = append(out.Elems, e)
	}
	for _, k := range keys {
		ls, rs := lBy[k], rBy[k]
		switch b.Group {
		case "":
			switch {
			case len(ls) > 0 && len(rs) > 0:
				if len(ls) > 1 || len(rs) > 1 {
					return Res{Err: fmt.Sprintf("one-to-one matching but %d left and %d right elements share the match group %s", len(ls), len(rs), k)}
				}
				emit(ls[0].V, rs[0].V, ls[0], &rs[0], true)
			case len(ls) > 0:
				if len(ls) > 1 {
					optionalErr = "duplicate match group on the left without a partner"
				}
				if b.FillR != nil {
					for _, e := range ls {
						emit(e.V, *b.FillR, e, nil, true)
					}
				}
			default:
				if len(rs) > 1 {
					optionalErr = "duplicate match group on the right without a partner"
				}
				if b.FillL != nil {
					for _, e := range rs {
						emit(*b.FillL, e.V, e, nil, false)
					}
				}
			}
		case "left", "right":
			many, one := ls, rs
			if b.Group == "right" {
				many, one = rs, ls
			}
			switch {
			case len(many) > 0 && len(one) > 0:
				if len(one) > 1 {
					return Res{Err: fmt.Sprintf("%d elements on the \"one\" side share the match group %s", len(one), k)}
				}
				for _, m := range many {
					if b.Group == "left" {
						emit(m.V, one[0].V, m, &one[0], true)
					} else {
						emit(one[0].V, m.V, m, &one[0], false)
					}
				}
			case len(one) > 1:
				optionalErr = "duplicate match group on the \"one\" side without a partner"
			}
		}
	}
	if k, dup := dupLabels(out.Elems); dup {
		if optionalErr != "" {
			return Res{Unspec: optionalErr}
		}
		res := Res{Err: "result elements are not uniquely identifiable: " + k}
		for _, e := range out.Elems {
			if e.L.String() == k && len(e.KnownAltL) > 0 {
				res.ErrKnownKind = e.KnownKind // with the metric name kept (known finding) the elements may differ
			}
		}
		return res
	}
	// Kept pairs with identical primary labels were handled above (required error).  Any other
	// coincidence - through an alternative reading, or involving a pair the filter dropped (the
	// documentation does not say whether uniqueness is checked before or after filtering) - leaves
	// the outcome open.
	seenBy := map[string]int{}
	for i, p := range pairs {
		for _, k := range p.all {
			if j, dup := seenBy[k]; dup && j != i {
				optionalErr = "result label sets of two matched pairs coincide in one of the readings the documentation allows (or one of them is dropped by the filter)"
			}
			seenBy[k] = i
		}
	}
	if optionalErr != "" {
		return Res{Unspec: optionalErr}
	}
	return out
}

// IsCmpOp / IsSetOp classify binary operators for callers.
func IsCmpOp(op string) bool { return isCmp(op) }
func IsSetOp(op string) bool { return isSet(op) }
