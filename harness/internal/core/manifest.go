package core

import (
	"bufio"
	"encoding/json"
	"os"
	"path/filepath"
	"strings"
)

// NotApplicableReasons may be filled by props packages for properties deliberately not claimed.
var NotApplicableReasons = map[string]string{}

// Manifest renders MANIFEST.json from the registry (so it can never drift from the code).
func Manifest() map[string]any {
	var checks []map[string]any
	claimed := map[string]bool{}
	ready := map[string]bool{}
	for _, id := range readLines(filepath.Join(VerifRoot(), "ready.txt")) {
		ready[id] = true
	}
	for _, p := range All() {
		if len(ready) > 0 && !ready[p.ID] {
			continue // registered but not yet calibrated: not claimed
		}
		claimed[p.ID] = true
		checks = append(checks, map[string]any{
			"property_id":         p.ID,
			"quick_cmd":           "./run.sh " + p.ID + " quick",
			"thorough_cmd":        "./run.sh " + p.ID + " thorough",
			"evidence_file":       "/verif/evidence/" + p.ID + ".json",
			"replay_cmd_template": "./run.sh replay {path}",
			"engine":              "verifctl",
			"level_claimed": map[string]any{
				"category":   p.Level,
				"text":       p.LevelText,
				"design_ref": p.DesignRef,
			},
			"level_note": p.LevelNote,
			"technique":  p.Technique,
		})
	}
	na := []map[string]any{}
	if f, err := os.Open(filepath.Join(VerifRoot(), "properties.jsonl")); err == nil {
		sc := bufio.NewScanner(f)
		sc.Buffer(make([]byte, 1<<20), 16<<20)
		for sc.Scan() {
			var d struct {
				ID string `json:"id"`
			}
			if json.Unmarshal(sc.Bytes(), &d) == nil && d.ID != "" && !claimed[d.ID] {
				r := NotApplicableReasons[d.ID]
				if r == "" {
					r = "not claimed: no runtime monitor has been built for this property yet (see DESIGN.md §5 for the planned monitor)"
				}
				na = append(na, map[string]any{"property_id": d.ID, "reason": r})
			}
		}
		f.Close()
	}
	hooks := map[string]any{
		"guard":            "verif",
		"enable":           "go build -tags verif (run.sh builds /verif/harness against /repo's working tree through a replace directive)",
		"baseline_off_cmd": strings.TrimSpace(readFileOr(filepath.Join(VerifRoot(), "baseline_off_cmd.txt"), "cd /repo && go test -vet=off -count=1 -timeout 25m ./...")),
		"source_commits":   readLines(filepath.Join(VerifRoot(), "hook_commits.txt")),
		"add_only":         true,
	}
	return map[string]any{
		"version":   1,
		"setup_cmd": "./setup.sh",
		"hooks":     hooks,
		"engines": []map[string]any{{
			"name": "verifctl", "path": "/verif/harness",
			"kind_free_text": "Go supervisor/worker harness: generated hostile workloads drive the real packages of /repo (built from the working tree with -tags verif); oracles are reference models, differential partners, conservation/order checkers, porcupine and the Go race detector",
		}},
		"checks":         checks,
		"not_applicable": na,
		"notes":          "Runtime monitoring only. Every check prints what it observed into evidence/<id>.json. Exit 0 = held on observed executions, 1 = VIOLATION, 2 = inconclusive (never on the unchanged tree).",
	}
}

func readFileOr(path, def string) string {
	b, err := os.ReadFile(path)
	if err != nil {
		return def
	}
	return string(b)
}

func readLines(path string) []string {
	out := []string{}
	b, err := os.ReadFile(path)
	if err != nil {
		return out
	}
	for _, l := range strings.Split(string(b), "\n") {
		if l = strings.TrimSpace(l); l != "" && !strings.HasPrefix(l, "#") {
			out = append(out, l)
		}
	}
	return out
}
