// Package core is the runtime-monitoring framework shared by all property checks:
// property registry, deterministic case seeding, per-case result recording, and the
// three-valued verdict.  The supervisor/worker process model lives in super.go.
package core

import (
	"crypto/sha256"
	"encoding/binary"
	"encoding/json"
	"fmt"
	"math/rand/v2"
	"os"
	"path/filepath"
	"runtime"
	"sort"
	"strings"
	"sync"
	"time"
)

type Tier string

const (
	Quick    Tier = "quick"
	Thorough Tier = "thorough"
)

// Prop describes one property check.
type Prop struct {
	ID          string
	Title       string
	Level       string // "exploration" | "fault_enumeration"
	Technique   string
	LevelText   string
	LevelNote   string
	DesignRef   string
	Rule        string // how cases are generated and what makes one non-trivial
	Assumptions []string

	// Cases returns the fixed number of cases for a build variant ("default", "race",
	// "slice", "dedupe") and tier.  0 = variant unused.
	Cases func(variant string, tier Tier) int
	// Variants lists the build variants this property needs besides "default".
	Variants []string
	// Run executes one case and records observations/violations on c.
	Run func(c *Case)
	// Post runs in the supervisor after all workers finished (cross-process oracles).
	Post func(s *Summary)
	// MinNontrivial: below this number of distinct non-trivial cases the run is inconclusive.
	MinNontrivial func(tier Tier) int
	// CaseTimeoutSec is the wall-clock watchdog per case (inconclusive when it fires).
	CaseTimeoutSec int
	// MaxWorkers caps parallel worker processes (0 = number of CPUs).
	MaxWorkers int
	// ExhaustiveNote, when non-empty, marks that part of the space is enumerated completely.
	Exhaustive bool
}

var registry = map[string]*Prop{}

// Subcommands are extra process entry points of the verifctl binary (child processes that a
// property needs to kill, e.g. the crashing writer of C03): verifctl <name> <args...>.
var Subcommands = map[string]func(args []string) int{}

// SelfBinary returns the verifctl binary of the given build variant.
func SelfBinary(variant string) string { return binFor(variant) }

func Register(p *Prop) {
	if _, dup := registry[p.ID]; dup {
		panic("duplicate property " + p.ID)
	}
	if p.Level == "" {
		p.Level = "exploration"
	}
	registry[p.ID] = p
}

func Lookup(id string) *Prop { return registry[id] }

func All() []*Prop {
	var ids []string
	for id := range registry {
		ids = append(ids, id)
	}
	sort.Strings(ids)
	out := make([]*Prop, 0, len(ids))
	for _, id := range ids {
		out = append(out, registry[id])
	}
	return out
}

// Violation is one refutation witness.
type Violation struct {
	Kind   string `json:"kind"`   // narrow machine-checkable class (matched against known_findings.jsonl)
	Detail string `json:"detail"` // human readable: expected vs observed
	Extra  any    `json:"extra,omitempty"`
}

// Result is what a worker reports per case.
type Result struct {
	Idx        int                         `json:"idx"`
	Variant    string                      `json:"variant"`
	Verdict    string                      `json:"verdict"` // held | violated | inconclusive | harness_error
	Reason     string                      `json:"reason,omitempty"`
	Nontrivial []string                    `json:"nontrivial,omitempty"` // distinct keys (hashes)
	Counters   map[string]int64            `json:"counters,omitempty"`
	Sets       map[string]map[string]int64 `json:"sets,omitempty"`
	Sample     any                         `json:"sample,omitempty"`
	Violations []Violation                 `json:"violations,omitempty"`
	Emit       map[string]string           `json:"emit,omitempty"` // values for supervisor-side (cross-process) oracles
	WallMs     int64                       `json:"wall_ms,omitempty"`
}

// Case is the per-case context handed to Prop.Run.
type Case struct {
	Prop    *Prop
	Tier    Tier
	Seed    int64
	Idx     int
	Variant string
	Rng     *rand.Rand
	Verbose bool

	mu      sync.Mutex
	res     Result
	tmpdirs []string
}

// CaseSeed derives the per-case PRNG seed: H(seed, property, idx).  The variant is NOT part of
// the seed so that the same case index means the same input in every build variant.
func CaseSeed(seed int64, prop string, idx int) (uint64, uint64) {
	h := sha256.New()
	var b [16]byte
	binary.LittleEndian.PutUint64(b[:8], uint64(seed))
	binary.LittleEndian.PutUint64(b[8:], uint64(idx))
	h.Write(b[:])
	h.Write([]byte(prop))
	s := h.Sum(nil)
	return binary.LittleEndian.Uint64(s[:8]), binary.LittleEndian.Uint64(s[8:16])
}

func NewCase(p *Prop, tier Tier, seed int64, idx int, variant string) *Case {
	a, b := CaseSeed(seed, p.ID, idx)
	return &Case{
		Prop: p, Tier: tier, Seed: seed, Idx: idx, Variant: variant,
		Rng: rand.New(rand.NewPCG(a, b)),
		res: Result{Idx: idx, Variant: variant},
	}
}

// SubRng returns an independent deterministic PRNG for a named sub-stream of this case.
func (c *Case) SubRng(name string) *rand.Rand {
	a, b := CaseSeed(c.Seed, c.Prop.ID+"/"+name, c.Idx)
	return rand.New(rand.NewPCG(a, b))
}

// Violatef records a violation with a machine-checkable kind.
func (c *Case) Violatef(kind, format string, args ...any) {
	c.mu.Lock()
	defer c.mu.Unlock()
	if len(c.res.Violations) < 8 {
		d := fmt.Sprintf(format, args...)
		if len(d) > 6000 {
			d = d[:6000] + "…"
		}
		c.res.Violations = append(c.res.Violations, Violation{Kind: kind, Detail: d})
	}
}

// ViolateExtra records a violation with a structured witness attached.
func (c *Case) ViolateExtra(kind string, extra any, format string, args ...any) {
	c.mu.Lock()
	defer c.mu.Unlock()
	if len(c.res.Violations) < 8 {
		c.res.Violations = append(c.res.Violations, Violation{Kind: kind, Detail: fmt.Sprintf(format, args...), Extra: extra})
	}
}

// ViolateOncef records the violation unless this case already holds one of the same kind (checks
// that evaluate many inputs per case keep going after a violation without filling the list with
// repeats of one class).
func (c *Case) ViolateOncef(kind, format string, args ...any) {
	c.mu.Lock()
	for _, v := range c.res.Violations {
		if v.Kind == kind {
			c.mu.Unlock()
			return
		}
	}
	c.mu.Unlock()
	c.Violatef(kind, format, args...)
}

func (c *Case) Violated() bool {
	c.mu.Lock()
	defer c.mu.Unlock()
	return len(c.res.Violations) > 0
}

// Nontrivial marks the case as non-trivial under the property's rule; key identifies the case
// for distinctness (a canonical rendering of the input, hashed here).
func (c *Case) Nontrivial(key ...any) {
	h := sha256.Sum256([]byte(fmt.Sprint(key...)))
	k := fmt.Sprintf("%x", h[:8])
	c.mu.Lock()
	defer c.mu.Unlock()
	if len(c.res.Nontrivial) < 4096 {
		c.res.Nontrivial = append(c.res.Nontrivial, k)
	}
}

func (c *Case) Count(name string, n int64) {
	c.mu.Lock()
	defer c.mu.Unlock()
	if c.res.Counters == nil {
		c.res.Counters = map[string]int64{}
	}
	c.res.Counters[name] += n
}

// Seen adds a value to a named distinct-value set (e.g. hook sites hit, error classes seen).
func (c *Case) Seen(set, value string) {
	c.mu.Lock()
	defer c.mu.Unlock()
	if c.res.Sets == nil {
		c.res.Sets = map[string]map[string]int64{}
	}
	m := c.res.Sets[set]
	if m == nil {
		m = map[string]int64{}
		c.res.Sets[set] = m
	}
	if len(m) < 512 || m[value] > 0 {
		m[value]++
	}
}

// Sample attaches a written-out rendering of this case for the evidence file.
func (c *Case) Sample(v any) {
	c.mu.Lock()
	defer c.mu.Unlock()
	c.res.Sample = v
}

// Emit hands a value to the supervisor's Post step.
func (c *Case) Emit(key, value string) {
	c.mu.Lock()
	defer c.mu.Unlock()
	if c.res.Emit == nil {
		c.res.Emit = map[string]string{}
	}
	c.res.Emit[key] = value
}

func (c *Case) Inconclusive(format string, args ...any) {
	c.mu.Lock()
	defer c.mu.Unlock()
	if c.res.Reason == "" {
		c.res.Reason = fmt.Sprintf(format, args...)
	}
	if c.res.Verdict == "" {
		c.res.Verdict = "inconclusive"
	}
}

// Logf prints only in replay/verbose mode.
func (c *Case) Logf(format string, args ...any) {
	if c.Verbose {
		fmt.Fprintf(os.Stderr, format+"\n", args...)
	}
}

// TmpRoot is the scratch root (never under /tmp, /repo or /verif).
func TmpRoot() string {
	if d := os.Getenv("VERIF_TMP"); d != "" {
		return d
	}
	return "/var/tmp/verif-scratch"
}

// TempDir returns a fresh scratch directory removed when the case ends.
func (c *Case) TempDir() string {
	root := TmpRoot()
	os.MkdirAll(root, 0o755)
	d, err := os.MkdirTemp(root, fmt.Sprintf("%s-%d-", c.Prop.ID, c.Idx))
	if err != nil {
		panic(HarnessError{fmt.Sprintf("mkdtemp: %v", err)})
	}
	c.mu.Lock()
	c.tmpdirs = append(c.tmpdirs, d)
	c.mu.Unlock()
	return d
}

func (c *Case) cleanup() {
	keep := os.Getenv("VERIF_KEEP") != ""
	for _, d := range c.tmpdirs {
		if !keep {
			os.RemoveAll(d)
		}
	}
}

// HarnessError is panicked by harness code for conditions that are the harness's own fault
// (never reported as a property violation).
type HarnessError struct{ Msg string }

func (h HarnessError) Error() string { return "harness error: " + h.Msg }

// Must aborts the case as a harness error when err != nil.
func Must(err error, what string) {
	if err != nil {
		panic(HarnessError{what + ": " + err.Error()})
	}
}

// RunCase executes one case with panic classification and returns its result.
func RunCase(c *Case) (res Result) {
	t0 := time.Now()
	defer func() { res.WallMs = time.Since(t0).Milliseconds() }()
	defer c.cleanup()
	func() {
		defer func() {
			if r := recover(); r != nil {
				st := make([]byte, 64<<10)
				st = st[:runtime.Stack(st, false)]
				if he, ok := r.(HarnessError); ok {
					c.mu.Lock()
					c.res.Verdict = "harness_error"
					c.res.Reason = he.Msg
					c.mu.Unlock()
					return
				}
				origin := PanicOrigin(string(st))
				msg := fmt.Sprintf("panic: %v\n%s", r, TrimStack(string(st), 40))
				if origin == "repo" {
					c.Violatef("panic-in-repo-code", "%s", msg)
				} else {
					c.mu.Lock()
					c.res.Verdict = "harness_error"
					c.res.Reason = msg
					c.mu.Unlock()
				}
			}
		}()
		c.Prop.Run(c)
	}()
	c.mu.Lock()
	defer c.mu.Unlock()
	switch {
	case c.res.Verdict == "harness_error":
	case len(c.res.Violations) > 0:
		c.res.Verdict = "violated"
	case c.res.Verdict == "":
		c.res.Verdict = "held"
	}
	return c.res
}

// PanicOrigin classifies a goroutine stack taken inside a deferred recover: the first frame
// below the runtime's panic machinery decides whether repository code or harness code raised it.
func PanicOrigin(stack string) string {
	lines := strings.Split(stack, "\n")
	seenPanic := false
	for i := 0; i < len(lines); i++ {
		l := lines[i]
		if strings.HasPrefix(l, "panic(") || strings.HasPrefix(l, "runtime.gopanic") || strings.HasPrefix(l, "runtime.panic") || strings.HasPrefix(l, "runtime.goPanic") || strings.HasPrefix(l, "runtime.sigpanic") {
			seenPanic = true
			continue
		}
		if !seenPanic {
			continue
		}
		if strings.HasPrefix(l, "\t") || strings.HasPrefix(l, "runtime.") || l == "" {
			continue
		}
		// function line; the file line follows
		file := ""
		if i+1 < len(lines) {
			file = strings.TrimSpace(lines[i+1])
		}
		switch {
		case strings.HasPrefix(file, "/repo/"):
			return "repo"
		case strings.Contains(file, "/verif/") || strings.HasPrefix(l, "verif/"):
			return "harness"
		case strings.HasPrefix(l, "github.com/prometheus/prometheus/"):
			return "repo"
		default:
			// std library or third-party frame (e.g. sort, slices callbacks): keep looking
			continue
		}
	}
	return "unknown"
}

func TrimStack(s string, maxLines int) string {
	lines := strings.Split(s, "\n")
	if len(lines) > maxLines {
		lines = lines[:maxLines]
	}
	return strings.Join(lines, "\n")
}

// KnownFinding is one line of /verif/known_findings.jsonl.
type KnownFinding struct {
	Property    string `json:"property"`
	Status      string `json:"status"` // "known" | "fixed"
	Kind        string `json:"kind"`
	Description string `json:"description"`
	Commit      string `json:"commit,omitempty"`
}

func VerifRoot() string {
	if d := os.Getenv("VERIF_ROOT"); d != "" {
		return d
	}
	return "/verif"
}

func LoadKnownFindings() []KnownFinding {
	b, err := os.ReadFile(filepath.Join(VerifRoot(), "known_findings.jsonl"))
	if err != nil {
		return nil
	}
	var out []KnownFinding
	for _, l := range strings.Split(string(b), "\n") {
		l = strings.TrimSpace(l)
		if l == "" || strings.HasPrefix(l, "#") {
			continue
		}
		var k KnownFinding
		if json.Unmarshal([]byte(l), &k) == nil {
			out = append(out, k)
		}
	}
	return out
}
