package core

import (
	"bufio"
	"encoding/json"
	"fmt"
	"os"
	"os/exec"
	"path/filepath"
	"regexp"
	"runtime"
	"sort"
	"strconv"
	"strings"
	"sync"
	"syscall"
	"time"
)

// ---------------------------------------------------------------- worker side

const exitWatchdog = 75

// WorkerMain runs cases start, start+stride, … < n and appends B/E lines to outfile.
func WorkerMain(p *Prop, tier Tier, seed int64, variant string, start, stride, n int, outfile string) {
	f, err := os.OpenFile(outfile, os.O_CREATE|os.O_WRONLY|os.O_APPEND, 0o644)
	if err != nil {
		fmt.Fprintln(os.Stderr, "worker: open out:", err)
		os.Exit(3)
	}
	timeout := time.Duration(p.CaseTimeoutSec) * time.Second
	if timeout == 0 {
		timeout = 180 * time.Second
	}
	if variant == "race" {
		timeout *= 4
	}
	for idx := start; idx < n; idx += stride {
		fmt.Fprintf(f, "B %d\n", idx)
		c := NewCase(p, tier, seed, idx, variant)
		done := make(chan Result, 1)
		go func() { done <- RunCase(c) }()
		var res Result
		select {
		case res = <-done:
		case <-time.After(timeout):
			res = Result{Idx: idx, Variant: variant, Verdict: "inconclusive", Reason: "wall-clock watchdog fired after " + timeout.String()}
			b, _ := json.Marshal(res)
			fmt.Fprintf(f, "E %s\n", b)
			f.Sync()
			buf := make([]byte, 4<<20)
			buf = buf[:runtime.Stack(buf, true)]
			fmt.Fprintf(os.Stderr, "WATCHDOG case %d\n%s\n", idx, buf)
			os.Exit(exitWatchdog)
		}
		b, err := json.Marshal(res)
		if err != nil {
			res = Result{Idx: idx, Variant: variant, Verdict: "harness_error", Reason: "result not serialisable: " + err.Error()}
			b, _ = json.Marshal(res)
		}
		fmt.Fprintf(f, "E %s\n", b)
	}
	f.Close()
}

// ---------------------------------------------------------------- supervisor side

// Summary aggregates all worker results of a run.
type Summary struct {
	Prop          *Prop
	Tier          Tier
	Seed          int64
	Results       []Result         // sorted by (variant, idx)
	Extra         []Violation      // violations added by Post
	ExtraCounters map[string]int64 // counters added by Post
	RaceReports   []RaceReport
	RunDir        string
}

func (s *Summary) PostViolatef(kind, format string, args ...any) {
	s.Extra = append(s.Extra, Violation{Kind: kind, Detail: fmt.Sprintf(format, args...)})
}

func (s *Summary) PostCount(name string, n int64) {
	if s.ExtraCounters == nil {
		s.ExtraCounters = map[string]int64{}
	}
	s.ExtraCounters[name] += n
}

type RaceReport struct {
	Key    string `json:"key"`
	InRepo bool   `json:"in_repo"`
	Text   string `json:"text"`
	Count  int    `json:"count"`
}

func binFor(variant string) string {
	dir := filepath.Join(VerifRoot(), "bin")
	if d := os.Getenv("VERIF_BIN_DIR"); d != "" {
		dir = d
	}
	b := filepath.Join(dir, "verifctl")
	if variant != "default" {
		b += "-" + variant
	}
	return b
}

func envSeed() int64 {
	if s := os.Getenv("VERIF_SEED"); s != "" {
		if v, err := strconv.ParseInt(s, 10, 64); err == nil {
			return v
		}
	}
	return 1
}

// Supervise runs the property at the tier and returns the process exit code.
// thoroughCaps bounds the number of default-build cases of a thorough run (the other builds are
// scaled by the same ratio).  Properties not listed run the count they declare.
var thoroughCaps = map[string]int{
	"C01": 640, "C02": 50000, "C03": 16, "C04": 64, "C05": 2400, "C06": 400, "C07": 1500, "C09": 1500,
	"C11": 15000, "C12": 3000, "C13": 10000, "C15": 500, "C16": 3000, "C20": 1500, "C21": 100000,
	"C22": 800, "C23": 600, "C24": 2000, "C25": 4000, "C33": 1500, "C39": 40000, "C45": 1500,
	"C47": 1200, "C50": 130, "C52": 600, "C53": 300, "C54": 10000,
}

func Supervise(p *Prop, tier Tier) int {
	t0 := time.Now()
	seed := envSeed()
	runDir := filepath.Join(TmpRoot(), fmt.Sprintf("run-%s-%d", p.ID, os.Getpid()))
	os.RemoveAll(runDir)
	Must(os.MkdirAll(runDir, 0o755), "mkdir rundir")
	defer func() {
		if os.Getenv("VERIF_KEEP") == "" {
			os.RemoveAll(runDir)
		}
	}()
	os.Setenv("VERIF_TMP", filepath.Join(runDir, "scratch"))

	// witnesses of earlier runs with the same (seed, tier) are obsolete
	if old, _ := filepath.Glob(filepath.Join(VerifRoot(), "replays", p.ID, fmt.Sprintf("*seed%d-%s-*.json", seed, tier))); len(old) > 0 {
		for _, f := range old {
			os.Remove(f)
		}
	}
	sum := &Summary{Prop: p, Tier: tier, Seed: seed, RunDir: runDir}
	variants := append([]string{"default"}, p.Variants...)
	maxW := runtime.NumCPU()
	if p.MaxWorkers > 0 && p.MaxWorkers < maxW {
		maxW = p.MaxWorkers
	}
	if v := os.Getenv("VERIF_WORKERS"); v != "" {
		if n, err := strconv.Atoi(v); err == nil && n > 0 {
			maxW = n
		}
	}
	harnessErrs := []string{}
	for _, variant := range variants {
		n := p.Cases(variant, tier)
		if n <= 0 {
			continue
		}
		if tier == Thorough {
			// thorough tiers are sized to what was actually run to the end on the unchanged tree on
			// this 16-core machine (about 5-10 minutes each): fixed case counts, not time budgets
			if cap, ok := thoroughCaps[p.ID]; ok {
				if d := p.Cases("default", tier); d > cap {
					n = (n*cap + d - 1) / d
				}
			}
		}
		if v := os.Getenv("VERIF_CASES"); v != "" { // development aid only
			if m, err := strconv.Atoi(v); err == nil && m > 0 && m < n {
				n = m
			}
		}
		if _, err := os.Stat(binFor(variant)); err != nil {
			harnessErrs = append(harnessErrs, "missing binary "+binFor(variant))
			continue
		}
		w := maxW
		if w > n {
			w = n
		}
		var wg sync.WaitGroup
		var mu sync.Mutex
		for k := 0; k < w; k++ {
			wg.Add(1)
			go func(k int) {
				defer wg.Done()
				res, herr := superviseWorker(p, tier, seed, variant, k, w, n, runDir)
				mu.Lock()
				sum.Results = append(sum.Results, res...)
				harnessErrs = append(harnessErrs, herr...)
				mu.Unlock()
			}(k)
		}
		wg.Wait()
		if variant == "race" {
			sum.RaceReports = collectRaceReports(runDir)
		}
	}
	sort.Slice(sum.Results, func(i, j int) bool {
		if sum.Results[i].Variant != sum.Results[j].Variant {
			return sum.Results[i].Variant < sum.Results[j].Variant
		}
		return sum.Results[i].Idx < sum.Results[j].Idx
	})
	if p.Post != nil {
		func() {
			defer func() {
				if r := recover(); r != nil {
					harnessErrs = append(harnessErrs, fmt.Sprintf("post step panicked: %v", r))
				}
			}()
			p.Post(sum)
		}()
	}
	return finish(sum, harnessErrs, time.Since(t0))
}

func superviseWorker(p *Prop, tier Tier, seed int64, variant string, k, stride, n int, runDir string) (results []Result, herrs []string) {
	out := filepath.Join(runDir, fmt.Sprintf("%s.w%d.out", variant, k))
	start := k
	attempt := 0
	for start < n {
		attempt++
		logf := filepath.Join(runDir, fmt.Sprintf("%s.w%d.a%d.log", variant, k, attempt))
		lf, _ := os.Create(logf)
		os.Remove(out)
		cmd := exec.Command(binFor(variant), "worker", p.ID, string(tier), strconv.FormatInt(seed, 10), variant,
			strconv.Itoa(start), strconv.Itoa(stride), strconv.Itoa(n), out)
		cmd.Stdout = lf
		cmd.Stderr = lf
		cmd.Env = append(os.Environ(), "GOTRACEBACK=all")
		if variant == "race" {
			cmd.Env = append(cmd.Env, "GORACE=halt_on_error=0 log_path="+filepath.Join(runDir, fmt.Sprintf("racelog.w%d.a%d", k, attempt)))
		}
		cmd.SysProcAttr = &syscall.SysProcAttr{Setpgid: true}
		err := cmd.Run()
		lf.Close()
		res, lastBegun, lastEnded := readWorkerOut(out)
		results = append(results, res...)
		if err == nil {
			return
		}
		// worker died
		code := -1
		if ee, ok := err.(*exec.ExitError); ok {
			code = ee.ExitCode()
		}
		if lastBegun < 0 {
			herrs = append(herrs, fmt.Sprintf("worker %s/%d failed before its first case (exit %d): %s", variant, k, code, tail(logf, 30)))
			return
		}
		if code == exitWatchdog || lastBegun == lastEnded {
			// watchdog already wrote its E line (inconclusive); or died between cases
			if code != exitWatchdog {
				herrs = append(herrs, fmt.Sprintf("worker %s/%d died between cases (exit %d): %s", variant, k, code, tail(logf, 30)))
			}
			start = lastBegun + stride
			continue
		}
		// died inside case lastBegun: classify from the log
		logtxt := crashExcerpt(logf)
		r := Result{Idx: lastBegun, Variant: variant}
		origin := crashOrigin(logtxt)
		switch origin {
		case "repo":
			r.Verdict = "violated"
			r.Violations = []Violation{{Kind: "worker-crash-in-repo-code", Detail: fmt.Sprintf("worker process died (exit %d) while running the case:\n%s", code, headLines(logtxt, 80))}}
		default:
			r.Verdict = "inconclusive"
			r.Reason = fmt.Sprintf("worker process died (exit %d), origin=%s: %s", code, origin, headLines(logtxt, 40))
		}
		results = append(results, r)
		start = lastBegun + stride
	}
	return
}

func readWorkerOut(path string) (res []Result, lastBegun, lastEnded int) {
	lastBegun, lastEnded = -1, -1
	f, err := os.Open(path)
	if err != nil {
		return
	}
	defer f.Close()
	sc := bufio.NewScanner(f)
	sc.Buffer(make([]byte, 1<<20), 64<<20)
	for sc.Scan() {
		l := sc.Text()
		switch {
		case strings.HasPrefix(l, "B "):
			lastBegun, _ = strconv.Atoi(l[2:])
		case strings.HasPrefix(l, "E "):
			var r Result
			if json.Unmarshal([]byte(l[2:]), &r) == nil {
				res = append(res, r)
				lastEnded = r.Idx
			}
		}
	}
	return
}

func tail(path string, n int) string {
	b, err := os.ReadFile(path)
	if err != nil {
		return ""
	}
	lines := strings.Split(string(b), "\n")
	if len(lines) > n {
		lines = lines[len(lines)-n:]
	}
	return strings.Join(lines, "\n")
}

// crashExcerpt returns the part of a crashed worker's log that starts at the first panic / fatal
// error marker (with GOTRACEBACK=all the dump of all goroutines can be far longer than a tail).
func crashExcerpt(path string) string {
	b, err := os.ReadFile(path)
	if err != nil {
		return ""
	}
	if len(b) > 64<<20 {
		b = b[:64<<20]
	}
	txt := string(b)
	p := -1
	for _, m := range []string{"\npanic: ", "\nfatal error: ", "SIGSEGV", "SIGBUS", "unexpected fault address"} {
		if j := strings.Index(txt, m); j >= 0 && (p < 0 || j < p) {
			p = j
		}
	}
	if p < 0 {
		return tail(path, 400)
	}
	txt = txt[p:]
	if len(txt) > 200<<10 {
		txt = txt[:200<<10]
	}
	return txt
}

func headLines(s string, n int) string {
	lines := strings.Split(s, "\n")
	if len(lines) > n {
		lines = lines[:n]
	}
	return strings.Join(lines, "\n")
}

// crashOrigin inspects a crashed worker's log (Go fatal error / unrecovered panic in another
// goroutine / SIGSEGV dump) and says whether the first goroutine trace's top non-runtime frame
// is repository code.
func crashOrigin(log string) string {
	i := strings.Index(log, "goroutine ")
	p := -1
	for _, m := range []string{"panic: ", "fatal error: ", "SIGSEGV", "SIGBUS", "unexpected fault address"} {
		if j := strings.Index(log, m); j >= 0 && (p < 0 || j < p) {
			p = j
		}
	}
	if p < 0 {
		if strings.Contains(log, "signal: killed") || log == "" {
			return "killed"
		}
		return "unknown"
	}
	if i < p {
		i = p + strings.Index(log[p:], "goroutine ")
	}
	if i < p {
		return "unknown"
	}
	// first goroutine block after the panic line
	block := log[i:]
	if j := strings.Index(block, "\n\n"); j > 0 {
		block = block[:j]
	}
	lines := strings.Split(block, "\n")
	for k := 1; k+1 < len(lines); k++ {
		fn := lines[k]
		file := strings.TrimSpace(lines[k+1])
		if strings.HasPrefix(fn, "\t") {
			continue
		}
		if strings.HasPrefix(fn, "runtime.") || strings.HasPrefix(fn, "panic(") || strings.HasPrefix(fn, "runtime/") || strings.HasPrefix(fn, "syscall.") || strings.HasPrefix(fn, "internal/") {
			continue
		}
		if strings.HasPrefix(file, "/repo/") {
			return "repo"
		}
		if strings.Contains(file, "/verif/") {
			return "harness"
		}
	}
	return "unknown"
}

var raceFrameRe = regexp.MustCompile(`^\s+(\S+\.go):(\d+)`)

func collectRaceReports(runDir string) []RaceReport {
	files, _ := filepath.Glob(filepath.Join(runDir, "racelog.*"))
	byKey := map[string]*RaceReport{}
	for _, f := range files {
		b, err := os.ReadFile(f)
		if err != nil {
			continue
		}
		blocks := strings.Split(string(b), "==================")
		for _, blk := range blocks {
			if !strings.Contains(blk, "WARNING: DATA RACE") {
				continue
			}
			// key: function names of the frames of the two accessing stacks, line numbers stripped
			var fnames []string
			inRepo := false
			lines := strings.Split(blk, "\n")
			section := 0
			for i, l := range lines {
				if strings.HasSuffix(strings.TrimSpace(l), ":") && !strings.HasPrefix(l, " ") {
					section++
				}
				if section > 2 {
					break
				}
				if strings.HasPrefix(l, "  ") && !strings.HasPrefix(l, "      ") && strings.Contains(l, "(") && i+1 < len(lines) {
					fn := strings.TrimSpace(l)
					// cut the argument list only: "pkg.(*T).method(...)" keeps the receiver and method
					if j := strings.LastIndex(fn, "("); j > 0 {
						fn = fn[:j]
					}
					fnames = append(fnames, fn)
					if strings.Contains(lines[i+1], "/repo/") {
						inRepo = true
					}
				}
			}
			key := strings.Join(fnames, "|")
			if r := byKey[key]; r != nil {
				r.Count++
				continue
			}
			byKey[key] = &RaceReport{Key: key, InRepo: inRepo, Text: headLines(strings.TrimSpace(blk), 60), Count: 1}
		}
	}
	var out []RaceReport
	for _, r := range byKey {
		out = append(out, *r)
	}
	sort.Slice(out, func(i, j int) bool { return out[i].Key < out[j].Key })
	return out
}

// ---------------------------------------------------------------- verdict + evidence

type witnessFile struct {
	Property   string      `json:"property"`
	Tier       Tier        `json:"tier"`
	Seed       int64       `json:"seed"`
	Idx        int         `json:"idx"`
	Variant    string      `json:"variant"`
	Violations []Violation `json:"violations"`
	Sample     any         `json:"sample,omitempty"`
	Replay     string      `json:"replay"`
}

func finish(s *Summary, harnessErrs []string, wall time.Duration) int {
	p := s.Prop
	known := map[string]KnownFinding{}
	var knownList []KnownFinding
	for _, k := range LoadKnownFindings() {
		if k.Property == p.ID && k.Status == "known" {
			known[k.Kind] = k
			knownList = append(knownList, k)
		}
	}
	knownSeen := map[string]int{}
	distinct := map[string]bool{}
	counters := map[string]int64{}
	sets := map[string]map[string]int64{}
	var samples []any
	evals := 0
	inconcl := 0
	var inconclReasons []string
	perVariant := map[string]int{}
	type viol struct {
		r Result
		v []Violation
	}
	var fresh []viol
	for _, r := range s.Results {
		evals++
		perVariant[r.Variant]++
		for _, k := range r.Nontrivial {
			distinct[k] = true
		}
		for k, v := range r.Counters {
			counters[k] += v
		}
		for sn, m := range r.Sets {
			if sets[sn] == nil {
				sets[sn] = map[string]int64{}
			}
			for k, v := range m {
				sets[sn][k] += v
			}
		}
		if r.Sample != nil && len(samples) < 3 {
			samples = append(samples, r.Sample)
		}
		switch r.Verdict {
		case "inconclusive":
			inconcl++
			if len(inconclReasons) < 5 {
				inconclReasons = append(inconclReasons, fmt.Sprintf("case %d/%s: %s", r.Idx, r.Variant, headLines(r.Reason, 12)))
			}
		case "harness_error":
			harnessErrs = append(harnessErrs, fmt.Sprintf("case %d/%s: %s", r.Idx, r.Variant, headLines(r.Reason, 30)))
		}
		var unk []Violation
		for _, v := range r.Violations {
			if _, ok := known[v.Kind]; ok {
				knownSeen[v.Kind]++
				if knownSeen[v.Kind] == 1 {
					writeWitness(p, s, r, []Violation{v}, "known-"+v.Kind)
				}
				continue
			}
			unk = append(unk, v)
		}
		if len(unk) > 0 {
			fresh = append(fresh, viol{r, unk})
		}
	}
	for k, v := range s.ExtraCounters {
		counters[k] += v
	}
	// race reports
	raceInRepo := 0
	for _, rr := range s.RaceReports {
		if rr.InRepo {
			raceInRepo++
			v := Violation{Kind: "data-race", Detail: rr.Text}
			if _, ok := known["data-race:"+rr.Key]; ok {
				knownSeen["data-race:"+rr.Key]++
				continue
			}
			fresh = append(fresh, viol{Result{Idx: -1, Variant: "race"}, []Violation{v}})
		} else if strings.Contains(rr.Text, "/verif/harness") {
			harnessErrs = append(harnessErrs, "data race inside harness code:\n"+headLines(rr.Text, 30))
		}
	}
	for _, v := range s.Extra {
		if _, ok := known[v.Kind]; ok {
			knownSeen[v.Kind]++
			continue
		}
		fresh = append(fresh, viol{Result{Idx: -1, Variant: "post"}, []Violation{v}})
	}

	if len(samples) == 0 {
		for _, r := range s.Results {
			if r.Sample != nil {
				samples = append(samples, r.Sample)
				break
			}
		}
	}
	if len(samples) == 0 {
		samples = append(samples, map[string]any{"note": "no sample recorded", "seed": s.Seed})
	}

	// stdout lines
	exit := 0
	var replayPaths []string
	for i, f := range fresh {
		path := writeWitness(p, s, f.r, f.v, "")
		replayPaths = append(replayPaths, path)
		if i < 20 {
			fmt.Printf("VIOLATION property=%s replay=%s\n", p.ID, path)
			fmt.Printf("  kind=%s case=%d variant=%s\n  %s\n", f.v[0].Kind, f.r.Idx, f.r.Variant, strings.ReplaceAll(headLines(f.v[0].Detail, 25), "\n", "\n  "))
		}
		exit = 1
	}
	kindCount := map[string]int{}
	for _, f := range fresh {
		kindCount[f.v[0].Kind]++
	}
	if len(kindCount) > 0 {
		fmt.Printf("violation kinds: %v\n", kindCount)
	}
	for _, k := range knownList {
		fmt.Printf("KNOWN-FINDING: property=%s %s [kind=%s observed_cases=%d]\n", p.ID, k.Description, k.Kind, knownSeen[k.Kind])
	}
	minNT := 2
	if p.MinNontrivial != nil {
		minNT = p.MinNontrivial(s.Tier)
		if s.Tier == Thorough {
			// a capped thorough run (thoroughCaps) needs the same share of non-trivial cases
			if cap, ok := thoroughCaps[p.ID]; ok {
				if d := p.Cases("default", s.Tier); d > cap {
					minNT = minNT * cap / d
				}
			}
		}
	}
	inconclusive := false
	if exit == 0 {
		if len(harnessErrs) > 0 {
			inconclusive = true
			for i, h := range harnessErrs {
				if i < 10 {
					fmt.Printf("HARNESS-ERROR property=%s %s\n", p.ID, h)
				}
			}
		}
		if len(distinct) < minNT {
			inconclusive = true
			fmt.Printf("INCONCLUSIVE property=%s only %d distinct non-trivial cases observed (need %d)\n", p.ID, len(distinct), minNT)
		}
		if inconcl*10 > evals { // more than 10% inconclusive cases
			inconclusive = true
			fmt.Printf("INCONCLUSIVE property=%s %d of %d cases inconclusive\n", p.ID, inconcl, evals)
		}
		if inconclusive {
			exit = 2
		}
	}
	for _, r := range inconclReasons {
		fmt.Printf("note: inconclusive %s\n", r)
	}

	var slow []string
	{
		rs := append([]Result(nil), s.Results...)
		sort.Slice(rs, func(i, j int) bool { return rs[i].WallMs > rs[j].WallMs })
		for i := 0; i < len(rs) && i < 5; i++ {
			slow = append(slow, fmt.Sprintf("%d/%s:%dms", rs[i].Idx, rs[i].Variant, rs[i].WallMs))
		}
	}
	cov := map[string]any{
		"slowest_cases":           slow,
		"evaluations":             evals,
		"distinct_nontrivial":     len(distinct),
		"rule":                    p.Rule,
		"samples":                 samples,
		"counters":                counters,
		"distinct_values":         summariseSets(sets),
		"cases_per_build":         perVariant,
		"inconclusive_cases":      inconcl,
		"known_findings_observed": knownSeen,
		"race_reports_dedup":      len(s.RaceReports),
		"race_reports_in_repo":    raceInRepo,
	}
	if p.Exhaustive {
		cov["exhaustive"] = false // only sub-spaces are enumerated completely; see counters
	}
	ev := map[string]any{
		"property_id": p.ID,
		"tier":        string(s.Tier),
		"seed":        s.Seed,
		"level":       p.Level,
		"coverage":    cov,
		"assumptions": append([]string{"observed executions only: nothing is claimed about paths the workload did not drive"}, p.Assumptions...),
		"wall_s":      wall.Seconds(),
		"violations":  len(fresh),
		"verdict":     map[int]string{0: "held-on-observed", 1: "violated", 2: "inconclusive"}[exit],
		"replays":     replayPaths,
	}
	b, _ := json.MarshalIndent(ev, "", " ")
	evdir := filepath.Join(VerifRoot(), "evidence")
	os.MkdirAll(evdir, 0o755)
	tmp := filepath.Join(evdir, "."+p.ID+".json.tmp")
	if err := os.WriteFile(tmp, b, 0o644); err == nil {
		os.Rename(tmp, filepath.Join(evdir, p.ID+".json"))
	}
	fmt.Printf("%s %s seed=%d: %d cases, %d distinct non-trivial, %d violations, %d known-finding hits, %d inconclusive, %.1fs → exit %d\n",
		p.ID, s.Tier, s.Seed, evals, len(distinct), len(fresh), sumInts(knownSeen), inconcl, wall.Seconds(), exit)
	return exit
}

func sumInts(m map[string]int) int {
	t := 0
	for _, v := range m {
		t += v
	}
	return t
}

func summariseSets(sets map[string]map[string]int64) map[string]any {
	out := map[string]any{}
	for name, m := range sets {
		if len(m) <= 80 {
			out[name] = m
		} else {
			out[name] = map[string]any{"distinct": len(m)}
		}
	}
	return out
}

func writeWitness(p *Prop, s *Summary, r Result, v []Violation, tag string) string {
	dir := filepath.Join(VerifRoot(), "replays", p.ID)
	os.MkdirAll(dir, 0o755)
	name := fmt.Sprintf("seed%d-%s-%s-%d.json", s.Seed, s.Tier, r.Variant, r.Idx)
	if tag != "" {
		name = tag + "-" + name
	}
	path := filepath.Join(dir, name)
	w := witnessFile{Property: p.ID, Tier: s.Tier, Seed: s.Seed, Idx: r.Idx, Variant: r.Variant, Violations: v, Sample: r.Sample,
		Replay: "./run.sh replay " + path}
	b, _ := json.MarshalIndent(w, "", " ")
	os.WriteFile(path, b, 0o644)
	return path
}

// Replay re-executes the case named by a witness file, verbosely, in this process.
func Replay(path string) int {
	b, err := os.ReadFile(path)
	if err != nil {
		fmt.Println("replay:", err)
		return 2
	}
	var w witnessFile
	if err := json.Unmarshal(b, &w); err != nil {
		fmt.Println("replay:", err)
		return 2
	}
	p := Lookup(w.Property)
	if p == nil {
		fmt.Println("replay: unknown property", w.Property)
		return 2
	}
	if w.Idx < 0 {
		fmt.Println("replay: witness comes from a cross-process/post step or race log; re-run the whole check with VERIF_SEED=", w.Seed)
		return 2
	}
	if w.Variant != "default" && w.Variant != "" && os.Getenv("VERIF_REPLAY_CHILD") == "" {
		cmd := exec.Command(binFor(w.Variant), "replay", path)
		cmd.Env = append(os.Environ(), "VERIF_REPLAY_CHILD=1")
		cmd.Stdout, cmd.Stderr = os.Stdout, os.Stderr
		if err := cmd.Run(); err != nil {
			if ee, ok := err.(*exec.ExitError); ok {
				return ee.ExitCode()
			}
			return 2
		}
		return 0
	}
	os.Setenv("VERIF_TMP", filepath.Join(TmpRoot(), fmt.Sprintf("replay-%d", os.Getpid())))
	defer os.RemoveAll(os.Getenv("VERIF_TMP"))
	c := NewCase(p, w.Tier, w.Seed, w.Idx, w.Variant)
	c.Verbose = true
	res := RunCase(c)
	out, _ := json.MarshalIndent(res, "", " ")
	fmt.Println(string(out))
	if res.Verdict == "violated" {
		fmt.Printf("VIOLATION property=%s replay=%s\n", p.ID, path)
		return 1
	}
	return 0
}
