// Package tsdbx has helpers to observe a TSDB through its exported query API: canonical
// sample dumps (sample- and chunk-level) and comparators with first-difference witnesses.
package tsdbx

import (
	"context"
	"fmt"
	"log/slog"
	"math"
	"os"
	"sort"
	"strings"

	"github.com/prometheus/common/promslog"

	"github.com/prometheus/prometheus/model/histogram"
	"github.com/prometheus/prometheus/model/labels"
	"github.com/prometheus/prometheus/model/value"
	"github.com/prometheus/prometheus/storage"
	"github.com/prometheus/prometheus/tsdb/chunkenc"

	"verif/internal/gen"
)

// NopLogger discards everything unless VERIF_TSDB_LOG is set (debugging aid for replays).
func NopLogger() *slog.Logger {
	if os.Getenv("VERIF_TSDB_LOG") != "" {
		return slog.New(slog.NewTextHandler(os.Stderr, &slog.HandlerOptions{Level: slog.LevelInfo}))
	}
	return promslog.NewNopLogger()
}

// Sample is one observed sample in canonical form.
type Sample struct {
	T    int64
	Kind string // "f" | "h" | "fh"
	F    float64
	H    *histogram.Histogram
	FH   *histogram.FloatHistogram
}

// ValKey renders the value canonically (bitwise floats, layout-independent histograms).
func (s Sample) ValKey() string {
	switch s.Kind {
	case "f":
		return fmt.Sprintf("f:%016x", math.Float64bits(s.F))
	case "h":
		return "h:" + gen.HistKey(s.H)
	case "fh":
		return "fh:" + gen.FloatHistKey(s.FH)
	}
	return "?"
}

func (s Sample) String() string { return fmt.Sprintf("%d=%s", s.T, s.ValKey()) }

// Dump maps a series' labels.String() to its samples in returned order.
type Dump map[string][]Sample

func MatchAll() *labels.Matcher { return labels.MustNewMatcher(labels.MatchRegexp, "__name__", ".*") }

// IterSamples drains a sample iterator.
func IterSamples(it chunkenc.Iterator) ([]Sample, error) {
	var out []Sample
	for vt := it.Next(); vt != chunkenc.ValNone; vt = it.Next() {
		switch vt {
		case chunkenc.ValFloat:
			t, v := it.At()
			out = append(out, Sample{T: t, Kind: "f", F: v})
		case chunkenc.ValHistogram:
			t, h := it.AtHistogram(nil)
			out = append(out, Sample{T: t, Kind: "h", H: h.Copy()})
		case chunkenc.ValFloatHistogram:
			t, fh := it.AtFloatHistogram(nil)
			out = append(out, Sample{T: t, Kind: "fh", FH: fh.Copy()})
		}
	}
	return out, it.Err()
}

// DumpQuerier runs Select(sorted) with the matchers and drains everything.
// Series with zero samples are recorded with an empty slice.
func DumpQuerier(q storage.Querier, ms ...*labels.Matcher) (Dump, []string, error) {
	if len(ms) == 0 {
		ms = []*labels.Matcher{MatchAll()}
	}
	ss := q.Select(context.Background(), true, nil, ms...)
	d := Dump{}
	var order []string
	for ss.Next() {
		s := ss.At()
		key := s.Labels().String()
		smp, err := IterSamples(s.Iterator(nil))
		if err != nil {
			return d, order, fmt.Errorf("series %s: %w", key, err)
		}
		if _, dup := d[key]; dup {
			return d, order, fmt.Errorf("series %s returned twice by Select", key)
		}
		d[key] = smp
		order = append(order, key)
	}
	return d, order, ss.Err()
}

// DumpChunkQuerier drains a ChunkQuerier, decoding each chunk; returns the per-series samples
// (concatenated in chunk order) and per-series chunk metas [mint,maxt,numSamples].
func DumpChunkQuerier(q storage.ChunkQuerier, ms ...*labels.Matcher) (Dump, map[string][][3]int64, error) {
	if len(ms) == 0 {
		ms = []*labels.Matcher{MatchAll()}
	}
	ss := q.Select(context.Background(), true, nil, ms...)
	d := Dump{}
	metas := map[string][][3]int64{}
	for ss.Next() {
		s := ss.At()
		key := s.Labels().String()
		if _, dup := d[key]; dup {
			return d, metas, fmt.Errorf("series %s returned twice by chunk Select", key)
		}
		d[key] = nil
		it := s.Iterator(nil)
		for it.Next() {
			m := it.At()
			if m.Chunk == nil {
				return d, metas, fmt.Errorf("series %s: nil chunk", key)
			}
			smp, err := IterSamples(m.Chunk.Iterator(nil))
			if err != nil {
				return d, metas, fmt.Errorf("series %s chunk [%d,%d]: %w", key, m.MinTime, m.MaxTime, err)
			}
			metas[key] = append(metas[key], [3]int64{m.MinTime, m.MaxTime, int64(len(smp))})
			d[key] = append(d[key], smp...)
		}
		if err := it.Err(); err != nil {
			return d, metas, fmt.Errorf("series %s: %w", key, err)
		}
	}
	return d, metas, ss.Err()
}

// Expect is the model's view: series → timestamp → set of allowed value keys.
type Expect map[string]map[int64]map[string]bool

func (e Expect) Add(series string, t int64, valKey string) {
	m := e[series]
	if m == nil {
		m = map[int64]map[string]bool{}
		e[series] = m
	}
	if m[t] == nil {
		m[t] = map[string]bool{}
	}
	m[t][valKey] = true
}

// Set replaces the allowed values at (series,t) by exactly one.
func (e Expect) Set(series string, t int64, valKey string) {
	m := e[series]
	if m == nil {
		m = map[int64]map[string]bool{}
		e[series] = m
	}
	m[t] = map[string]bool{valKey: true}
}

func (e Expect) DeleteRange(series string, mint, maxt int64) {
	for t := range e[series] {
		if t >= mint && t <= maxt {
			delete(e[series], t)
		}
	}
}

func (e Expect) Clone() Expect {
	c := Expect{}
	for s, m := range e {
		c[s] = map[int64]map[string]bool{}
		for t, vs := range m {
			c[s][t] = map[string]bool{}
			for v := range vs {
				c[s][t][v] = true
			}
		}
	}
	return c
}

func (e Expect) NumSamples() int {
	n := 0
	for _, m := range e {
		n += len(m)
	}
	return n
}

// Compare checks an observed dump against the expectation restricted to [mint,maxt].
// It returns "" when they agree or a first-difference description.  Series that are expected
// to have no samples in range may be absent or empty.  Timestamps must be strictly increasing.
func Compare(e Expect, d Dump, mint, maxt int64) string {
	var keys []string
	for k := range d {
		keys = append(keys, k)
	}
	for k := range e {
		if _, ok := d[k]; !ok {
			keys = append(keys, k)
		}
	}
	sort.Strings(keys)
	for _, k := range keys {
		var want []int64
		for t := range e[k] {
			if t >= mint && t <= maxt {
				want = append(want, t)
			}
		}
		sort.Slice(want, func(i, j int) bool { return want[i] < want[j] })
		got := d[k]
		for i := 1; i < len(got); i++ {
			if got[i].T <= got[i-1].T {
				return fmt.Sprintf("series %s: timestamps not strictly increasing: %d then %d (duplicate or disorder)", k, got[i-1].T, got[i].T)
			}
		}
		gi := 0
		for _, t := range want {
			if gi >= len(got) || got[gi].T > t {
				return fmt.Sprintf("series %s: missing sample t=%d (expected one of %v); returned timestamps %v", k, t, keysOf(e[k][t]), tsOf(got))
			}
			if got[gi].T < t {
				return fmt.Sprintf("series %s: unexpected sample %s (not in model); expected timestamps %v", k, got[gi], want)
			}
			if !e[k][t][got[gi].ValKey()] {
				return fmt.Sprintf("series %s: wrong value at t=%d: got %s, allowed %v", k, t, got[gi].ValKey(), keysOf(e[k][t]))
			}
			gi++
		}
		if gi < len(got) {
			return fmt.Sprintf("series %s: unexpected sample %s (not in model); expected timestamps %v", k, got[gi], want)
		}
	}
	return ""
}

func keysOf(m map[string]bool) []string {
	var out []string
	for k := range m {
		out = append(out, k)
	}
	sort.Strings(out)
	return out
}

func tsOf(s []Sample) []int64 {
	out := make([]int64, len(s))
	for i, x := range s {
		out[i] = x.T
	}
	return out
}

// EqualDumps compares two dumps exactly (values by ValKey); empty series are ignored.
func EqualDumps(a, b Dump) string {
	keys := map[string]bool{}
	for k, v := range a {
		if len(v) > 0 {
			keys[k] = true
		}
	}
	for k, v := range b {
		if len(v) > 0 {
			keys[k] = true
		}
	}
	var ks []string
	for k := range keys {
		ks = append(ks, k)
	}
	sort.Strings(ks)
	for _, k := range ks {
		x, y := a[k], b[k]
		if len(x) != len(y) {
			return fmt.Sprintf("series %s: %d vs %d samples (%v vs %v)", k, len(x), len(y), tsOf(x), tsOf(y))
		}
		for i := range x {
			if x[i].T != y[i].T || cmpKey(x[i]) != cmpKey(y[i]) {
				return fmt.Sprintf("series %s: sample %d differs: %s vs %s", k, i, x[i], y[i])
			}
		}
	}
	return ""
}

// IsStale reports whether the sample is a staleness marker of any sample type.
func (s Sample) IsStale() bool {
	switch s.Kind {
	case "f":
		return value.IsStaleNaN(s.F)
	case "h":
		return s.H != nil && value.IsStaleNaN(s.H.Sum)
	case "fh":
		return s.FH != nil && value.IsStaleNaN(s.FH.Sum)
	}
	return false
}

// cmpKey: staleness markers compare equal whatever their sample type (a float marker logged for a
// series whose previous sample was a histogram is turned into a histogram marker depending on the
// series state at append or replay time; readers treat all of them alike).
func cmpKey(s Sample) string {
	if s.IsStale() {
		return "stale"
	}
	return s.ValKey()
}

// Brief renders a dump compactly for witnesses.
func (d Dump) Brief() string {
	var ks []string
	for k := range d {
		ks = append(ks, k)
	}
	sort.Strings(ks)
	var sb strings.Builder
	for _, k := range ks {
		fmt.Fprintf(&sb, "%s: %v\n", k, tsOf(d[k]))
	}
	return sb.String()
}
