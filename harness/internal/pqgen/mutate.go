package pqgen

import (
	"math/rand/v2"
	"sort"
	"strings"

	"github.com/prometheus/prometheus/promql/parser"
)

// vocabulary of the lexer: keywords, operators, punctuation, sample literals.
var vocab = func() []string {
	v := []string{
		"(", ")", "{", "}", "[", "]", ",", ":", "=", "!=", "=~", "!~", "==", "<", "<=", ">", ">=", "</", ">/", "+", "-", "*", "/", "%", "^", "@",
		"#", "\n", " ", "\t", "\"", "'", "`", "\\", "{{", "}}", "_", "x", ";",
		"1", "0", "1.5", "1e3", "0x1f", "Inf", "NaN", "5m", "1h30m", "1ms", "0s", "1y", "-1", ".5", "1e", "0x", "1_0", "1__0", "1.2.3", "5mm", "5mx",
		`"a"`, `'b'`, "`c`", `"\n"`, `"\x"`, `"\u12"`, `"\777"`, `"unterminated`, "`raw",
		"foo", "bar", "a:b", ":", "m", "__name__", "le", "job",
		"start()", "end()", "step()", "range()", "@ start()", "@ end()", "[5m]", "[5m:1m]", "[5m:]", "[:1m]", "[5m::]", "[]", "[step()]", "[1m+", "offset", "offset 5m", "offset -5m",
		"by (a)", "without ()", "on (a)", "ignoring (a)", "group_left (a)", "group_right", "bool", "fill(0)", "fill_left(1)", "fill_right(", "anchored", "smoothed",
		"\x00", "\xff", "\xc3", "é", "日本", " ", "�",
	}
	kws := parser.Keywords()
	sort.Strings(kws)
	v = append(v, kws...)
	fns := make([]string, 0, len(parser.Functions))
	for n := range parser.Functions {
		fns = append(fns, n)
	}
	sort.Strings(fns)
	v = append(v, fns...)
	return v
}()

// Mutate applies one edit to a query.
func Mutate(r *rand.Rand, s string) string {
	b := []byte(s)
	pos := func() int {
		if len(b) == 0 {
			return 0
		}
		return r.IntN(len(b) + 1)
	}
	switch r.IntN(9) {
	case 0: // delete a byte
		if len(b) > 0 {
			i := r.IntN(len(b))
			return string(b[:i]) + string(b[i+1:])
		}
	case 1: // insert a vocabulary token
		i := pos()
		return string(b[:i]) + vocab[r.IntN(len(vocab))] + string(b[i:])
	case 2: // replace a byte
		if len(b) > 0 {
			i := r.IntN(len(b))
			t := vocab[r.IntN(len(vocab))]
			return string(b[:i]) + t + string(b[i+1:])
		}
	case 3: // truncate
		return string(b[:pos()])
	case 4: // drop a prefix
		return string(b[pos():])
	case 5: // duplicate a slice
		i, j := pos(), pos()
		if i > j {
			i, j = j, i
		}
		return string(b[:j]) + string(b[i:j]) + string(b[j:])
	case 6: // delete a slice
		i, j := pos(), pos()
		if i > j {
			i, j = j, i
		}
		return string(b[:i]) + string(b[j:])
	case 7: // swap two bytes
		if len(b) > 1 {
			i, j := r.IntN(len(b)), r.IntN(len(b))
			b[i], b[j] = b[j], b[i]
			return string(b)
		}
	case 8: // random byte
		if len(b) > 0 {
			b[r.IntN(len(b))] = byte(r.IntN(256))
			return string(b)
		}
	}
	return s + vocab[r.IntN(len(vocab))]
}

// Soup returns a random sequence of vocabulary tokens.
func Soup(r *rand.Rand) string {
	n := 1 + r.IntN(12)
	var sb strings.Builder
	for i := 0; i < n; i++ {
		sb.WriteString(vocab[r.IntN(len(vocab))])
		if r.IntN(3) != 0 {
			sb.WriteByte(' ')
		}
	}
	return sb.String()
}

// Bytes returns arbitrary bytes biased towards PromQL's punctuation.
func Bytes(r *rand.Rand) string {
	n := r.IntN(24)
	b := make([]byte, n)
	const punct = "(){}[],:=!~<>+-*/%^@#\"'`\\ \n\t_.0123456789abcdefxXeEyYwWdDhHmMsSiInN"
	for i := range b {
		if r.IntN(4) == 0 {
			b[i] = byte(r.IntN(256))
		} else {
			b[i] = punct[r.IntN(len(punct))]
		}
	}
	return string(b)
}
