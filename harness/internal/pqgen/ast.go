package pqgen

import (
	"fmt"
	"math"
	"sort"
	"time"

	"github.com/prometheus/prometheus/promql/parser"
)

// Diff compares two parsed expressions structurally: node kinds, operators, operands, modifiers,
// durations (exact), numbers (bitwise; every NaN literal equals every NaN literal), strings,
// label matchers (as a multiset), grouping / matching label lists (in order; nil equals empty).
// Source positions and fields derived at evaluation time (Offset, Series, …) are ignored.
// It returns "" when equal, otherwise a path to the first difference.
func Diff(a, b parser.Expr) string {
	truncMs = false
	return diff("", a, b)
}

// DiffTruncMs is Diff with every duration (ranges, steps, offsets, duration-flagged number
// literals) truncated towards zero to whole milliseconds before comparison.
// Not safe for concurrent use with Diff (the harness runs one case per process at a time).
func DiffTruncMs(a, b parser.Expr) string {
	truncMs = true
	defer func() { truncMs = false }()
	return diff("", a, b)
}

var truncMs bool

func sameDur(a, b time.Duration) bool {
	if truncMs {
		return a/time.Millisecond == b/time.Millisecond
	}
	return a == b
}

func sameNum(x, y *parser.NumberLiteral) bool {
	if x.Duration != y.Duration {
		return false
	}
	if truncMs && x.Duration {
		return int64(x.Val*1e9)/1e6 == int64(y.Val*1e9)/1e6
	}
	return sameFloat(x.Val, y.Val)
}

func nilExpr(e parser.Expr) bool {
	if e == nil {
		return true
	}
	switch x := e.(type) {
	case *parser.DurationExpr:
		return x == nil
	case *parser.NumberLiteral:
		return x == nil
	}
	return false
}

func sameFloat(a, b float64) bool {
	if math.IsNaN(a) && math.IsNaN(b) {
		return true
	}
	return math.Float64bits(a) == math.Float64bits(b)
}

func sameStrings(a, b []string) bool {
	if len(a) != len(b) {
		return false
	}
	for i := range a {
		if a[i] != b[i] {
			return false
		}
	}
	return true
}

func samePtrF(a, b *float64) bool {
	if (a == nil) != (b == nil) {
		return false
	}
	return a == nil || sameFloat(*a, *b)
}

func samePtrI(a, b *int64) bool {
	if (a == nil) != (b == nil) {
		return false
	}
	return a == nil || *a == *b
}

func durExpr(path string, a, b *parser.DurationExpr) string {
	if (a == nil) != (b == nil) {
		return fmt.Sprintf("%s: duration expression %v vs %v", path, a, b)
	}
	if a == nil {
		return ""
	}
	return diff(path, a, b)
}

func diff(path string, a, b parser.Expr) string {
	if nilExpr(a) || nilExpr(b) {
		if nilExpr(a) && nilExpr(b) {
			return ""
		}
		return fmt.Sprintf("%s: nil vs non-nil (%v vs %v)", path, a, b)
	}
	switch x := a.(type) {
	case *parser.AggregateExpr:
		y, ok := b.(*parser.AggregateExpr)
		if !ok {
			return fmt.Sprintf("%s: %T vs %T", path, a, b)
		}
		if x.Op != y.Op || x.Without != y.Without || !sameStrings(x.Grouping, y.Grouping) {
			return fmt.Sprintf("%s: aggregation %v without=%v %q vs %v without=%v %q", path, x.Op, x.Without, x.Grouping, y.Op, y.Without, y.Grouping)
		}
		if d := diff(path+"/param", x.Param, y.Param); d != "" {
			return d
		}
		return diff(path+"/"+x.Op.String(), x.Expr, y.Expr)
	case *parser.BinaryExpr:
		y, ok := b.(*parser.BinaryExpr)
		if !ok {
			return fmt.Sprintf("%s: %T vs %T", path, a, b)
		}
		if x.Op != y.Op || x.ReturnBool != y.ReturnBool {
			return fmt.Sprintf("%s: binary %v bool=%v vs %v bool=%v", path, x.Op, x.ReturnBool, y.Op, y.ReturnBool)
		}
		vx, vy := x.VectorMatching, y.VectorMatching
		if (vx == nil) != (vy == nil) {
			return fmt.Sprintf("%s: vector matching %v vs %v", path, vx, vy)
		}
		if vx != nil {
			if vx.Card != vy.Card || vx.On != vy.On || !sameStrings(vx.MatchingLabels, vy.MatchingLabels) || !sameStrings(vx.Include, vy.Include) ||
				!samePtrF(vx.FillValues.LHS, vy.FillValues.LHS) || !samePtrF(vx.FillValues.RHS, vy.FillValues.RHS) {
				return fmt.Sprintf("%s: vector matching %s vs %s", path, fmtVM(vx), fmtVM(vy))
			}
		}
		if d := diff(path+"/lhs", x.LHS, y.LHS); d != "" {
			return d
		}
		return diff(path+"/rhs", x.RHS, y.RHS)
	case *parser.Call:
		y, ok := b.(*parser.Call)
		if !ok {
			return fmt.Sprintf("%s: %T vs %T", path, a, b)
		}
		if (x.Func == nil) != (y.Func == nil) || (x.Func != nil && x.Func.Name != y.Func.Name) || len(x.Args) != len(y.Args) {
			return fmt.Sprintf("%s: call %v/%d vs %v/%d", path, x.Func, len(x.Args), y.Func, len(y.Args))
		}
		for i := range x.Args {
			if d := diff(fmt.Sprintf("%s/%s[%d]", path, x.Func.Name, i), x.Args[i], y.Args[i]); d != "" {
				return d
			}
		}
		return ""
	case *parser.MatrixSelector:
		y, ok := b.(*parser.MatrixSelector)
		if !ok {
			return fmt.Sprintf("%s: %T vs %T", path, a, b)
		}
		if !sameDur(x.Range, y.Range) {
			return fmt.Sprintf("%s: range %v vs %v", path, x.Range, y.Range)
		}
		if d := durExpr(path+"/rangeexpr", x.RangeExpr, y.RangeExpr); d != "" {
			return d
		}
		return diff(path+"/matrix", x.VectorSelector, y.VectorSelector)
	case *parser.SubqueryExpr:
		y, ok := b.(*parser.SubqueryExpr)
		if !ok {
			return fmt.Sprintf("%s: %T vs %T", path, a, b)
		}
		if !sameDur(x.Range, y.Range) || !sameDur(x.Step, y.Step) || !sameDur(x.OriginalOffset, y.OriginalOffset) || !samePtrI(x.Timestamp, y.Timestamp) || x.StartOrEnd != y.StartOrEnd {
			return fmt.Sprintf("%s: subquery [%v:%v] offset %v @%v/%v vs [%v:%v] offset %v @%v/%v", path, x.Range, x.Step, x.OriginalOffset, fmtI(x.Timestamp), x.StartOrEnd, y.Range, y.Step, y.OriginalOffset, fmtI(y.Timestamp), y.StartOrEnd)
		}
		if d := durExpr(path+"/rangeexpr", x.RangeExpr, y.RangeExpr); d != "" {
			return d
		}
		if d := durExpr(path+"/stepexpr", x.StepExpr, y.StepExpr); d != "" {
			return d
		}
		if d := durExpr(path+"/offsetexpr", x.OriginalOffsetExpr, y.OriginalOffsetExpr); d != "" {
			return d
		}
		return diff(path+"/subquery", x.Expr, y.Expr)
	case *parser.NumberLiteral:
		y, ok := b.(*parser.NumberLiteral)
		if !ok {
			return fmt.Sprintf("%s: %T vs %T", path, a, b)
		}
		if !sameNum(x, y) {
			return fmt.Sprintf("%s: number %v (%016x, duration=%v) vs %v (%016x, duration=%v)", path, x.Val, math.Float64bits(x.Val), x.Duration, y.Val, math.Float64bits(y.Val), y.Duration)
		}
		return ""
	case *parser.ParenExpr:
		y, ok := b.(*parser.ParenExpr)
		if !ok {
			return fmt.Sprintf("%s: %T vs %T", path, a, b)
		}
		return diff(path+"/()", x.Expr, y.Expr)
	case *parser.StringLiteral:
		y, ok := b.(*parser.StringLiteral)
		if !ok {
			return fmt.Sprintf("%s: %T vs %T", path, a, b)
		}
		if x.Val != y.Val {
			return fmt.Sprintf("%s: string %q vs %q", path, x.Val, y.Val)
		}
		return ""
	case *parser.UnaryExpr:
		y, ok := b.(*parser.UnaryExpr)
		if !ok {
			return fmt.Sprintf("%s: %T vs %T", path, a, b)
		}
		if x.Op != y.Op {
			return fmt.Sprintf("%s: unary %v vs %v", path, x.Op, y.Op)
		}
		return diff(path+"/unary", x.Expr, y.Expr)
	case *parser.VectorSelector:
		y, ok := b.(*parser.VectorSelector)
		if !ok {
			return fmt.Sprintf("%s: %T vs %T", path, a, b)
		}
		if x.Name != y.Name || !sameDur(x.OriginalOffset, y.OriginalOffset) || !samePtrI(x.Timestamp, y.Timestamp) || x.StartOrEnd != y.StartOrEnd || x.Anchored != y.Anchored || x.Smoothed != y.Smoothed {
			return fmt.Sprintf("%s: selector %q offset %v @%v/%v anchored=%v smoothed=%v vs %q offset %v @%v/%v anchored=%v smoothed=%v", path,
				x.Name, x.OriginalOffset, fmtI(x.Timestamp), x.StartOrEnd, x.Anchored, x.Smoothed, y.Name, y.OriginalOffset, fmtI(y.Timestamp), y.StartOrEnd, y.Anchored, y.Smoothed)
		}
		if d := durExpr(path+"/offsetexpr", x.OriginalOffsetExpr, y.OriginalOffsetExpr); d != "" {
			return d
		}
		mx, my := matcherKeys(x), matcherKeys(y)
		if !sameStrings(mx, my) {
			return fmt.Sprintf("%s: matchers %q vs %q", path, mx, my)
		}
		return ""
	case *parser.DurationExpr:
		y, ok := b.(*parser.DurationExpr)
		if !ok {
			return fmt.Sprintf("%s: %T vs %T", path, a, b)
		}
		if x.Op != y.Op || x.Wrapped != y.Wrapped {
			return fmt.Sprintf("%s: duration expr %v wrapped=%v vs %v wrapped=%v", path, x.Op, x.Wrapped, y.Op, y.Wrapped)
		}
		if d := diff(path+"/dlhs", x.LHS, y.LHS); d != "" {
			return d
		}
		return diff(path+"/drhs", x.RHS, y.RHS)
	case *parser.StepInvariantExpr:
		y, ok := b.(*parser.StepInvariantExpr)
		if !ok {
			return fmt.Sprintf("%s: %T vs %T", path, a, b)
		}
		return diff(path, x.Expr, y.Expr)
	}
	return fmt.Sprintf("%s: unknown node type %T", path, a)
}

func fmtI(p *int64) string {
	if p == nil {
		return "nil"
	}
	return fmt.Sprint(*p)
}

func fmtVM(v *parser.VectorMatching) string {
	f := func(p *float64) string {
		if p == nil {
			return "nil"
		}
		return fmt.Sprintf("%v(%016x)", *p, math.Float64bits(*p))
	}
	return fmt.Sprintf("{card=%v on=%v labels=%q include=%q fill=%s/%s}", v.Card, v.On, v.MatchingLabels, v.Include, f(v.FillValues.LHS), f(v.FillValues.RHS))
}

func matcherKeys(v *parser.VectorSelector) []string {
	out := make([]string, 0, len(v.LabelMatchers))
	for _, m := range v.LabelMatchers {
		if m == nil {
			out = append(out, "<nil>")
			continue
		}
		out = append(out, fmt.Sprintf("%d|%q|%q", m.Type, m.Name, m.Value))
	}
	sort.Strings(out)
	return out
}

// Traits summarises what a parsed expression contains (used for narrow violation kinds and for
// deciding which laws apply).
type Traits struct {
	SubMsDuration bool // a range / step / offset that is not a whole number of milliseconds, or a duration literal that is not
	EmptySelector bool // a vector selector without name and without any matcher ("{}")
	PlusInfPowLHS bool // a binary ^ whose left operand is the number literal +Inf
	NegZeroDur    bool // a duration-flagged number literal with value -0
	// OffsetExprBeforeOp: an arithmetic binary operator whose left operand ends (in printed form) with
	// "offset <duration expression>", so that the operator is directly preceded by the duration expression.
	OffsetExprBeforeOp bool
	NodeKinds          map[string]int
}

func Inspect(e parser.Expr) Traits {
	t := Traits{NodeKinds: map[string]int{}}
	var walk func(e parser.Expr)
	walk = func(e parser.Expr) {
		if nilExpr(e) {
			return
		}
		t.NodeKinds[fmt.Sprintf("%T", e)]++
		switch x := e.(type) {
		case *parser.AggregateExpr:
			walk(x.Param)
			walk(x.Expr)
		case *parser.BinaryExpr:
			if nl, ok := x.LHS.(*parser.NumberLiteral); ok && x.Op == parser.POW && math.IsInf(nl.Val, 1) {
				t.PlusInfPowLHS = true
			}
			switch x.Op {
			case parser.ADD, parser.SUB, parser.MUL, parser.DIV, parser.MOD, parser.POW:
				if endsWithOffsetExpr(x.LHS) {
					t.OffsetExprBeforeOp = true
				}
			}
			walk(x.LHS)
			walk(x.RHS)
		case *parser.Call:
			for _, a := range x.Args {
				walk(a)
			}
		case *parser.MatrixSelector:
			if x.Range%1e6 != 0 {
				t.SubMsDuration = true
			}
			if x.RangeExpr != nil {
				walk(x.RangeExpr)
			}
			walk(x.VectorSelector)
		case *parser.SubqueryExpr:
			if x.Range%1e6 != 0 || x.Step%1e6 != 0 || x.OriginalOffset%1e6 != 0 {
				t.SubMsDuration = true
			}
			if x.RangeExpr != nil {
				walk(x.RangeExpr)
			}
			if x.StepExpr != nil {
				walk(x.StepExpr)
			}
			if x.OriginalOffsetExpr != nil {
				walk(x.OriginalOffsetExpr)
			}
			walk(x.Expr)
		case *parser.NumberLiteral:
			if x.Duration && x.Val == 0 && math.Signbit(x.Val) {
				t.NegZeroDur = true
			}
			if x.Duration {
				ns := x.Val * 1e9
				if ns != math.Trunc(ns) || math.Mod(ns, 1e6) != 0 {
					t.SubMsDuration = true
				}
			}
		case *parser.ParenExpr:
			walk(x.Expr)
		case *parser.UnaryExpr:
			walk(x.Expr)
		case *parser.VectorSelector:
			if x.Name == "" && len(x.LabelMatchers) == 0 {
				t.EmptySelector = true
			}
			if x.OriginalOffset%1e6 != 0 {
				t.SubMsDuration = true
			}
			if x.OriginalOffsetExpr != nil {
				walk(x.OriginalOffsetExpr)
			}
		case *parser.DurationExpr:
			walk(x.LHS)
			walk(x.RHS)
		}
	}
	walk(e)
	return t
}

// endsWithOffsetExpr reports whether the printed form of e ends with "offset <duration expression>".
func endsWithOffsetExpr(e parser.Expr) bool {
	switch x := e.(type) {
	case *parser.VectorSelector:
		return x.OriginalOffsetExpr != nil
	case *parser.MatrixSelector:
		if vs, ok := x.VectorSelector.(*parser.VectorSelector); ok {
			return vs.OriginalOffsetExpr != nil
		}
	case *parser.SubqueryExpr:
		return x.OriginalOffsetExpr != nil
	case *parser.BinaryExpr:
		return endsWithOffsetExpr(x.RHS)
	case *parser.UnaryExpr:
		return endsWithOffsetExpr(x.Expr)
	}
	return false
}
