package pqgen

import (
	"context"
	"errors"
	"fmt"
	"math"
	"runtime"
	"sort"
	"strings"
	"time"

	"github.com/prometheus/prometheus/model/histogram"
	"github.com/prometheus/prometheus/promql"
	"github.com/prometheus/prometheus/promql/parser"
	"github.com/prometheus/prometheus/storage"

	"verif/internal/gen"
)

// Res is the canonical, engine-independent copy of a query result (taken before Query.Close).
type Res struct {
	Stage    string // "" ok, "create" (rejected by NewXQuery: parse/type/validation), "exec"
	Err      string
	Internal bool // the error unwraps to runtime.Error or carries the evaluator's "unexpected error" wrapper
	Type     parser.ValueType
	// series (labels.String()) → timestamp → value key; scalars use the series "{}"
	Points  map[string]map[int64]string
	NPoints int
	Dup     string // a label set that occurred twice in a vector/matrix result ("" if none)
	DupPt   string // a series that has two samples of the same kind at one timestamp
	MixPt   string // a series that has a float and a histogram at one timestamp
	Str     string
	Warn    int
}

func (r *Res) OK() bool { return r.Stage == "" }

func fkey(f float64) string {
	if math.IsNaN(f) {
		return "f:NaN"
	}
	return fmt.Sprintf("f:%016x(%g)", math.Float64bits(f), f)
}

func nb(f float64) string {
	if math.IsNaN(f) {
		return "NaN"
	}
	return fmt.Sprintf("%x", math.Float64bits(f))
}

// hkey renders a float histogram by content: schema, zero threshold, zero count, count, sum,
// custom values and every non-empty bucket by absolute index (span layout is irrelevant).
func hkey(h *histogram.FloatHistogram) string {
	if h == nil {
		return "h:<nil>"
	}
	p, n := gen.BucketMapFloat(h)
	f := func(m map[int32]float64) string {
		ks := make([]int, 0, len(m))
		for k := range m {
			ks = append(ks, int(k))
		}
		sort.Ints(ks)
		var sb strings.Builder
		for _, k := range ks {
			fmt.Fprintf(&sb, "%d:%s ", k, nb(m[int32(k)]))
		}
		return sb.String()
	}
	cv := make([]string, len(h.CustomValues))
	for i, v := range h.CustomValues {
		cv[i] = nb(v)
	}
	return fmt.Sprintf("h:s=%d zt=%s zc=%s c=%s(%g) sum=%s(%g) cv=%v p=[%s] n=[%s]", h.Schema, nb(h.ZeroThreshold), nb(h.ZeroCount), nb(h.Count), h.Count, nb(h.Sum), h.Sum, cv, f(p), f(n))
}

func isInternal(err error) bool {
	var re runtime.Error
	if errors.As(err, &re) {
		return true
	}
	return strings.Contains(err.Error(), "unexpected error:")
}

func (r *Res) add(series string, t int64, key string) {
	m := r.Points[series]
	if m == nil {
		m = map[int64]string{}
		r.Points[series] = m
	}
	if old, dup := m[t]; dup && r.Dup != series {
		if old[0] != key[0] {
			r.MixPt = fmt.Sprintf("%s at t=%d", series, t)
		} else {
			r.DupPt = fmt.Sprintf("%s at t=%d", series, t)
		}
	}
	m[t] = key
	r.NPoints++
}

// Canon copies a promql.Result into canonical form.
func Canon(res *promql.Result) Res {
	out := Res{Points: map[string]map[int64]string{}}
	out.Warn = len(res.Warnings)
	if res.Err != nil {
		out.Stage = "exec"
		out.Err = res.Err.Error()
		out.Internal = isInternal(res.Err)
		return out
	}
	out.Type = res.Value.Type()
	switch v := res.Value.(type) {
	case promql.Scalar:
		out.add("{}", v.T, fkey(v.V))
	case promql.String:
		out.Str = v.V
	case promql.Vector:
		seen := map[string]bool{}
		for _, s := range v {
			k := s.Metric.String()
			if seen[k] {
				out.Dup = k
			}
			seen[k] = true
			if s.H != nil {
				out.add(k, s.T, hkey(s.H))
			} else {
				out.add(k, s.T, fkey(s.F))
			}
		}
	case promql.Matrix:
		seen := map[string]bool{}
		for _, s := range v {
			k := s.Metric.String()
			if seen[k] {
				out.Dup = k
			}
			seen[k] = true
			for _, p := range s.Floats {
				out.add(k, p.T, fkey(p.F))
			}
			for _, p := range s.Histograms {
				out.add(k, p.T, hkey(p.H))
			}
		}
	}
	return out
}

// Instant runs an instant query and returns its canonical result.
func Instant(eng *promql.Engine, q storage.Queryable, qs string, tms int64) Res {
	return InstantOpts(eng, q, nil, qs, time.UnixMilli(tms))
}

// InstantOpts is Instant with explicit query options and time.
func InstantOpts(eng *promql.Engine, q storage.Queryable, opts promql.QueryOpts, qs string, ts time.Time) Res {
	ctx := context.Background()
	qry, err := eng.NewInstantQuery(ctx, q, opts, qs, ts)
	if err != nil {
		return Res{Stage: "create", Err: err.Error(), Internal: isInternal(err) || errors.Is(err, parser.ErrUnexpected)}
	}
	defer qry.Close()
	return Canon(qry.Exec(ctx))
}

// Range runs a range query and returns its canonical result.
func Range(eng *promql.Engine, q storage.Queryable, qs string, startMs, endMs int64, step time.Duration) Res {
	return RangeOpts(eng, q, nil, qs, time.UnixMilli(startMs), time.UnixMilli(endMs), step)
}

// RangeOpts is Range with explicit query options and times.
func RangeOpts(eng *promql.Engine, q storage.Queryable, opts promql.QueryOpts, qs string, start, end time.Time, step time.Duration) Res {
	ctx := context.Background()
	qry, err := eng.NewRangeQuery(ctx, q, opts, qs, start, end, step)
	if err != nil {
		return Res{Stage: "create", Err: err.Error(), Internal: isInternal(err) || errors.Is(err, parser.ErrUnexpected)}
	}
	defer qry.Close()
	return Canon(qry.Exec(ctx))
}

// At returns the value keys of all series that have a point at t.
func (r *Res) At(t int64) map[string]string {
	out := map[string]string{}
	for s, m := range r.Points {
		if k, ok := m[t]; ok {
			out[s] = k
		}
	}
	return out
}

// DiffAt compares two series→value maps; "" when equal.
func DiffAt(a, b map[string]string, an, bn string) string {
	keys := map[string]bool{}
	for k := range a {
		keys[k] = true
	}
	for k := range b {
		keys[k] = true
	}
	ks := make([]string, 0, len(keys))
	for k := range keys {
		ks = append(ks, k)
	}
	sort.Strings(ks)
	for _, k := range ks {
		x, okx := a[k]
		y, oky := b[k]
		switch {
		case !okx:
			return fmt.Sprintf("series %s only in %s (= %s)", k, bn, y)
		case !oky:
			return fmt.Sprintf("series %s only in %s (= %s)", k, an, x)
		case x != y:
			return fmt.Sprintf("series %s: %s has %s, %s has %s", k, an, x, bn, y)
		}
	}
	return ""
}

// Equal compares two complete results (same timestamps); "" when equal.
func (r *Res) Equal(o *Res) string {
	if r.Stage != o.Stage {
		return fmt.Sprintf("outcome %q (%s) vs %q (%s)", r.Stage, r.Err, o.Stage, o.Err)
	}
	if r.Stage != "" {
		return ""
	}
	if r.Type != o.Type || r.Str != o.Str {
		return fmt.Sprintf("type/string %v %q vs %v %q", r.Type, r.Str, o.Type, o.Str)
	}
	keys := map[string]bool{}
	for k := range r.Points {
		keys[k] = true
	}
	for k := range o.Points {
		keys[k] = true
	}
	ks := make([]string, 0, len(keys))
	for k := range keys {
		ks = append(ks, k)
	}
	sort.Strings(ks)
	for _, k := range ks {
		a, b := r.Points[k], o.Points[k]
		if len(a) != len(b) {
			return fmt.Sprintf("series %s: %d vs %d points", k, len(a), len(b))
		}
		for t, x := range a {
			if y, ok := b[t]; !ok || x != y {
				return fmt.Sprintf("series %s at t=%d: %s vs %s", k, t, x, y)
			}
		}
	}
	return ""
}

// NewEngine builds an engine with all optional syntax enabled.
func NewEngine(lookback time.Duration, subqStepMs int64, delayedNameRemoval bool) *promql.Engine {
	return NewEngineMax(lookback, subqStepMs, delayedNameRemoval, 50_000_000)
}

// NewEngineMax is NewEngine with an explicit sample limit.
func NewEngineMax(lookback time.Duration, subqStepMs int64, delayedNameRemoval bool, maxSamples int) *promql.Engine {
	return promql.NewEngine(promql.EngineOpts{
		MaxSamples:               maxSamples,
		Timeout:                  10 * time.Minute,
		LookbackDelta:            lookback,
		NoStepSubqueryIntervalFn: func(int64) int64 { return subqStepMs },
		EnableAtModifier:         true,
		EnableNegativeOffset:     true,
		EnableDelayedNameRemoval: delayedNameRemoval,
		Parser:                   parser.NewParser(Features{true, true, true, true}.Options()),
	})
}
