package pqgen

import (
	"context"
	"fmt"
	"math"
	"math/rand/v2"
	"sort"
	"time"

	"github.com/prometheus/prometheus/model/histogram"
	"github.com/prometheus/prometheus/model/labels"
	"github.com/prometheus/prometheus/model/value"
	"github.com/prometheus/prometheus/tsdb"

	"verif/internal/gen"
)

// Dataset is a TSDB filled with generated float / histogram / mixed series for query checks.
type Dataset struct {
	DB       *tsdb.DB
	T0, T1   int64 // first and last sample time (ms)
	Series   int
	Samples  int
	Stale    int
	Gaps     int // gaps longer than 5 minutes
	Spacing  int64
	HasMixed bool
	Cfg      Config // metric / label vocabulary (only the vocabulary fields are set)
}

func (d *Dataset) Close() { d.DB.Close() }

type seriesSpec struct {
	ls    labels.Labels
	kind  string // gauge counter up distinct hist fhist nhcb bucket info mixed hostile
	idx   int
	t     int64
	alive bool
	f     float64
	h     *gen.AbsHist
	le    float64
	until int // rounds
	from  int
}

// BuildDataset creates a TSDB in dir (WAL disabled) and fills it.  hostile adds NaN/±Inf/huge
// values, stale markers inside every kind of series and series that switch between floats and
// histograms.
func BuildDataset(r *rand.Rand, dir string, hostile bool) (*Dataset, error) {
	opts := tsdb.DefaultOptions()
	opts.MinBlockDuration = int64(24 * time.Hour / time.Millisecond)
	opts.MaxBlockDuration = int64(24 * time.Hour / time.Millisecond)
	opts.RetentionDuration = 0
	opts.WALSegmentSize = -1
	opts.NoLockfile = true
	db, err := tsdb.Open(dir, nil, nil, opts, tsdb.NewDBStats())
	if err != nil {
		return nil, err
	}
	db.DisableCompactions()
	d := &Dataset{DB: db}
	spacing := pick(r, []int64{1000, 5000, 15000, 15000, 30000, 60000})
	d.Spacing = spacing
	base := int64(1_700_000_000_000) + int64(r.IntN(86400))*1000
	if r.IntN(4) == 0 {
		base += int64(r.IntN(1000)) // not aligned to seconds
	}
	rounds := 30 + r.IntN(50)

	jobs := []string{"api", "db"}
	insts := []string{"a", "b", "c"}
	var specs []*seriesSpec
	add := func(kind string, ls labels.Labels) *seriesSpec {
		s := &seriesSpec{ls: ls, kind: kind, idx: len(specs), alive: true, until: rounds, from: 0}
		if r.IntN(6) == 0 {
			s.from = r.IntN(rounds / 2)
		}
		if r.IntN(6) == 0 {
			s.until = rounds/2 + r.IntN(rounds/2)
		}
		specs = append(specs, s)
		return s
	}
	for _, j := range jobs {
		for _, i := range insts {
			if r.IntN(5) == 0 {
				continue
			}
			add("gauge", labels.FromStrings("__name__", "m", "job", j, "instance", i))
			add("counter", labels.FromStrings("__name__", "http_requests_total", "job", j, "instance", i))
			if r.IntN(2) == 0 {
				add("up", labels.FromStrings("__name__", "up", "job", j, "instance", i))
			}
			add("distinct", labels.FromStrings("__name__", "dist", "job", j, "instance", i))
		}
	}
	add("gauge", labels.FromStrings("__name__", "m", "job", "api", "instance", "a", "env", "prod"))
	nh := 2 + r.IntN(3)
	for k := 0; k < nh; k++ {
		kind := pick(r, []string{"hist", "hist", "fhist", "nhcb"})
		s := add(kind, labels.FromStrings("__name__", "h", "job", jobs[k%2], "instance", insts[k%3]))
		s.h = gen.NewAbsHist(r, kind == "nhcb")
		if kind != "nhcb" && s.h.Schema == histogram.CustomBucketsSchema {
			s.h = gen.NewAbsHist(r, false)
		}
		if kind == "nhcb" {
			for s.h.Schema != histogram.CustomBucketsSchema {
				s.h = gen.NewAbsHist(r, true)
			}
		}
	}
	for _, i := range insts[:2] {
		for _, le := range []float64{0.1, 1, 10, math.Inf(1)} {
			s := add("bucket", labels.FromStrings("__name__", "req_bucket", "job", "api", "instance", i, "le", fmtLe(le)))
			s.le = le
			s.from, s.until = 0, rounds
		}
	}
	for _, i := range insts {
		add("info", labels.FromStrings("__name__", "target_info", "job", "api", "instance", i, "version", "v"+i))
	}
	if hostile {
		add("mixed", labels.FromStrings("__name__", "mixed", "job", "api", "instance", "a"))
		add("mixed", labels.FromStrings("__name__", "mixed", "job", "db", "instance", "b"))
		add("hostile", labels.FromStrings("__name__", "weird", "job", "api", "instance", "a"))
		add("hostile", labels.FromStrings("__name__", "weird", "job", "db", "instance", "c"))
		d.HasMixed = true
	}
	d.Series = len(specs)
	for _, s := range specs {
		s.t = base + int64(r.IntN(int(spacing)))
		switch s.kind {
		case "gauge":
			s.f = float64(r.IntN(200)) / 4
		case "counter", "bucket":
			s.f = float64(r.IntN(50))
		}
	}
	d.T0 = math.MaxInt64
	ctx := context.Background()
	gapLeft := map[int]int{}
	for round := 0; round < rounds; round++ {
		app := db.Appender(ctx)
		n := 0
		for _, s := range specs {
			// advance the clock of this series
			jitter := int64(0)
			if spacing >= 5000 {
				jitter = int64(r.IntN(int(spacing/5))) - spacing/10
			}
			s.t += spacing + jitter
			if round < s.from || round >= s.until {
				continue
			}
			if gapLeft[s.idx] > 0 {
				gapLeft[s.idx]--
				continue
			}
			switch {
			case r.IntN(20) == 0:
				gapLeft[s.idx] = 1 + r.IntN(3)
				continue
			case r.IntN(60) == 0:
				// a gap longer than any lookback used (5m)
				s.t += 6 * 60 * 1000
				d.Gaps++
			}
			staleNow := r.IntN(30) == 0 && (hostile || s.kind == "gauge" || s.kind == "counter" || s.kind == "hist" || s.kind == "fhist" || s.kind == "up")
			var err error
			switch s.kind {
			case "gauge":
				s.f += float64(r.IntN(41)-20) / 4
				v := s.f
				if staleNow {
					v = math.Float64frombits(value.StaleNaN)
				}
				_, err = app.Append(0, s.ls, s.t, v)
			case "up":
				v := float64(1)
				if r.IntN(6) == 0 {
					v = 0
				}
				if staleNow {
					v = math.Float64frombits(value.StaleNaN)
				}
				_, err = app.Append(0, s.ls, s.t, v)
			case "counter", "bucket":
				if r.IntN(25) == 0 && s.kind == "counter" {
					s.f = float64(r.IntN(3)) // reset
				} else {
					inc := float64(r.IntN(20))
					if s.kind == "bucket" {
						// cumulative in le: larger buckets grow at least as fast
						inc = float64(r.IntN(5)) * (1 + math.Min(s.le, 20))
						if math.IsInf(s.le, 1) {
							inc = float64(r.IntN(5)) * 25
						}
					}
					s.f += inc
				}
				v := s.f
				if staleNow {
					v = math.Float64frombits(value.StaleNaN)
				}
				_, err = app.Append(0, s.ls, s.t, v)
			case "distinct":
				// pairwise distinct over all series and rounds, never NaN, exactly representable
				_, err = app.Append(0, s.ls, s.t, float64(round*1024+s.idx)+0.5)
			case "info":
				_, err = app.Append(0, s.ls, s.t, 1)
			case "hist", "fhist", "nhcb":
				if staleNow {
					if s.kind == "fhist" {
						_, err = app.AppendHistogram(0, s.ls, s.t, nil, gen.StaleFloatHist())
					} else {
						_, err = app.AppendHistogram(0, s.ls, s.t, gen.StaleHist(), nil)
					}
					break
				}
				s.h = s.h.Mutate(r)
				if s.kind == "nhcb" && s.h.Schema != histogram.CustomBucketsSchema {
					s.h = gen.NewAbsHist(r, true)
					for s.h.Schema != histogram.CustomBucketsSchema {
						s.h = gen.NewAbsHist(r, true)
					}
				}
				if s.kind == "fhist" {
					_, err = app.AppendHistogram(0, s.ls, s.t, nil, s.h.Float(r))
				} else {
					_, err = app.AppendHistogram(0, s.ls, s.t, s.h.Int(r), nil)
				}
			case "mixed":
				if r.IntN(3) == 0 {
					if s.h == nil {
						s.h = gen.NewAbsHist(r, false)
					} else {
						s.h = s.h.Mutate(r)
					}
					_, err = app.AppendHistogram(0, s.ls, s.t, nil, s.h.Float(r))
				} else {
					_, err = app.Append(0, s.ls, s.t, gen.Float(r, true))
				}
			case "hostile":
				_, err = app.Append(0, s.ls, s.t, gen.Float(r, true))
			}
			if err != nil {
				app.Rollback()
				db.Close()
				return nil, fmt.Errorf("append %s t=%d: %w", s.ls, s.t, err)
			}
			if staleNow {
				d.Stale++
			}
			n++
			d.Samples++
			if s.t < d.T0 {
				d.T0 = s.t
			}
			if s.t > d.T1 {
				d.T1 = s.t
			}
		}
		if n == 0 {
			app.Rollback()
			continue
		}
		if err := app.Commit(); err != nil {
			db.Close()
			return nil, fmt.Errorf("commit round %d: %w", round, err)
		}
	}
	d.Cfg = Config{
		FloatMetrics:    []string{"m", "http_requests_total", "up"},
		DistinctMetrics: []string{"dist"},
		HistMetrics:     []string{"h"},
		BucketMetrics:   []string{"req_bucket"},
		InfoMetrics:     []string{"target_info"},
		LabelNames:      []string{"job", "instance", "job", "instance", "job", "instance", "env", "le", "version"},
		LabelValues:     []string{"api", "db", "a", "b", "c", "prod", "1", "+Inf", "va"},
		LabelValuesFor: map[string][]string{
			"job": {"api", "db"}, "instance": {"a", "b", "c"}, "env": {"prod"}, "le": {"0.1", "1", "10", "+Inf"}, "version": {"va", "vb", "vc"},
		},
	}
	if hostile {
		d.Cfg.FloatMetrics = append(d.Cfg.FloatMetrics, "weird", "mixed")
		d.Cfg.HistMetrics = append(d.Cfg.HistMetrics, "mixed")
	}
	sp := time.Duration(spacing) * time.Millisecond
	durs := map[time.Duration]bool{}
	for _, m := range []float64{0.5, 1, 1.5, 2, 3, 4, 5, 10, 20, 40} {
		x := time.Duration(float64(sp) * m).Truncate(time.Millisecond)
		if x > 0 {
			durs[x] = true
		}
	}
	durs[time.Minute] = true
	durs[5*time.Minute] = true
	durs[time.Second] = true
	for x := range durs {
		d.Cfg.Durations = append(d.Cfg.Durations, x)
	}
	sort.Slice(d.Cfg.Durations, func(i, j int) bool { return d.Cfg.Durations[i] < d.Cfg.Durations[j] })
	span := d.T1 - d.T0
	for i := 0; i < 6; i++ {
		d.Cfg.AtTimes = append(d.Cfg.AtTimes, d.T0+int64(r.Int64N(span+1)))
	}
	d.Cfg.AtTimes = append(d.Cfg.AtTimes, d.T0-1000, d.T1+1000, (d.T0+span/2)/1000*1000)
	return d, nil
}

func fmtLe(le float64) string {
	if math.IsInf(le, 1) {
		return "+Inf"
	}
	return fmt.Sprint(le)
}
