// Package pqgen is a typed PromQL query generator (text output) shared by C26, C27 and C33.
//
// Queries are generated as text from a small typed grammar of our own (not via the
// repository's printer), so that the generated surface syntax is independent of
// promql/parser/printer.go.  The function table (names, argument types, variadic counts) is
// taken from parser.Functions, which is the documented interface of the language.
package pqgen

import (
	"fmt"
	"math/rand/v2"
	"sort"
	"strconv"
	"strings"
	"time"

	"github.com/prometheus/common/model"

	"github.com/prometheus/prometheus/promql/parser"
)

// Features are the four optional syntax features of parser.Options.
type Features struct{ Experimental, DurationExpr, Extended, Fill bool }

func (f Features) Options() parser.Options {
	return parser.Options{
		EnableExperimentalFunctions:  f.Experimental,
		ExperimentalDurationExpr:     f.DurationExpr,
		EnableExtendedRangeSelectors: f.Extended,
		EnableBinopFillModifiers:     f.Fill,
	}
}

func (f Features) String() string {
	b := func(x bool) byte {
		if x {
			return '1'
		}
		return '0'
	}
	return "exp=" + string(b(f.Experimental)) + ",dur=" + string(b(f.DurationExpr)) + ",ext=" + string(b(f.Extended)) + ",fill=" + string(b(f.Fill))
}

// AllFeatureCombos returns the 16 combinations in a fixed order (index bit0=Experimental …).
func AllFeatureCombos() []Features {
	out := make([]Features, 16)
	for i := range out {
		out[i] = Features{i&1 != 0, i&2 != 0, i&4 != 0, i&8 != 0}
	}
	return out
}

// Config steers the generator.
type Config struct {
	FloatMetrics    []string // float series
	DistinctMetrics []string // float series whose values are pairwise distinct over all series and times and never NaN
	HistMetrics     []string // native histogram series
	BucketMetrics   []string // classic histogram bucket series (label le)
	InfoMetrics     []string // info metrics (for info())
	LabelNames      []string
	LabelValues     []string
	LabelValuesFor  map[string][]string // optional: values that occur for a given label name
	Durations       []time.Duration     // candidates for ranges / steps / offsets
	AtTimes         []int64             // candidate "@ <ms>" times

	Allow      Features // optional syntax that may be used
	At         bool     // "@ <fixed>"
	AtStartEnd bool     // "@ start()", "@ end()"
	RangeRefs  bool     // start(), end(), range(), step() (functions and duration expressions)
	TimeFuncs  bool     // time(), predict_linear(), date functions without argument
	NegOffset  bool

	// Deterministic restricts generation to queries whose result (as a set of series with values)
	// does not depend on the order in which the engine happens to visit the input series of an
	// order-sensitive operation: floating-point accumulations over series (sum, avg, stddev,
	// stdvar), topk/bottomk tie breaking and limitk only receive inputs whose series order is the
	// storage order (selectors, range-vector functions over them, order-preserving wrappers), and
	// topk/bottomk with small k only see DistinctMetrics selectors.
	Deterministic bool
	Surface       bool // lexical variety: comments, whitespace, keyword case, number formats, quoting, UTF-8 names
	Hostile       bool // hostile parameters (NaN/Inf/huge k, invalid regexes and label names)
	AnyTopType    bool // top level may be matrix or string typed too
	IllTyped      int  // n>0: every operand slot gets a wrong type with probability 1/n
	MaxDepth      int

	// TopOffset is added to the offset of every selector and subquery that is not nested inside a
	// subquery.  It does not influence any random draw: two generators with equal seeds and
	// different TopOffset produce the same query up to these offsets.
	TopOffset time.Duration
}

// Gen generates queries. After Query(): Needs tells which optional features the text uses
// (by construction), Kinds which node kinds were emitted, Flags other traits.
type Gen struct {
	R     *rand.Rand
	C     Config
	Needs Features
	Kinds map[string]int
	Flags map[string]bool

	subq int
}

func New(r *rand.Rand, c Config) *Gen {
	if c.MaxDepth <= 0 {
		c.MaxDepth = 3
	}
	if len(c.Durations) == 0 {
		c.Durations = []time.Duration{time.Second, 15 * time.Second, 30 * time.Second, time.Minute, 5 * time.Minute, 90 * time.Second, time.Hour}
	}
	if len(c.LabelNames) == 0 {
		c.LabelNames = []string{"job", "instance", "a", "le"}
	}
	if len(c.LabelValues) == 0 {
		c.LabelValues = []string{"x", "y", "1", "prod"}
	}
	if len(c.FloatMetrics) == 0 {
		c.FloatMetrics = []string{"m", "up", "http_requests_total"}
	}
	return &Gen{R: r, C: c, Kinds: map[string]int{}, Flags: map[string]bool{}}
}

type flavor int

const (
	flAny flavor = iota
	flFloat
	flHist
	flBucket
	flDistinct
)

// ex is a generated sub-expression.
type ex struct {
	s    string
	atom bool // may take a postfix ([..], offset) / be an operand without parentheses
}

func (g *Gen) kind(k string) { g.Kinds[k]++ }
func (g *Gen) chance(n int) bool {
	return g.R.IntN(n) == 0
}
func pick[T any](r *rand.Rand, xs []T) T { return xs[r.IntN(len(xs))] }

// Query generates one query; the intended type of the top-level expression is returned.
func (g *Gen) Query() (string, parser.ValueType) {
	g.Needs = Features{}
	g.Kinds = map[string]int{}
	g.Flags = map[string]bool{}
	g.subq = 0
	d := 1 + g.R.IntN(g.C.MaxDepth)
	var e ex
	typ := parser.ValueTypeVector
	switch n := g.R.IntN(40); {
	case n < 5:
		typ = parser.ValueTypeScalar
		e = g.sca(d)
	case n == 8 && g.C.AnyTopType:
		typ = parser.ValueTypeMatrix
		e = g.mat(d, flAny, false)
	case n == 9 && g.C.AnyTopType:
		typ = parser.ValueTypeString
		e = ex{g.str("any"), true}
	default:
		e = g.vec(d, flAny, false)
	}
	s := e.s
	if g.C.Surface {
		s = respace(g.R, s)
	}
	return s, typ
}

// ---------------------------------------------------------------- typed slots

// slot generates an operand of the wanted type, or (IllTyped) sometimes another type.
func (g *Gen) slot(want parser.ValueType, d int, fl flavor, needO bool) ex {
	if g.C.IllTyped > 0 && g.R.IntN(g.C.IllTyped) == 0 {
		g.Flags["ill_typed"] = true
		others := []parser.ValueType{parser.ValueTypeVector, parser.ValueTypeScalar, parser.ValueTypeMatrix, parser.ValueTypeString}
		want = pick(g.R, others)
	}
	switch want {
	case parser.ValueTypeScalar:
		return g.sca(d)
	case parser.ValueTypeMatrix:
		return g.mat(d, fl, needO)
	case parser.ValueTypeString:
		return ex{g.str("any"), true}
	default:
		return g.vec(d, fl, needO)
	}
}

// ---------------------------------------------------------------- vectors

func (g *Gen) vec(d int, fl flavor, needO bool) ex {
	if d <= 0 {
		return g.selector(fl, false)
	}
	type opt struct {
		w int
		f func() ex
	}
	det := g.C.Deterministic
	free := !(det && needO) // operations that scramble series order are allowed
	opts := []opt{
		{4, func() ex { return g.selector(fl, false) }},
		{4, func() ex { return g.rangeCall(d, fl, needO) }},
		{4, func() ex { return g.aggr(d, fl, needO) }},
		{1, func() ex { g.kind("paren"); return ex{"(" + g.vec(d-1, fl, needO).s + ")", true} }},
		{1, func() ex { return g.labelFunc(d, fl, needO) }},
		{1, func() ex { return g.singleSeries(d) }},
	}
	if free {
		opts = append(opts,
			opt{5, func() ex { return g.binary(d, fl) }},
			opt{3, func() ex { return g.instantCall(d, fl) }},
			opt{1, func() ex { return g.unary(g.vec(d-1, fl, false)) }},
			opt{1, func() ex { return g.histCall(d) }},
			opt{1, func() ex { return g.kAggr(d, fl) }},
		)
		if g.C.Allow.Experimental && !det && len(g.C.InfoMetrics) > 0 {
			opts = append(opts, opt{1, func() ex { return g.infoCall(d) }})
		}
	} else {
		// unary plus keeps the series order (unary minus may merge series)
		opts = append(opts, opt{1, func() ex { g.kind("unary"); return ex{"+" + g.operand(g.vec(d-1, fl, needO)), false} }})
	}
	tot := 0
	for _, o := range opts {
		tot += o.w
	}
	n := g.R.IntN(tot)
	for _, o := range opts {
		if n < o.w {
			return o.f()
		}
		n -= o.w
	}
	return g.selector(fl, false)
}

func (g *Gen) operand(e ex) string {
	if e.atom {
		return e.s
	}
	return "(" + e.s + ")"
}

func (g *Gen) unary(e ex) ex {
	g.kind("unary")
	op := "-"
	if g.chance(4) {
		op = "+"
	}
	// sometimes without parentheses around a binary operand: precedence-sensitive spot
	if e.atom || g.chance(3) {
		return ex{op + e.s, false}
	}
	return ex{op + "(" + e.s + ")", false}
}

func (g *Gen) metric(fl flavor) string {
	c := &g.C
	var pool []string
	switch fl {
	case flFloat:
		pool = append(append([]string{}, c.FloatMetrics...), c.DistinctMetrics...)
	case flHist:
		pool = c.HistMetrics
	case flBucket:
		pool = c.BucketMetrics
	case flDistinct:
		pool = c.DistinctMetrics
	}
	if len(pool) == 0 {
		pool = append(pool, c.FloatMetrics...)
		pool = append(pool, c.FloatMetrics...) // floats twice as likely
		pool = append(pool, c.DistinctMetrics...)
		pool = append(pool, c.HistMetrics...)
		pool = append(pool, c.HistMetrics...)
		pool = append(pool, c.BucketMetrics...)
	}
	return pick(g.R, pool)
}

var keywordMetrics = []string{"sum", "avg", "by", "without", "offset", "start", "end", "step", "range", "anchored", "smoothed", "fill", "fill_left", "fill_right", "group", "count_values", "min_of", "max_of", "and", "or", "unless", "limitk", "topk", "quantile"}
var keywordLabels = []string{"on", "ignoring", "group_left", "group_right", "bool", "atan2", "by", "sum", "offset", "fill", "start", "step", "anchored", "le"}
var utf8Names = []string{"http.requests", "my metric", "très", "日本", "a-b", "with\"quote", "0lead", "a:b"}

func (g *Gen) labelName() string {
	if g.C.Surface && g.chance(6) {
		if g.chance(2) {
			return pick(g.R, keywordLabels)
		}
		return pick(g.R, utf8Names)
	}
	return pick(g.R, g.C.LabelNames)
}

func (g *Gen) labelValue(l string) string {
	if vs := g.C.LabelValuesFor[l]; len(vs) > 0 && !g.chance(5) {
		return pick(g.R, vs)
	}
	return pick(g.R, g.C.LabelValues)
}

func isPlainIdent(s string, colonOK bool) bool {
	if s == "" {
		return false
	}
	for i, c := range s {
		switch {
		case c == '_' || (c >= 'a' && c <= 'z') || (c >= 'A' && c <= 'Z'):
		case c >= '0' && c <= '9' && i > 0:
		case c == ':' && colonOK:
		default:
			return false
		}
	}
	return true
}

// labelList renders "(a, b)" for by/without/on/ignoring/group_left.
func (g *Gen) labelList(min int) string {
	n := min + g.R.IntN(3)
	if g.chance(8) {
		n = min
	}
	var parts []string
	for i := 0; i < n; i++ {
		l := g.labelName()
		if !isPlainIdent(l, false) || (g.C.Surface && g.chance(8)) {
			l = g.quote(l)
		}
		parts = append(parts, l)
	}
	s := strings.Join(parts, ", ")
	if g.C.Surface && n > 0 && g.chance(8) {
		s += ","
	}
	return "(" + s + ")"
}

// quote renders a string literal for the given value with a random legal quoting style.
func (g *Gen) quote(v string) string {
	if !g.C.Surface {
		return strconv.Quote(v)
	}
	switch g.R.IntN(4) {
	case 0:
		if !strings.ContainsAny(v, "`") && validRaw(v) {
			return "`" + v + "`"
		}
	case 1:
		q := strconv.Quote(v)
		q = q[1 : len(q)-1]
		q = strings.ReplaceAll(q, `\"`, `"`)
		q = strings.ReplaceAll(q, `'`, `\'`)
		return "'" + q + "'"
	}
	return strconv.Quote(v)
}

func validRaw(v string) bool {
	for _, c := range v {
		if c == 0xFFFD {
			return false
		}
	}
	return true
}

func (g *Gen) matchers(name string, forceNameInside bool) (string, bool) {
	// returns the "{...}" part (possibly empty) and whether the metric name went inside
	var ms []string
	inside := forceNameInside
	if inside {
		switch {
		case g.C.Surface && g.chance(2):
			ms = append(ms, g.quote(name)) // {"name"}
		default:
			ms = append(ms, "__name__="+g.quote(name))
		}
	}
	n := g.R.IntN(3)
	if g.chance(2) {
		n = 0
	}
	for i := 0; i < n; i++ {
		l := g.labelName()
		if !g.C.Surface && !g.C.Hostile && name != "" && len(g.C.LabelNames) > 1 && g.chance(2) {
			l = g.C.LabelNames[g.R.IntN(2)] // the first two names are expected to exist on every series
		}
		if l == "le" && g.chance(2) {
			continue
		}
		op := pick(g.R, []string{"=", "=", "!=", "=~", "=~", "!~"})
		var v string
		switch op {
		case "=", "!=":
			v = g.labelValue(l)
			if g.chance(10) {
				v = ""
			}
		default:
			a, b := g.labelValue(l), g.labelValue(l)
			v = pick(g.R, []string{a + "|" + b, a + ".*", ".+", ".*", "[" + a + "]+", a, "(?i:" + a + ")"})
			if g.C.Hostile && g.chance(12) {
				v = pick(g.R, []string{"(", "a{2,1}", "[", "\\"})
				g.Flags["hostile_param"] = true
			}
		}
		if !isPlainIdent(l, false) || (g.C.Surface && g.chance(10)) {
			l = g.quote(l)
		}
		ms = append(ms, l+op+g.quote(v))
	}
	if len(ms) == 0 {
		if g.C.Surface && !inside && g.chance(12) {
			return "{}", inside
		}
		return "", inside
	}
	if g.chance(2) {
		g.R.Shuffle(len(ms), func(i, j int) { ms[i], ms[j] = ms[j], ms[i] })
	}
	s := strings.Join(ms, ",")
	if g.C.Surface && g.chance(8) {
		s += ","
	}
	return "{" + s + "}", inside
}

// selBase renders a vector selector without modifiers.
func (g *Gen) selBase(fl flavor) string {
	name := g.metric(fl)
	if g.C.Surface && g.chance(8) {
		if g.chance(2) {
			name = pick(g.R, keywordMetrics)
		} else {
			name = pick(g.R, utf8Names)
		}
	}
	if g.chance(12) && fl != flDistinct {
		// regex on the metric name
		g.Flags["name_regex"] = true
		other := g.metric(fl)
		m, _ := g.matchers("", false)
		inner := "__name__=~" + g.quote(name+"|"+other)
		if m != "" && m != "{}" {
			return "{" + inner + "," + m[1:]
		}
		return "{" + inner + "}"
	}
	inside := !isPlainIdent(name, true) || g.chance(10)
	m, _ := g.matchers(name, inside)
	if inside {
		return m
	}
	return name + m
}

// modifiers renders offset / @ / anchored|smoothed for a selector or subquery.
func (g *Gen) modifiers(isSubquery, isRange bool) string {
	var mods []string
	// all draws first; TopOffset is applied afterwards
	var own time.Duration
	useExpr := false
	if g.chance(4) {
		own = pick(g.R, g.C.Durations)
		if g.C.NegOffset && g.chance(4) {
			own = -own
			g.Flags["neg_offset"] = true
		}
		useExpr = g.C.Allow.DurationExpr && g.chance(5)
	}
	offStyle := -1
	if g.C.Surface {
		offStyle = g.R.IntN(6)
	}
	stepOffset := g.C.RangeRefs && g.C.Allow.DurationExpr && g.chance(40)
	at := ""
	if g.C.At && g.chance(8) && len(g.C.AtTimes) > 0 {
		t := pick(g.R, g.C.AtTimes)
		switch g.R.IntN(3) {
		case 0:
			at = fmt.Sprintf("@ %.3f", float64(t)/1000)
		case 1:
			at = "@ " + strconv.FormatInt(t/1000, 10)
		default:
			at = "@ " + strconv.FormatFloat(float64(t)/1000, 'g', -1, 64)
		}
		g.Flags["at"] = true
	} else if g.C.AtStartEnd && g.chance(12) {
		at = pick(g.R, []string{"@ start()", "@ end()"})
		g.Flags["at_start_end"] = true
	}
	ext := ""
	if g.C.Allow.Extended && !isSubquery && g.chance(6) {
		ext = pick(g.R, []string{"anchored", "smoothed"})
		if isRange && g.chance(3) {
			ext = "anchored"
		}
		g.Needs.Extended = true
		g.kind(ext)
	}
	shuffle := g.C.Surface && g.chance(3)
	extFirst := g.chance(2)
	if !g.C.Surface {
		// "offset <duration expression>" directly followed by a binary operator is not expressible in
		// the grammar: outside the lexical-variety mode use it only when "@ …" follows the offset.
		if at == "" {
			useExpr = false
			stepOffset = false
		}
	}

	total := own
	if g.subq == 0 {
		total += g.C.TopOffset
	}
	off := ""
	switch {
	case stepOffset:
		off = "offset " + pick(g.R, []string{"step()", "range()", "-step()", "min_of(step(), 1m)"})
		g.Needs.DurationExpr = true
		g.Flags["range_ref"] = true
		g.kind("duration_expr")
	case total != 0 && useExpr && total > 2*time.Second:
		off = "offset (" + durString(total-time.Second) + " + 1s)"
		g.Needs.DurationExpr = true
		g.kind("duration_expr")
	case total != 0:
		off = "offset " + durStyled(total, true, offStyle)
	}
	if off != "" {
		g.kind("offset")
	}
	if at != "" {
		g.kind("at")
	}
	offExprFirst := !g.C.Surface && (useExpr || stepOffset)
	if extFirst && ext != "" {
		mods = append(mods, ext)
	}
	if offExprFirst && off != "" {
		mods = append(mods, off)
	}
	if at != "" {
		mods = append(mods, at)
	}
	if !extFirst && ext != "" {
		mods = append(mods, ext)
	}
	if !offExprFirst && off != "" {
		mods = append(mods, off)
	}
	if shuffle {
		g.R.Shuffle(len(mods), func(i, j int) { mods[i], mods[j] = mods[j], mods[i] })
	}
	if len(mods) == 0 {
		return ""
	}
	return " " + strings.Join(mods, " ")
}

func (g *Gen) selector(fl flavor, _ bool) ex {
	g.kind("vector_selector")
	return ex{g.selBase(fl) + g.modifiers(false, false), true}
}

// ---------------------------------------------------------------- durations

func durString(d time.Duration) string {
	if d < 0 {
		return "-" + model.Duration(-d).String()
	}
	return model.Duration(d).String()
}

// durText renders a duration; signed says whether a leading '-' is acceptable.
func (g *Gen) durText(d time.Duration, signed bool) string {
	style := -1
	if g.C.Surface {
		style = g.R.IntN(6)
	}
	return durStyled(d, signed, style)
}

func durStyled(d time.Duration, signed bool, style int) string {
	neg := d < 0
	if neg {
		d = -d
	}
	s := model.Duration(d).String()
	{
		switch style {
		case 0: // plain seconds
			s = strconv.FormatFloat(d.Seconds(), 'f', -1, 64)
		case 1:
			if d%time.Minute == 0 && d >= time.Minute {
				s = fmt.Sprintf("%ds", int64(d/time.Second))
			}
		case 2:
			if d >= time.Second && d%time.Second == 0 {
				s = fmt.Sprintf("%dms", int64(d/time.Millisecond))
			}
		}
	}
	if neg && signed {
		return "-" + s
	}
	return s
}

// rangeText renders the inside of [...] before an optional ":step".
func (g *Gen) rangeText() string {
	d := pick(g.R, g.C.Durations)
	if g.C.Allow.DurationExpr && g.chance(8) {
		g.Needs.DurationExpr = true
		g.kind("duration_expr")
		d2 := pick(g.R, g.C.Durations)
		switch g.R.IntN(8) {
		case 0:
			return durString(d) + " + " + durString(d2)
		case 1:
			return "2 * " + durString(d)
		case 2:
			return "(" + durString(d) + ")"
		case 3:
			return "max_of(" + durString(d) + ", " + durString(d2) + ")"
		case 4:
			return durString(d) + " * 3 / 2"
		case 5:
			return "-" + "(" + "-" + durString(d) + ")"
		case 6:
			if g.C.RangeRefs {
				g.Flags["range_ref"] = true
				return pick(g.R, []string{"step()", "range()", "step() + " + durString(d), "max_of(step(), " + durString(d) + ")", "2 * step()"})
			}
			return durString(d) + " % " + durString(d2+d)
		default:
			return durString(d) + " + " + durString(d2) + " - " + durString(d2) + " ^ 1"
		}
	}
	if g.C.Surface && g.chance(30) {
		// sub-millisecond or odd literal
		return pick(g.R, []string{"0.0005", "1.5", "0.0015", "1e3", "0x10", "1ms", "1y", "1w2d", "1h30m15s500ms"})
	}
	return g.durText(d, false)
}

// ---------------------------------------------------------------- matrices

func (g *Gen) mat(d int, fl flavor, needO bool) ex {
	if g.chance(3) {
		// subquery
		g.kind("subquery")
		g.Flags["subquery"] = true
		g.subq++
		inner := g.vec(d-1, fl, needO)
		g.subq--
		r := g.rangeText()
		step := ""
		if g.chance(2) {
			sd := pick(g.R, g.C.Durations)
			step = g.durText(sd, false)
			if g.C.Allow.DurationExpr && g.chance(10) {
				step = "2 * " + durString(sd)
				g.Needs.DurationExpr = true
				g.kind("duration_expr")
			}
		}
		return ex{g.operand(inner) + "[" + r + ":" + step + "]" + g.modifiers(true, true), true}
	}
	g.kind("matrix_selector")
	return ex{g.selBase(fl) + "[" + g.rangeText() + "]" + g.modifiers(false, true), true}
}

// ---------------------------------------------------------------- scalars

func (g *Gen) sca(d int) ex {
	if d <= 0 || g.chance(3) {
		return g.number()
	}
	switch g.R.IntN(10) {
	case 0, 1, 2:
		g.kind("binary_scalar")
		op := pick(g.R, []string{"+", "-", "*", "/", "%", "^", "atan2", "==", "!=", "<", ">=", ">", "<="})
		mod := ""
		if isCmp(op) && !g.chance(15) {
			mod = " bool"
		}
		return ex{g.binOperand(g.sca(d-1)) + " " + op + mod + " " + g.binOperand(g.sca(d-1)), false}
	case 3, 4:
		g.kind("call:scalar")
		return ex{"scalar(" + g.vec(d-1, flAny, false).s + ")", true}
	case 5:
		if g.C.TimeFuncs {
			g.kind("call:time")
			g.Flags["time_func"] = true
			return ex{"time()", true}
		}
		g.kind("call:pi")
		return ex{"pi()", true}
	case 6:
		g.kind("paren")
		return ex{"(" + g.sca(d-1).s + ")", true}
	case 7:
		return g.unary(g.sca(d - 1))
	case 8:
		if g.C.Allow.Experimental && g.chance(2) {
			g.Needs.Experimental = true
			if g.C.RangeRefs && g.chance(2) {
				f := pick(g.R, []string{"start", "end", "range", "step"})
				g.kind("call:" + f)
				g.Flags["range_ref"] = true
				return ex{f + "()", true}
			}
			f := pick(g.R, []string{"min_of", "max_of"})
			g.kind("call:" + f)
			return ex{f + "(" + g.sca(d-1).s + ", " + g.sca(d-1).s + ")", true}
		}
		return g.number()
	default:
		return g.number()
	}
}

func isCmp(op string) bool {
	switch op {
	case "==", "!=", "<", "<=", ">", ">=":
		return true
	}
	return false
}

func (g *Gen) binOperand(e ex) string {
	if e.atom || g.chance(3) {
		return e.s
	}
	return "(" + e.s + ")"
}

func (g *Gen) number() ex {
	g.kind("number")
	r := g.R
	var s string
	switch r.IntN(20) {
	case 0:
		s = "0"
	case 1:
		s = pick(r, []string{"Inf", "+Inf", "-Inf"})
		if g.C.Surface {
			s = pick(r, []string{"Inf", "+Inf", "-Inf", "inf", "INF", "-iNf"})
		}
	case 2:
		s = "NaN"
		if g.C.Surface {
			s = pick(r, []string{"NaN", "nan", "NAN", "-NaN"})
		}
	case 3:
		s = strconv.FormatFloat(r.Float64()*10, 'g', 4, 64)
	case 4:
		s = "-" + strconv.Itoa(1+r.IntN(5))
	case 5:
		s = pick(r, []string{"0.5", "0.9", "0.99", "0.1", "1.5", ".5", "2.", "1e3", "1e-3", "2.5e2", "1E2"})
	case 6:
		if g.C.Surface {
			s = pick(r, []string{"0x1F", "0X_1f", "0xff", "1_000", "0b11", "0o17", "017", "1e308", "1e309", "5e-324", "1e-400", "9223372036854775807", "9223372036854775808", "0x8000000000000000", "123456789.123456789", "1e21", "-0", "0x1p-2", "4.9e-324"})
		} else {
			s = pick(r, []string{"1e3", "100", "1e-3"})
		}
	case 7:
		if g.C.Surface || g.chance(2) {
			// a duration literal used as a number
			s = g.durText(pick(r, g.C.Durations), false)
			if g.C.Surface && g.chance(3) {
				s = pick(r, []string{"7ms", "1ms", "3ms", "1h30m", "1y", "2w", "1d12h", "999ms", "1m0s", "0s", "15s500ms"})
			}
			g.kind("duration_number")
		} else {
			s = "60"
		}
	default:
		s = strconv.Itoa(r.IntN(12))
	}
	return ex{s, !strings.HasPrefix(s, "-") && !strings.HasPrefix(s, "+")}
}

// param renders a scalar parameter of the given role.
func (g *Gen) param(role string, d int) string {
	r := g.R
	if g.C.Hostile && g.chance(6) {
		g.Flags["hostile_param"] = true
		return pick(r, []string{"NaN", "Inf", "-Inf", "-1", "1e30", "-1e30", "0", "9223372036854775807", "1e19", "0.5", "2", "-0.5"})
	}
	if d > 0 && g.chance(8) {
		return g.sca(d - 1).s
	}
	switch role {
	case "phi":
		return pick(r, []string{"0", "0.25", "0.5", "0.9", "0.99", "1", "0.5", "0.75"})
	case "k":
		return strconv.Itoa(1 + r.IntN(3))
	case "bigk":
		return pick(r, []string{"1000", "100", "1e6"})
	case "ratio":
		return pick(r, []string{"0.5", "-0.5", "0.1", "1", "-1", "0.9", "-0.3"})
	case "smooth":
		return pick(r, []string{"0.1", "0.5", "0.9", "0.3"})
	case "bound":
		return pick(r, []string{"0", "1", "10", "100", "-5", "0.5", "1000"})
	}
	return strconv.Itoa(r.IntN(20))
}

// ---------------------------------------------------------------- strings

func (g *Gen) str(role string) string {
	r := g.R
	switch role {
	case "label":
		l := pick(r, append([]string{"dst", "new"}, g.C.LabelNames...))
		if g.C.Hostile && g.chance(10) {
			g.Flags["hostile_param"] = true
			l = pick(r, []string{"", "0bad", "a-b", "__name__", "with space"})
		}
		return g.quote(l)
	case "regex":
		v := pick(r, []string{"(.*)", "(.+)-(.+)", "x", "(p)rod", ".*", "(?P<n>.*)", "", "([0-9]+)"})
		if g.C.Hostile && g.chance(10) {
			g.Flags["hostile_param"] = true
			v = pick(r, []string{"(", "[", "a{2,1}", "*"})
		}
		return g.quote(v)
	case "repl":
		return g.quote(pick(r, []string{"$1", "x-$1", "${n}", "", "const", "$2$1", "$9"}))
	case "sep":
		return g.quote(pick(r, []string{"-", "", ",", "/"}))
	}
	g.kind("string")
	if g.C.Surface {
		// source-level pieces incl. escapes
		n := r.IntN(5)
		var sb strings.Builder
		q := pick(r, []byte{'"', '"', '\'', '`'})
		sb.WriteByte(q)
		for i := 0; i < n; i++ {
			switch q {
			case '`':
				sb.WriteString(pick(r, []string{"a", "x y", "\\n", "\"", "'", "日本", "\n", "é", "{}", "#"}))
			default:
				p := pick(r, []string{"a", "x y", `\n`, `\t`, `\\`, `\"`, `\'`, "日本", `日`, `\U0001F600`, `\x41`, `\101`, "é", `\a`, `\v`, "#", "{", `\xff`, `\0`})
				if (p == `\"` && q == '\'') || (p == `\'` && q == '"') {
					p = "q"
				}
				if p == `\0` {
					p = `\000`
				}
				sb.WriteString(p)
			}
		}
		sb.WriteByte(q)
		return sb.String()
	}
	return strconv.Quote(pick(r, []string{"a", "x", "value", ""}))
}

// ---------------------------------------------------------------- aggregations

var accumAggs = []string{"sum", "avg", "stddev", "stdvar"}
var plainAggs = []string{"min", "max", "count", "group", "quantile", "count_values"}

func (g *Gen) kw(s string) string {
	if g.C.Surface && g.chance(6) {
		if g.chance(2) {
			return strings.ToUpper(s)
		}
		return strings.ToUpper(s[:1]) + s[1:]
	}
	return s
}

func (g *Gen) aggrWrap(op, param string, body ex, single bool) ex {
	g.kind("aggr:" + op)
	grouping := ""
	if g.chance(2) && !single {
		grouping = g.kw(pick(g.R, []string{"by", "by", "without"})) + " " + g.labelList(0)
		g.kind("grouping")
	}
	args := body.s
	if param != "" {
		args = param + ", " + body.s
	}
	name := g.kw(op)
	switch {
	case grouping == "":
		return ex{name + "(" + args + ")", true}
	case g.chance(2):
		return ex{name + " " + grouping + " (" + args + ")", true}
	default:
		return ex{name + "(" + args + ") " + grouping, true}
	}
}

// aggr: aggregations whose result set does not depend on input order as long as accumulating
// ones get ordered input.  The order of the output groups follows the first member of each group
// among all series that have a point anywhere in the evaluated range, which differs between a
// range and an instant evaluation; therefore an aggregation that must itself deliver ordered
// output (needO) is generated without grouping clause (single output series).
func (g *Gen) aggr(d int, fl flavor, needO bool) ex {
	det := g.C.Deterministic
	if g.chance(2) {
		op := pick(g.R, accumAggs)
		return g.aggrWrap(op, "", g.slot(parser.ValueTypeVector, d-1, fl, needO || det), det && needO)
	}
	op := pick(g.R, plainAggs)
	if op == "count_values" && det && needO {
		op = "count"
	}
	param := ""
	switch op {
	case "quantile":
		param = g.param("phi", d-1)
	case "count_values":
		param = g.str("label")
	}
	return g.aggrWrap(op, param, g.slot(parser.ValueTypeVector, d-1, fl, needO), det && needO)
}

// kAggr: topk, bottomk, limitk, limit_ratio (output order is never defined).
func (g *Gen) kAggr(d int, fl flavor) ex {
	det := g.C.Deterministic
	ops := []string{"topk", "bottomk"}
	if g.C.Allow.Experimental {
		ops = append(ops, "limitk", "limit_ratio")
	}
	op := pick(g.R, ops)
	if op == "limitk" || op == "limit_ratio" {
		g.Needs.Experimental = true
	}
	switch op {
	case "limit_ratio":
		return g.aggrWrap(op, g.param("ratio", d-1), g.slot(parser.ValueTypeVector, d-1, fl, false), false)
	case "limitk":
		if det {
			// only "take everything" is independent of the visiting order
			return g.aggrWrap(op, g.param("bigk", 0), g.slot(parser.ValueTypeVector, d-1, fl, false), false)
		}
		return g.aggrWrap(op, g.param("k", d-1), g.slot(parser.ValueTypeVector, d-1, fl, false), false)
	default:
		if det {
			if len(g.C.DistinctMetrics) > 0 && g.chance(2) {
				// small k over a selector with pairwise distinct, non-NaN values: no ties
				g.Flags["topk_small_k"] = true
				sel := g.selector(flDistinct, false)
				sel.s = strings.Replace(sel.s, " smoothed", "", 1) // interpolated values could tie
				return g.aggrWrap(op, g.param("k", 0), sel, false)
			}
			return g.aggrWrap(op, g.param("bigk", 0), g.slot(parser.ValueTypeVector, d-1, fl, false), false)
		}
		return g.aggrWrap(op, g.param("k", d-1), g.slot(parser.ValueTypeVector, d-1, fl, false), false)
	}
}

// ---------------------------------------------------------------- functions

type fnInfo struct {
	name string
	f    *parser.Function
}

var (
	rangeFns   []fnInfo // have a matrix argument
	instantFns []fnInfo // vector → vector, element-wise or whole-vector, no matrix argument
)

// functions handled by dedicated generators or excluded from the generic tables
var specialFns = map[string]bool{
	"label_replace": true, "label_join": true, "info": true, "vector": true, "absent": true, "absent_over_time": false,
	"scalar": true, "time": true, "pi": true, "start": true, "end": true, "step": true, "range": true, "min_of": true, "max_of": true,
	"histogram_quantile": true, "histogram_fraction": true, "histogram_quantiles": true,
	"sort_by_label": true, "sort_by_label_desc": true,
}

func init() {
	names := make([]string, 0, len(parser.Functions))
	for n := range parser.Functions {
		names = append(names, n)
	}
	sort.Strings(names)
	for _, n := range names {
		f := parser.Functions[n]
		if specialFns[n] || f.ReturnType != parser.ValueTypeVector {
			continue
		}
		hasMat := false
		for _, t := range f.ArgTypes {
			if t == parser.ValueTypeMatrix {
				hasMat = true
			}
		}
		if hasMat {
			rangeFns = append(rangeFns, fnInfo{n, f})
		} else {
			instantFns = append(instantFns, fnInfo{n, f})
		}
	}
}

var dateFns = map[string]bool{"days_in_month": true, "day_of_month": true, "day_of_week": true, "day_of_year": true, "hour": true, "minute": true, "month": true, "year": true}

func (g *Gen) pickFn(tbl []fnInfo) fnInfo {
	for tries := 0; tries < 50; tries++ {
		fi := pick(g.R, tbl)
		if fi.f.Experimental && !g.C.Allow.Experimental {
			continue
		}
		if (fi.name == "predict_linear" || fi.name == "timestamp" || fi.name == "start_timestamp") && !g.C.TimeFuncs {
			// predict_linear extrapolates to the evaluation time; timestamp() of a computed vector is the evaluation time
			continue
		}
		return fi
	}
	return tbl[0]
}

func (g *Gen) scalarArgFor(fn string, idx, d int) string {
	switch fn {
	case "quantile_over_time":
		return g.param("phi", d)
	case "double_exponential_smoothing":
		return g.param("smooth", d)
	case "clamp", "clamp_min", "clamp_max":
		return g.param("bound", d)
	case "round":
		return pick(g.R, []string{"1", "0.5", "10", "0.1", "0"})
	case "predict_linear":
		return pick(g.R, []string{"60", "0", "3600", "-60"})
	}
	return g.param("any", d)
}

func (g *Gen) call(fi fnInfo, d int, fl flavor, needO bool) ex {
	g.kind("call:" + fi.name)
	if fi.f.Experimental {
		g.Needs.Experimental = true
	}
	if fi.name == "predict_linear" {
		g.Flags["time_func"] = true
	}
	n := len(fi.f.ArgTypes)
	switch {
	case fi.f.Variadic > 0:
		n = n - 1 + g.R.IntN(fi.f.Variadic+1)
		if dateFns[fi.name] {
			n = 1
			if g.C.TimeFuncs && g.chance(3) {
				n = 0
				g.Flags["time_func"] = true
			}
		}
	case fi.f.Variadic < 0:
		n = n - 1 + g.R.IntN(3)
	}
	var args []string
	for i := 0; i < n; i++ {
		ti := i
		if ti >= len(fi.f.ArgTypes) {
			ti = len(fi.f.ArgTypes) - 1
		}
		switch t := fi.f.ArgTypes[ti]; t {
		case parser.ValueTypeScalar:
			if g.C.IllTyped > 0 && g.R.IntN(g.C.IllTyped) == 0 {
				args = append(args, g.slot(t, d-1, fl, needO).s)
			} else {
				args = append(args, g.scalarArgFor(fi.name, i, d-1))
			}
		default:
			args = append(args, g.slot(t, d-1, fl, needO).s)
		}
	}
	if g.C.IllTyped > 0 && g.R.IntN(g.C.IllTyped*2) == 0 {
		// wrong argument count
		g.Flags["ill_typed"] = true
		if len(args) > 0 && g.chance(2) {
			args = args[:len(args)-1]
		} else {
			args = append(args, "1")
		}
	}
	return ex{fi.name + "(" + strings.Join(args, ", ") + ")", true}
}

func (g *Gen) rangeCall(d int, fl flavor, needO bool) ex {
	return g.call(g.pickFn(rangeFns), d, fl, needO)
}

func (g *Gen) instantCall(d int, fl flavor) ex {
	if g.C.Allow.Experimental && g.chance(12) {
		g.Needs.Experimental = true
		f := pick(g.R, []string{"sort_by_label", "sort_by_label_desc"})
		g.kind("call:" + f)
		args := []string{g.vec(d-1, fl, false).s}
		for i := g.R.IntN(3); i >= 0; i-- {
			args = append(args, g.quote(pick(g.R, g.C.LabelNames)))
		}
		return ex{f + "(" + strings.Join(args, ", ") + ")", true}
	}
	return g.call(g.pickFn(instantFns), d, fl, false)
}

func (g *Gen) histCall(d int) ex {
	r := g.R
	switch r.IntN(4) {
	case 0:
		g.kind("call:histogram_quantile")
		var arg string
		switch {
		case len(g.C.BucketMetrics) > 0 && g.chance(2):
			// classic: sum by (le, ...) (rate(bucket[r]))
			if g.chance(2) {
				arg = "sum by (le) (rate(" + g.selBase(flBucket) + "[" + g.rangeText() + "]" + g.modifiers(false, true) + "))"
			} else {
				arg = g.selector(flBucket, false).s
			}
		case len(g.C.HistMetrics) > 0 && g.chance(2):
			arg = "rate(" + g.selBase(flHist) + "[" + g.rangeText() + "]" + g.modifiers(false, true) + ")"
		default:
			arg = g.vec(d-1, flHist, false).s
		}
		return ex{"histogram_quantile(" + g.param("phi", d-1) + ", " + arg + ")", true}
	case 1:
		g.kind("call:histogram_fraction")
		return ex{"histogram_fraction(" + g.param("bound", d-1) + ", " + g.param("bound", d-1) + ", " + g.vec(d-1, flHist, false).s + ")", true}
	case 2:
		if g.C.Allow.Experimental {
			g.Needs.Experimental = true
			g.kind("call:histogram_quantiles")
			args := []string{g.vec(d-1, flHist, false).s, g.str("label")}
			for i := 1 + r.IntN(3); i > 0; i-- {
				args = append(args, g.param("phi", 0))
			}
			return ex{"histogram_quantiles(" + strings.Join(args, ", ") + ")", true}
		}
		fallthrough
	default:
		f := pick(r, []string{"histogram_count", "histogram_sum", "histogram_avg", "histogram_stddev", "histogram_stdvar"})
		g.kind("call:" + f)
		return ex{f + "(" + g.vec(d-1, flHist, false).s + ")", true}
	}
}

func (g *Gen) labelFunc(d int, fl flavor, needO bool) ex {
	v := g.slot(parser.ValueTypeVector, d-1, fl, needO).s
	if g.chance(2) {
		g.kind("call:label_replace")
		return ex{"label_replace(" + v + ", " + g.str("label") + ", " + g.str("repl") + ", " + g.str("label") + ", " + g.str("regex") + ")", true}
	}
	g.kind("call:label_join")
	args := []string{v, g.str("label"), g.str("sep")}
	for i := g.R.IntN(3); i > 0; i-- {
		args = append(args, g.str("label"))
	}
	return ex{"label_join(" + strings.Join(args, ", ") + ")", true}
}

// singleSeries: expressions with at most one output series.
func (g *Gen) singleSeries(d int) ex {
	switch g.R.IntN(3) {
	case 0:
		g.kind("call:vector")
		return ex{"vector(" + g.sca(d-1).s + ")", true}
	case 1:
		g.kind("call:absent")
		return ex{"absent(" + g.vec(d-1, flAny, false).s + ")", true}
	default:
		g.kind("call:absent_over_time")
		return ex{"absent_over_time(" + g.mat(d-1, flAny, false).s + ")", true}
	}
}

func (g *Gen) infoCall(d int) ex {
	g.kind("call:info")
	g.Needs.Experimental = true
	s := "info(" + g.vec(d-1, flFloat, false).s
	if g.chance(2) {
		m, _ := g.matchers("", false)
		if m == "" {
			m = "{" + pick(g.R, g.C.LabelNames) + "=~\".+\"}"
		}
		s += ", " + m
	}
	return ex{s + ")", true}
}

// ---------------------------------------------------------------- binary expressions

var arithOps = []string{"+", "-", "*", "/", "%", "^", "atan2"}
var cmpOps = []string{"==", "!=", "<", "<=", ">", ">="}
var setOps = []string{"and", "or", "unless"}

func (g *Gen) fillMod() string {
	v := func() string {
		return pick(g.R, []string{"0", "1", "-1", "NaN", "Inf", "-Inf", "0.5", "1e3", "+2", "5m", "1e21"})
	}
	g.Needs.Fill = true
	g.kind("fill")
	switch g.R.IntN(5) {
	case 0:
		return " fill(" + v() + ")"
	case 1:
		return " fill_left(" + v() + ")"
	case 2:
		return " fill_right(" + v() + ")"
	case 3:
		return " fill_left(" + v() + ") fill_right(" + v() + ")"
	default:
		return " fill_right(" + v() + ") fill_left(" + v() + ")"
	}
}

func (g *Gen) binary(d int, fl flavor) ex {
	r := g.R
	switch r.IntN(10) {
	case 0, 1, 2: // vector op scalar
		g.kind("binary_vs")
		op := pick(r, append(append([]string{}, arithOps...), cmpOps...))
		if g.chance(12) {
			op = pick(r, []string{"</", ">/"})
			g.kind("trim")
		}
		mod := ""
		if isCmp(op) && g.chance(3) {
			mod = " bool"
			g.kind("bool")
		}
		v := g.binOperand(g.slot(parser.ValueTypeVector, d-1, fl, false))
		s := g.binOperand(g.slot(parser.ValueTypeScalar, d-1, fl, false))
		if g.chance(3) {
			return ex{s + " " + op + mod + " " + v, false}
		}
		return ex{v + " " + op + mod + " " + s, false}
	default: // vector op vector
		g.kind("binary_vv")
		var op string
		set := false
		switch r.IntN(4) {
		case 0:
			op = g.kw(pick(r, setOps))
			set = true
		case 1:
			op = pick(r, cmpOps)
		default:
			op = pick(r, arithOps)
		}
		g.kind("op:" + strings.ToLower(op))
		mod := ""
		if isCmp(op) && g.chance(3) {
			mod = " " + g.kw("bool")
			g.kind("bool")
		}
		if g.chance(2) {
			mod += " " + g.kw(pick(r, []string{"on", "ignoring"})) + " " + g.labelList(0)
			g.kind("matching")
			if (!set || g.C.IllTyped > 0 && g.chance(4)) && g.chance(3) {
				mod += " " + g.kw(pick(r, []string{"group_left", "group_right"}))
				g.kind("group_lr")
				if g.chance(2) {
					mod += " " + g.labelList(0)
				}
			}
		}
		if g.C.Allow.Fill && (!set || g.C.IllTyped > 0 && g.chance(4)) && g.chance(5) {
			mod += g.fillMod()
		}
		l := g.binOperand(g.slot(parser.ValueTypeVector, d-1, fl, false))
		var rr string
		if g.chance(3) {
			// same family on both sides makes matches likely
			rr = g.binOperand(g.slot(parser.ValueTypeVector, 0, fl, false))
		} else {
			rr = g.binOperand(g.slot(parser.ValueTypeVector, d-1, fl, false))
		}
		return ex{l + " " + op + mod + " " + rr, false}
	}
}

// ---------------------------------------------------------------- lexical variation

// respace replaces single spaces outside string literals and brackets by random whitespace and
// comments.
func respace(r *rand.Rand, s string) string {
	var sb strings.Builder
	var quote byte
	brack := 0
	for i := 0; i < len(s); i++ {
		c := s[i]
		if quote != 0 {
			sb.WriteByte(c)
			if c == '\\' && quote != '`' && i+1 < len(s) {
				i++
				sb.WriteByte(s[i])
			} else if c == quote {
				quote = 0
			}
			continue
		}
		switch c {
		case '"', '\'', '`':
			quote = c
			sb.WriteByte(c)
		case '[':
			brack++
			sb.WriteByte(c)
		case ']':
			brack--
			sb.WriteByte(c)
		case ' ':
			if brack > 0 {
				sb.WriteByte(c)
				continue
			}
			switch r.IntN(24) {
			case 0:
				sb.WriteString("  ")
			case 1:
				sb.WriteString("\n")
			case 2:
				sb.WriteString("\t")
			case 3:
				sb.WriteString(" # comment ) \" [\n")
			case 4:
				sb.WriteString("\r\n ")
			default:
				sb.WriteByte(' ')
			}
		case '(', ',':
			sb.WriteByte(c)
			if r.IntN(30) == 0 {
				sb.WriteString(" ")
			}
		default:
			sb.WriteByte(c)
		}
	}
	return sb.String()
}
