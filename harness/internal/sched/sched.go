// Package sched installs the handler behind /repo's util/verifhook.Point (build tag verif):
// hit counters, crash points (SIGKILL of the own process at the k-th hit of a site), an event
// stream per registered actor goroutine, and pause points at which a controller holds an actor
// until it is released.  Goroutines the harness did not register pass through unpaused and are
// only counted.
package sched

import (
	"bytes"
	"math/rand/v2"
	"os"
	"runtime"
	"strconv"
	"sync"
	"sync/atomic"
	"syscall"
	"time"

	"github.com/prometheus/prometheus/util/verifhook"
)

// Event is something an actor did at a hook site.
type Event struct {
	Site   string
	Paused bool // the actor is now blocked at Site until Release
	Done   bool // the actor's function returned (Site == "")
	Panic  any  // non-nil if the actor function panicked
}

type Actor struct {
	Name   string
	c      *Controller
	gid    atomic.Int64
	mu     sync.Mutex
	pause  map[string]bool
	all    bool
	queue  []Event
	notify chan struct{}
	resume chan struct{}
	done   atomic.Bool
}

type Controller struct {
	mu        sync.Mutex
	hits      map[string]int64
	actors    sync.Map // gid → *Actor
	crashSite string
	crashK    int64
	crashAny  int64 // crash at the n-th hit of any site (0 = off)
	total     int64
	onHit     func(site string, a *Actor)
	jitterP   atomic.Int64 // per-mille probability of a yield/sleep at any site
	jrng      sync.Mutex
	rng       *rand.Rand
	log       []string // global ordered log of (actor@site) for registered actors
	logOn     bool
}

// Install sets the process-global hook handler.
func Install() *Controller {
	c := &Controller{hits: map[string]int64{}, rng: rand.New(rand.NewPCG(1, 2))}
	verifhook.SetHandler(c.handle)
	return c
}

func (c *Controller) Uninstall() { verifhook.SetHandler(nil) }

// CrashAt makes the process kill itself (SIGKILL) at the k-th hit (1-based) of site.
func (c *Controller) CrashAt(site string, k int64) {
	c.mu.Lock()
	c.crashSite, c.crashK = site, k
	c.mu.Unlock()
}

// CrashAtGlobal makes the process kill itself at the n-th hook hit overall (any site).
func (c *Controller) CrashAtGlobal(n int64) {
	c.mu.Lock()
	c.crashAny = n
	c.mu.Unlock()
}

// Total returns the number of hook hits so far.
func (c *Controller) Total() int64 {
	c.mu.Lock()
	defer c.mu.Unlock()
	return c.total
}

// OnHit registers a callback run synchronously on every hit (after counting, before pausing).
func (c *Controller) OnHit(f func(site string, a *Actor)) {
	c.mu.Lock()
	c.onHit = f
	c.mu.Unlock()
}

// SetJitter makes every hit yield (and sometimes sleep a few µs) with the given per-mille
// probability: stress mode to widen interleavings between critical sections.
func (c *Controller) SetJitter(perMille int, seed uint64) {
	c.jrng.Lock()
	c.rng = rand.New(rand.NewPCG(seed, 77))
	c.jrng.Unlock()
	c.jitterP.Store(int64(perMille))
}

// EnableLog records the global order of actor events.
func (c *Controller) EnableLog() { c.mu.Lock(); c.logOn = true; c.mu.Unlock() }
func (c *Controller) Log() []string {
	c.mu.Lock()
	defer c.mu.Unlock()
	return append([]string(nil), c.log...)
}

func (c *Controller) Hits() map[string]int64 {
	c.mu.Lock()
	defer c.mu.Unlock()
	out := make(map[string]int64, len(c.hits))
	for k, v := range c.hits {
		out[k] = v
	}
	return out
}

func (c *Controller) Hit(site string) int64 {
	c.mu.Lock()
	defer c.mu.Unlock()
	return c.hits[site]
}

func curGID() int64 {
	var buf [64]byte
	b := buf[:runtime.Stack(buf[:], false)]
	// "goroutine 123 [running]:"
	b = bytes.TrimPrefix(b, []byte("goroutine "))
	i := bytes.IndexByte(b, ' ')
	if i < 0 {
		return -1
	}
	n, _ := strconv.ParseInt(string(b[:i]), 10, 64)
	return n
}

func (c *Controller) handle(site string) {
	c.mu.Lock()
	c.hits[site]++
	c.total++
	n := c.hits[site]
	crash := (c.crashSite == site && c.crashK == n) || (c.crashAny > 0 && c.total == c.crashAny)
	onHit := c.onHit
	c.mu.Unlock()
	if crash {
		syscall.Kill(os.Getpid(), syscall.SIGKILL)
		select {} // never continue past the crash point
	}
	var a *Actor
	if v, ok := c.actors.Load(curGID()); ok {
		a = v.(*Actor)
	}
	if onHit != nil {
		onHit(site, a)
	}
	if p := c.jitterP.Load(); p > 0 {
		c.jrng.Lock()
		x := c.rng.IntN(1000)
		y := c.rng.IntN(200)
		c.jrng.Unlock()
		if int64(x) < p {
			if y < 150 {
				runtime.Gosched()
			} else {
				time.Sleep(time.Duration(y) * time.Microsecond)
			}
		}
	}
	if a == nil {
		return
	}
	a.mu.Lock()
	paused := a.all || a.pause[site]
	a.mu.Unlock()
	if c.logOn {
		c.mu.Lock()
		c.log = append(c.log, a.Name+"@"+site)
		c.mu.Unlock()
	}
	a.push(Event{Site: site, Paused: paused})
	if paused {
		<-a.resume
	}
}

func (a *Actor) push(e Event) {
	a.mu.Lock()
	a.queue = append(a.queue, e)
	a.mu.Unlock()
	select {
	case a.notify <- struct{}{}:
	default:
	}
}

// Go starts fn as a registered actor.  pauseSites: sites at which the actor blocks until
// Release ("*" = every site it hits).
func (c *Controller) Go(name string, pauseSites []string, fn func()) *Actor {
	a := &Actor{Name: name, c: c, pause: map[string]bool{}, notify: make(chan struct{}, 1), resume: make(chan struct{})}
	for _, s := range pauseSites {
		if s == "*" {
			a.all = true
		}
		a.pause[s] = true
	}
	started := make(chan struct{})
	go func() {
		gid := curGID()
		a.gid.Store(gid)
		c.actors.Store(gid, a)
		close(started)
		var pv any
		func() {
			defer func() { pv = recover() }()
			fn()
		}()
		c.actors.Delete(gid)
		a.done.Store(true)
		a.push(Event{Done: true, Panic: pv})
	}()
	<-started
	return a
}

// SetPause changes the pause set of the actor (takes effect at its next hit).
func (a *Actor) SetPause(sites ...string) {
	a.mu.Lock()
	a.pause = map[string]bool{}
	a.all = false
	for _, s := range sites {
		if s == "*" {
			a.all = true
		}
		a.pause[s] = true
	}
	a.mu.Unlock()
}

// Next returns the actor's next event, waiting up to timeout (ok=false on timeout: the actor is
// running or blocked somewhere the hooks cannot see — callers treat that as inconclusive or as
// "blocked on a lock", never as a verdict by itself).
func (a *Actor) Next(timeout time.Duration) (Event, bool) {
	deadline := time.NewTimer(timeout)
	defer deadline.Stop()
	for {
		a.mu.Lock()
		if len(a.queue) > 0 {
			e := a.queue[0]
			a.queue = a.queue[1:]
			a.mu.Unlock()
			return e, true
		}
		a.mu.Unlock()
		select {
		case <-a.notify:
		case <-deadline.C:
			return Event{}, false
		}
	}
}

// Peek waits up to timeout for an event to be available and returns it without consuming it.
func (a *Actor) Peek(timeout time.Duration) (Event, bool) {
	deadline := time.NewTimer(timeout)
	defer deadline.Stop()
	for {
		a.mu.Lock()
		if len(a.queue) > 0 {
			e := a.queue[0]
			a.mu.Unlock()
			return e, true
		}
		a.mu.Unlock()
		select {
		case <-a.notify:
			// re-arm for the consumer
			select {
			case a.notify <- struct{}{}:
			default:
			}
		case <-deadline.C:
			return Event{}, false
		}
	}
}

// NextPauseOrDone skips observe-only events (returning them in seen) until the actor pauses or ends.
func (a *Actor) NextPauseOrDone(timeout time.Duration) (e Event, seen []string, ok bool) {
	for {
		ev, ok := a.Next(timeout)
		if !ok {
			return Event{}, seen, false
		}
		if ev.Paused || ev.Done {
			return ev, seen, true
		}
		seen = append(seen, ev.Site)
	}
}

// Release lets a paused actor continue.
func (a *Actor) Release() { a.resume <- struct{}{} }

func (a *Actor) IsDone() bool { return a.done.Load() }
