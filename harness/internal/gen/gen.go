// Package gen holds the shared input generators (labels, floats, timestamps, native
// histograms).  Everything is driven by the per-case PRNG so cases replay exactly.
package gen

import (
	"fmt"
	"math"
	"math/rand/v2"
	"sort"
	"strings"

	"github.com/prometheus/prometheus/model/histogram"
	"github.com/prometheus/prometheus/model/labels"
	"github.com/prometheus/prometheus/model/value"
)

// ---------------------------------------------------------------- labels

var labelNames = []string{"job", "instance", "a", "b", "env", "le", "zone", "__meta", "très"}
var labelValues = []string{"", "x", "y", "prod", "dev", "a", "ab", "abc", "1", "2", "10", "foo-bar", "foo_bar", "日本", "new\nline", "with space", "q\"uote"}

// LabelSet returns a random label set with a metric name (1..maxExtra extra labels).
func LabelSet(r *rand.Rand, maxExtra int) labels.Labels {
	b := labels.NewBuilder(labels.EmptyLabels())
	b.Set("__name__", []string{"m", "metric_a", "metric_b", "http_requests_total", "up"}[r.IntN(5)])
	n := r.IntN(maxExtra + 1)
	for i := 0; i < n; i++ {
		v := labelValues[r.IntN(len(labelValues))]
		if v == "" {
			continue
		}
		b.Set(labelNames[r.IntN(len(labelNames))], v)
	}
	if r.IntN(40) == 0 {
		b.Set("long", strings.Repeat("v", 1000+r.IntN(200)))
	}
	return b.Labels()
}

// SeriesSet returns n distinct label sets.
func SeriesSet(r *rand.Rand, n int) []labels.Labels {
	seen := map[string]bool{}
	var out []labels.Labels
	for tries := 0; len(out) < n && tries < 50*n; tries++ {
		ls := LabelSet(r, 3)
		k := ls.String()
		if seen[k] {
			continue
		}
		seen[k] = true
		out = append(out, ls)
	}
	for i := len(out); i < n; i++ {
		out = append(out, labels.FromStrings("__name__", "m", "uniq", fmt.Sprint(i)))
	}
	return out
}

// SimpleSeries returns n label sets {__name__="m", s="<i>"} (useful when identity matters, not shape).
func SimpleSeries(n int) []labels.Labels {
	out := make([]labels.Labels, n)
	for i := range out {
		out[i] = labels.FromStrings("__name__", "m", "s", fmt.Sprint(i))
	}
	return out
}

// ---------------------------------------------------------------- floats

// Float returns a float from hostile classes.  Never a stale marker unless allowStale.
func Float(r *rand.Rand, allowStale bool) float64 {
	switch r.IntN(14) {
	case 0:
		return 0
	case 1:
		return math.Copysign(0, -1)
	case 2:
		return math.Inf(1)
	case 3:
		return math.Inf(-1)
	case 4:
		return math.NaN()
	case 5:
		// NaN with payload (but not the stale marker)
		b := uint64(0x7ff8000000000000) | (r.Uint64() & 0x0007ffffffffffff)
		if b == value.StaleNaN {
			b ^= 0x10
		}
		return math.Float64frombits(b)
	case 6:
		if allowStale {
			return math.Float64frombits(value.StaleNaN)
		}
		return 1
	case 7:
		return math.Float64frombits(r.Uint64N(1 << 52)) // denormal
	case 8:
		f := math.Float64frombits(r.Uint64())
		if value.IsStaleNaN(f) && !allowStale {
			return 2
		}
		return f
	case 9:
		return math.Nextafter(float64(r.IntN(100)), math.Inf(1))
	default:
		return float64(r.IntN(2000) - 500)
	}
}

// SameFloat is bitwise equality, except that all non-stale NaNs are NOT merged: bit equality only.
func SameFloat(a, b float64) bool { return math.Float64bits(a) == math.Float64bits(b) }

// ---------------------------------------------------------------- native histograms

// AbsHist is an abstract histogram: absolute bucket index → count.
type AbsHist struct {
	Schema        int32
	ZeroThreshold float64
	ZeroCount     uint64
	Pos, Neg      map[int32]uint64
	Custom        []float64 // for schema -53
	Sum           float64
	Gauge         bool
}

func (a *AbsHist) Clone() *AbsHist {
	c := *a
	c.Pos = map[int32]uint64{}
	c.Neg = map[int32]uint64{}
	for k, v := range a.Pos {
		c.Pos[k] = v
	}
	for k, v := range a.Neg {
		c.Neg[k] = v
	}
	c.Custom = append([]float64(nil), a.Custom...)
	return &c
}

func (a *AbsHist) Count() uint64 {
	n := a.ZeroCount
	for _, v := range a.Pos {
		n += v
	}
	for _, v := range a.Neg {
		n += v
	}
	return n
}

// NewAbsHist draws a fresh abstract histogram.
func NewAbsHist(r *rand.Rand, allowCustom bool) *AbsHist {
	a := &AbsHist{Pos: map[int32]uint64{}, Neg: map[int32]uint64{}}
	if allowCustom && r.IntN(4) == 0 {
		a.Schema = histogram.CustomBucketsSchema
		n := 1 + r.IntN(6)
		v := float64(r.IntN(10)) - 5
		for i := 0; i < n; i++ {
			a.Custom = append(a.Custom, v)
			v += float64(1+r.IntN(5)) * 0.5
		}
		for i := 0; i <= n; i++ { // n+1 buckets incl. +Inf
			if r.IntN(3) != 0 {
				a.Pos[int32(i)] = uint64(r.IntN(20))
			}
		}
	} else {
		a.Schema = int32(r.IntN(13) - 4)
		if r.IntN(3) != 0 {
			a.ZeroThreshold = []float64{1e-128, 0.001, 0.5, 1, 2}[r.IntN(5)]
			a.ZeroCount = uint64(r.IntN(10))
		}
		np := r.IntN(6)
		base := int32(r.IntN(40) - 20)
		for i := 0; i < np; i++ {
			a.Pos[base+int32(r.IntN(12))] = uint64(r.IntN(50))
		}
		nn := r.IntN(4)
		for i := 0; i < nn; i++ {
			a.Neg[base+int32(r.IntN(12))] = uint64(r.IntN(50))
		}
	}
	a.Sum = float64(r.IntN(10000)) / 8
	a.Gauge = r.IntN(5) == 0
	return a
}

// Mutate returns the next histogram of a sequence: mostly growing (counter-like), sometimes new
// buckets left/right/middle, resets, schema or zero-threshold or custom-bound changes.
func (a *AbsHist) Mutate(r *rand.Rand) *AbsHist {
	n := a.Clone()
	grow := func(m map[int32]uint64) {
		for _, k := range sortedKeys(m) { // sorted: map order must not influence the PRNG stream
			if r.IntN(2) == 0 {
				m[k] += uint64(r.IntN(5))
			}
		}
	}
	switch r.IntN(20) {
	case 0: // reset: shrink a bucket or drop one
		for _, k := range sortedKeys(n.Pos) {
			v := n.Pos[k]
			if v > 0 {
				n.Pos[k] = v - 1 - uint64(r.Int64N(int64(v)))
				break
			} else {
				delete(n.Pos, k)
				break
			}
		}
	case 1: // new bucket somewhere
		if n.Schema != histogram.CustomBucketsSchema {
			n.Pos[int32(r.IntN(60)-30)] += uint64(1 + r.IntN(5))
		} else if len(n.Custom) > 0 {
			n.Pos[int32(r.IntN(len(n.Custom)+1))] += uint64(1 + r.IntN(5))
		}
	case 2:
		if n.Schema != histogram.CustomBucketsSchema {
			n.Neg[int32(r.IntN(60)-30)] += uint64(1 + r.IntN(5))
		}
	case 3: // schema change
		if n.Schema != histogram.CustomBucketsSchema && r.IntN(2) == 0 {
			n.Schema = int32(r.IntN(13) - 4)
		}
	case 4: // zero threshold change
		if n.Schema != histogram.CustomBucketsSchema {
			n.ZeroThreshold = []float64{0, 1e-128, 0.001, 0.5, 1}[r.IntN(5)]
			if n.ZeroThreshold == 0 {
				n.ZeroCount = 0
			}
		}
	case 5: // custom bounds change
		if n.Schema == histogram.CustomBucketsSchema {
			n.Custom = append(n.Custom, n.Custom[len(n.Custom)-1]+1)
		}
	case 6: // completely new histogram
		return NewAbsHist(r, a.Schema == histogram.CustomBucketsSchema)
	default:
		grow(n.Pos)
		grow(n.Neg)
		if n.ZeroThreshold > 0 || n.ZeroCount > 0 {
			n.ZeroCount += uint64(r.IntN(3))
		}
	}
	if n.ZeroThreshold == 0 && n.ZeroCount > 0 && n.Schema != histogram.CustomBucketsSchema {
		// a zero bucket of width 0 may still hold exact zeros: legal
	}
	n.Sum = a.Sum + float64(r.IntN(100))/4
	return n
}

func sortedKeys(m map[int32]uint64) []int32 {
	ks := make([]int32, 0, len(m))
	for k := range m {
		ks = append(ks, k)
	}
	sort.Slice(ks, func(i, j int) bool { return ks[i] < ks[j] })
	return ks
}

// spansAndCounts lays the populated indexes out as spans; gaps of up to `merge` empty buckets are
// materialised as explicit zero buckets so that both compact and non-compact layouts occur.
func spansAndCounts(m map[int32]uint64, merge int32) ([]histogram.Span, []uint64) {
	ks := sortedKeys(m)
	var spans []histogram.Span
	var counts []uint64
	var last int32
	for i, k := range ks {
		if i == 0 {
			spans = append(spans, histogram.Span{Offset: k, Length: 1})
			counts = append(counts, m[k])
			last = k
			continue
		}
		gap := k - last - 1
		if gap <= merge {
			for g := int32(0); g < gap; g++ {
				counts = append(counts, 0)
			}
			spans[len(spans)-1].Length += uint32(gap) + 1
		} else {
			spans = append(spans, histogram.Span{Offset: gap, Length: 1})
		}
		counts = append(counts, m[k])
		last = k
	}
	return spans, counts
}

// Int renders the abstract histogram as an integer histogram (delta-encoded buckets).
func (a *AbsHist) Int(r *rand.Rand) *histogram.Histogram {
	merge := int32(0)
	if r != nil {
		merge = int32(r.IntN(3))
	}
	h := &histogram.Histogram{Schema: a.Schema, ZeroThreshold: a.ZeroThreshold, ZeroCount: a.ZeroCount, Sum: a.Sum, Count: a.Count()}
	if a.Gauge {
		h.CounterResetHint = histogram.GaugeType
	}
	ps, pc := spansAndCounts(a.Pos, merge)
	h.PositiveSpans = ps
	h.PositiveBuckets = deltas(pc)
	if a.Schema == histogram.CustomBucketsSchema {
		h.CustomValues = append([]float64(nil), a.Custom...)
		h.ZeroThreshold, h.ZeroCount = 0, 0
		h.Count = 0
		for _, c := range pc {
			h.Count += c
		}
	} else {
		ns, nc := spansAndCounts(a.Neg, merge)
		h.NegativeSpans = ns
		h.NegativeBuckets = deltas(nc)
	}
	return h
}

// Float renders the abstract histogram as a float histogram.
func (a *AbsHist) Float(r *rand.Rand) *histogram.FloatHistogram {
	return a.Int(r).ToFloat(nil)
}

func deltas(c []uint64) []int64 {
	if len(c) == 0 {
		return nil
	}
	out := make([]int64, len(c))
	prev := int64(0)
	for i, v := range c {
		out[i] = int64(v) - prev
		prev = int64(v)
	}
	return out
}

// BucketMapInt returns index→count maps (zero-count buckets omitted) of an integer histogram.
func BucketMapInt(h *histogram.Histogram) (pos, neg map[int32]uint64) {
	f := func(spans []histogram.Span, bk []int64) map[int32]uint64 {
		m := map[int32]uint64{}
		idx := int32(0)
		cur := int64(0)
		j := 0
		for si, s := range spans {
			if si == 0 {
				idx = s.Offset
			} else {
				idx += s.Offset
			}
			for l := uint32(0); l < s.Length; l++ {
				if j >= len(bk) {
					return m
				}
				cur += bk[j]
				j++
				if cur != 0 {
					m[idx] += uint64(cur)
				}
				idx++
			}
		}
		return m
	}
	return f(h.PositiveSpans, h.PositiveBuckets), f(h.NegativeSpans, h.NegativeBuckets)
}

// BucketMapFloat returns index→count maps (zero-count buckets omitted) of a float histogram.
func BucketMapFloat(h *histogram.FloatHistogram) (pos, neg map[int32]float64) {
	f := func(spans []histogram.Span, bk []float64) map[int32]float64 {
		m := map[int32]float64{}
		idx := int32(0)
		j := 0
		for si, s := range spans {
			if si == 0 {
				idx = s.Offset
			} else {
				idx += s.Offset
			}
			for l := uint32(0); l < s.Length; l++ {
				if j >= len(bk) {
					return m
				}
				if bk[j] != 0 {
					m[idx] += bk[j]
				}
				j++
				idx++
			}
		}
		return m
	}
	return f(h.PositiveSpans, h.PositiveBuckets), f(h.NegativeSpans, h.NegativeBuckets)
}

// HistKey renders an integer histogram canonically (layout-independent) for equality checks.
func HistKey(h *histogram.Histogram) string {
	if h == nil {
		return "<nil>"
	}
	p, n := BucketMapInt(h)
	return fmt.Sprintf("s=%d zt=%x zc=%d c=%d sum=%x cv=%v p=%v n=%v", h.Schema, math.Float64bits(h.ZeroThreshold), h.ZeroCount, h.Count, math.Float64bits(h.Sum), h.CustomValues, fmtMap(p), fmtMap(n))
}

// FloatHistKey renders a float histogram canonically (layout-independent).
func FloatHistKey(h *histogram.FloatHistogram) string {
	if h == nil {
		return "<nil>"
	}
	p, n := BucketMapFloat(h)
	return fmt.Sprintf("s=%d zt=%x zc=%x c=%x sum=%x cv=%v p=%v n=%v", h.Schema, math.Float64bits(h.ZeroThreshold), math.Float64bits(h.ZeroCount), math.Float64bits(h.Count), math.Float64bits(h.Sum), h.CustomValues, fmtMapF(p), fmtMapF(n))
}

func fmtMap(m map[int32]uint64) string {
	ks := sortedKeys(m)
	var sb strings.Builder
	for _, k := range ks {
		fmt.Fprintf(&sb, "%d:%d ", k, m[k])
	}
	return sb.String()
}

func fmtMapF(m map[int32]float64) string {
	ks := make([]int32, 0, len(m))
	for k := range m {
		ks = append(ks, k)
	}
	sort.Slice(ks, func(i, j int) bool { return ks[i] < ks[j] })
	var sb strings.Builder
	for _, k := range ks {
		fmt.Fprintf(&sb, "%d:%x ", k, math.Float64bits(m[k]))
	}
	return sb.String()
}

// StaleHist / StaleFloatHist are the histogram staleness markers.
func StaleHist() *histogram.Histogram {
	return &histogram.Histogram{Sum: math.Float64frombits(value.StaleNaN)}
}
func StaleFloatHist() *histogram.FloatHistogram {
	return &histogram.FloatHistogram{Sum: math.Float64frombits(value.StaleNaN)}
}

// ---------------------------------------------------------------- misc

// Pick returns a random element.
func Pick[T any](r *rand.Rand, xs []T) T { return xs[r.IntN(len(xs))] }

// Chance returns true with probability 1/n.
func Chance(r *rand.Rand, n int) bool { return r.IntN(n) == 0 }

// Int64Around returns a value near one of the boundaries given (±2), or uniformly in [lo,hi].
func Int64Around(r *rand.Rand, lo, hi int64, boundaries ...int64) int64 {
	if len(boundaries) > 0 && r.IntN(3) == 0 {
		b := boundaries[r.IntN(len(boundaries))]
		return b + int64(r.IntN(5)) - 2
	}
	if hi <= lo {
		return lo
	}
	return lo + r.Int64N(hi-lo+1)
}
