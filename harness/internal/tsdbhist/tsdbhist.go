// Package tsdbhist generates single-threaded operation histories for a real tsdb.DB, executes
// them, and maintains the reference model (series → timestamp → allowed values) the history
// based monitors (C01, C20, C23, C52, C53, C03 …) compare query results with.
//
// The model is written from the property statements: a sample is in the model iff its Append
// returned nil and its appender committed with nil; a deletion removes exactly the samples of
// matching series in the range; nothing else (compaction, truncation, restart) changes it.
package tsdbhist

import (
	"context"
	"errors"
	"fmt"
	"math"
	"math/rand/v2"
	"os"
	"sort"
	"strings"
	"sync"

	"github.com/prometheus/client_golang/prometheus"
	dto "github.com/prometheus/client_model/go"

	"github.com/prometheus/prometheus/model/histogram"
	"github.com/prometheus/prometheus/model/labels"
	"github.com/prometheus/prometheus/model/value"
	"github.com/prometheus/prometheus/storage"
	"github.com/prometheus/prometheus/tsdb"
	"github.com/prometheus/prometheus/tsdb/chunkenc"
	"github.com/prometheus/prometheus/tsdb/record"
	"github.com/prometheus/prometheus/tsdb/tombstones"
	"github.com/prometheus/prometheus/tsdb/wlog"

	"verif/internal/gen"
	"verif/internal/sched"
	"verif/internal/tsdbx"
)

// Config is the option matrix of one history.
type Config struct {
	BlockRange        int64 // MinBlockDuration (= head chunk range)
	MaxBlockFactor    int64 // MaxBlockDuration = BlockRange * factor
	OOOWindow         int64
	OOOCapMax         int64
	SamplesPerChunk   int
	XOR2              bool
	STStorage         bool // requires XOR2
	HistST            bool
	IsolationDisabled bool
	Overlapping       bool
	Snapshot          bool
	UseV2             bool
	NumSeries         int
	Base              int64 // start of the logical clock
	Exemplars         bool
	WALSegment        int
}

func (c Config) String() string {
	return fmt.Sprintf("range=%d maxf=%d ooo=%d/%d spc=%d xor2=%v st=%v hst=%v iso=%v ovl=%v snap=%v v2=%v series=%d base=%d", c.BlockRange, c.MaxBlockFactor, c.OOOWindow, c.OOOCapMax, c.SamplesPerChunk, c.XOR2, c.STStorage, c.HistST, !c.IsolationDisabled, c.Overlapping, c.Snapshot, c.UseV2, c.NumSeries, c.Base)
}

func GenConfig(r *rand.Rand) Config {
	c := Config{
		BlockRange:      gen.Pick(r, []int64{100, 200, 500, 1000}),
		MaxBlockFactor:  gen.Pick(r, []int64{1, 3, 9}),
		SamplesPerChunk: gen.Pick(r, []int{4, 8, 20, 120}),
		OOOCapMax:       gen.Pick(r, []int64{4, 8, 32}),
		NumSeries:       2 + r.IntN(5),
		WALSegment:      64 * 1024,
	}
	if r.IntN(2) == 0 {
		c.OOOWindow = c.BlockRange * gen.Pick(r, []int64{1, 2, 5}) / 2
	}
	c.XOR2 = r.IntN(2) == 0
	c.STStorage = c.XOR2 && r.IntN(2) == 0
	c.HistST = r.IntN(3) == 0
	c.IsolationDisabled = r.IntN(4) == 0
	c.Overlapping = r.IntN(2) == 0
	c.Snapshot = r.IntN(3) == 0
	c.UseV2 = r.IntN(2) == 0
	switch r.IntN(6) {
	case 0:
		c.Base = -3*c.BlockRange - int64(r.IntN(50))
	case 1:
		c.Base = -int64(r.IntN(int(c.BlockRange)))
	case 2:
		c.Base = 0
	default:
		c.Base = 1_000_000 + int64(r.IntN(1000))
	}
	return c
}

func (c Config) Options() *tsdb.Options {
	o := tsdb.DefaultOptions()
	o.MinBlockDuration = c.BlockRange
	o.MaxBlockDuration = c.BlockRange * c.MaxBlockFactor
	o.RetentionDuration = 0
	o.MaxBytes = 0
	o.WALSegmentSize = c.WALSegment
	o.SamplesPerChunk = c.SamplesPerChunk
	o.OutOfOrderTimeWindow = c.OOOWindow
	o.OutOfOrderCapMax = c.OOOCapMax
	o.IsolationDisabled = c.IsolationDisabled
	o.EnableOverlappingCompaction = c.Overlapping
	o.EnableMemorySnapshotOnShutdown = c.Snapshot
	if c.XOR2 {
		o.FloatChunkEncoding = chunkenc.EncXOR2
	}
	o.EnableSTStorage = c.STStorage
	o.EnableHistogramSTEncoding = c.HistST
	o.NoLockfile = true
	o.EnableExemplarStorage = c.Exemplars
	if c.Exemplars {
		o.MaxExemplars = 64
	}
	return o
}

// ---------------------------------------------------------------- operations

type SampleOp struct {
	Series int
	T      int64
	ST     int64
	Kind   string // f | h | fh
	F      float64
	H      *histogram.Histogram
	FH     *histogram.FloatHistogram
}

func (s SampleOp) ValKey() string {
	return tsdbx.Sample{T: s.T, Kind: s.Kind, F: s.F, H: s.H, FH: s.FH}.ValKey()
}

// IsStale reports whether the sample is a staleness marker (of any sample type).
func (s SampleOp) IsStale() bool {
	switch s.Kind {
	case "f":
		return value.IsStaleNaN(s.F)
	case "h":
		return value.IsStaleNaN(s.H.Sum)
	default:
		return value.IsStaleNaN(s.FH.Sum)
	}
}

// staleKeys are the renderings of a staleness marker in the three sample types: a float marker
// appended to a series whose latest sample is a histogram is stored as a histogram marker.
var staleKeys = []string{
	tsdbx.Sample{Kind: "f", F: math.Float64frombits(value.StaleNaN)}.ValKey(),
	tsdbx.Sample{Kind: "h", H: gen.StaleHist()}.ValKey(),
	tsdbx.Sample{Kind: "fh", FH: gen.StaleFloatHist()}.ValKey(),
}

func (s SampleOp) AllowedKeys() []string {
	if s.IsStale() {
		return staleKeys
	}
	return []string{s.ValKey()}
}

type Op struct {
	Kind       string // append | delete | compact | compactHead | compactOOO | compactStale | cleanTombstones | mmap | restart | check
	Samples    []SampleOp
	Rollback   bool
	Mint, Maxt int64 // delete / compactHead
	SeriesSel  []int // delete: series indexes (matcher = regex on label s)
}

func (o Op) String() string {
	switch o.Kind {
	case "append":
		var sb strings.Builder
		if o.Rollback {
			sb.WriteString("rollback")
		} else {
			sb.WriteString("append")
		}
		for _, s := range o.Samples {
			fmt.Fprintf(&sb, " s%d@%d(%s)", s.Series, s.T, s.Kind)
		}
		return sb.String()
	case "delete":
		return fmt.Sprintf("delete[%d,%d]%v", o.Mint, o.Maxt, o.SeriesSel)
	case "compactHead":
		return fmt.Sprintf("compactHead[%d,%d]", o.Mint, o.Maxt)
	}
	return o.Kind
}

// Gen draws the next operation given the executor's current logical clock.
type Gen struct {
	R     *rand.Rand
	Cfg   Config
	Clock int64
	hists []*gen.AbsHist // per series histogram state
	kinds []string       // per series current sample kind
	// Weights can be tuned by the property using the generator.
	WDelete, WCompact, WRestart, WStale int
	NoStale                             bool
	OOOTenths                           int // tenths of the samples that are stamped behind the clock (default 2)
}

func NewGen(r *rand.Rand, cfg Config) *Gen {
	g := &Gen{R: r, Cfg: cfg, Clock: cfg.Base, WDelete: 6, WCompact: 14, WRestart: 5, WStale: 3, OOOTenths: 2}
	g.hists = make([]*gen.AbsHist, cfg.NumSeries)
	g.kinds = make([]string, cfg.NumSeries)
	for i := range g.kinds {
		g.kinds[i] = gen.Pick(r, []string{"f", "f", "f", "h", "fh"})
	}
	return g
}

func (g *Gen) value(series int, s *SampleOp) {
	r := g.R
	if r.IntN(25) == 0 {
		g.kinds[series] = gen.Pick(r, []string{"f", "h", "fh"})
	}
	k := g.kinds[series]
	stale := !g.NoStale && r.IntN(20) == 0
	switch k {
	case "f":
		s.Kind = "f"
		if stale {
			s.F = math.Float64frombits(value.StaleNaN)
		} else if r.IntN(4) == 0 {
			s.F = gen.Float(r, false)
		} else {
			s.F = float64(r.IntN(1000))
		}
	default:
		if g.hists[series] == nil || r.IntN(30) == 0 {
			g.hists[series] = gen.NewAbsHist(r, true)
		} else {
			g.hists[series] = g.hists[series].Mutate(r)
		}
		if k == "h" {
			s.Kind = "h"
			if stale {
				s.H = gen.StaleHist()
			} else {
				s.H = g.hists[series].Int(r)
			}
		} else {
			s.Kind = "fh"
			if stale {
				s.FH = gen.StaleFloatHist()
			} else {
				s.FH = g.hists[series].Float(r)
			}
		}
	}
}

func (g *Gen) Next() Op {
	r := g.R
	R := g.Cfg.BlockRange
	w := r.IntN(100)
	switch {
	case w < g.WDelete:
		span := R * int64(1+r.IntN(3))
		mint := g.Clock - int64(r.Int64N(span+1)) - int64(r.IntN(int(R)))
		maxt := mint + int64(r.Int64N(span+1))
		if r.IntN(6) == 0 {
			mint = math.MinInt64
		}
		if r.IntN(6) == 0 {
			maxt = math.MaxInt64
		}
		n := 1 + r.IntN(g.Cfg.NumSeries)
		sel := r.Perm(g.Cfg.NumSeries)[:n]
		sort.Ints(sel)
		return Op{Kind: "delete", Mint: mint, Maxt: maxt, SeriesSel: sel}
	case w < g.WDelete+g.WCompact:
		switch r.IntN(8) {
		case 0, 1, 2:
			return Op{Kind: "compact"}
		case 3:
			return Op{Kind: "compactOOO"}
		case 4:
			return Op{Kind: "cleanTombstones"}
		case 5:
			return Op{Kind: "mmap"}
		case 6:
			// explicit head compaction of an aligned or arbitrary prefix (resolved at execution)
			return Op{Kind: "compactHead", Mint: int64(r.IntN(3)), Maxt: int64(r.IntN(1000))}
		default:
			return Op{Kind: "compactStale"}
		}
	case w < g.WDelete+g.WCompact+g.WRestart:
		return Op{Kind: "restart"}
	}
	// append transaction: ≤ 1 sample per series
	// advance the clock: mostly small steps, sometimes jumps over block boundaries
	switch r.IntN(12) {
	case 0:
		g.Clock += R + int64(r.IntN(int(2*R)))
	case 1:
		// land exactly on / next to a block boundary
		b := (g.Clock/R + 1) * R
		g.Clock = b + int64(r.IntN(3)) - 1
	default:
		g.Clock += 1 + int64(r.IntN(int(R/4)+1))
	}
	op := Op{Kind: "append", Rollback: r.IntN(12) == 0}
	n := 1 + r.IntN(g.Cfg.NumSeries)
	for _, si := range r.Perm(g.Cfg.NumSeries)[:n] {
		s := SampleOp{Series: si}
		switch k := r.IntN(10); {
		case k < g.OOOTenths: // out of order: behind the clock
			back := int64(1)
			if g.Cfg.OOOWindow > 0 {
				back = 1 + r.Int64N(2*g.Cfg.OOOWindow)
			} else {
				back = 1 + r.Int64N(R)
			}
			s.T = g.Clock - back
		case k == g.OOOTenths: // slightly ahead
			s.T = g.Clock + int64(r.IntN(3))
		default:
			s.T = g.Clock
		}
		if g.Cfg.UseV2 && r.IntN(2) == 0 {
			s.ST = s.T - int64(r.IntN(500))
		}
		g.value(si, &s)
		op.Samples = append(op.Samples, s)
	}
	return op
}

// ---------------------------------------------------------------- executor + model

type Exec struct {
	// OnRestartClosed, if set, runs inside a "restart" op after the database was closed and
	// before it is opened again (to look at the files exactly as the open will find them).
	OnRestartClosed func()

	Dir    string
	Cfg    Config
	DB     *tsdb.DB
	Reg    *prometheus.Registry
	Series []labels.Labels
	Model  tsdbx.Expect
	// Zombies: samples that were out-of-order at append time (conservatively classified) and
	// were then covered by a Delete: DESIGN.md §10 item 2 (known finding: Head.Delete ignores
	// out-of-order data).  They are allowed, not required.
	Zombies  map[string]map[int64]map[string]bool
	maybeOOO map[string]map[int64]bool
	// Ghosts: samples accepted as (possibly) out-of-order whose timestamp lies in a range deleted
	// EARLIER for that series: the head keeps the old tombstone and hides the new sample until an
	// out-of-order compaction (known finding).  Allowed, not required.
	Ghosts        map[string]map[int64]bool
	deleted       map[string][][2]int64
	GhostsMissing int
	// DeletedVals: every sample removed from the model by a Delete.  If no block covers its
	// timestamp any more (the tombstoned block was dropped by CleanTombstones/compaction) a
	// restart can replay it from the WAL again (known finding): allowed, not required.
	DeletedVals map[string]map[int64]map[string]bool
	Resurrected int
	undead      map[string]map[int64]map[string]bool // resurrected once: stays allowed-not-required
	// orphan: out-of-order samples still only in the WBL.  State 1 = a restart happened since the
	// append (the series may have been given another ref, mapped through a duplicate series
	// record in the WAL), 2 = then the WAL was truncated (the duplicate record can be dropped),
	// 3 = then another restart: the WBL record may now point to an unknown ref and be skipped
	// (known finding).  State-3 samples are allowed, not required.
	orphan         map[string]map[int64]int
	OrphansMissing int
	// oooBlocks remembers every block that carried the from-out-of-order hint (ULID → range).
	// When such a block is merged with adjacent in-order blocks the merged block has no hint, so
	// a restart cuts WAL replay at its MaxTime although in-order data below it may still live
	// only in the head/WAL (known finding).  In-order samples missing after a restart that lie
	// inside the range of such a source block are allowed-not-required.
	oooBlocks map[string][2]int64
	oooMu     sync.Mutex
	ctl       *sched.Controller
	sharedCtl bool
	// Optional: samples that may or may not be present with one of the given values (in-flight
	// commit at a crash).  MayMiss: model samples that may be absent (in-flight delete at a crash,
	// or a narrowly classified known finding set by the caller).
	Optional           map[string]map[int64]map[string]bool
	MayMiss            map[string]map[int64]bool
	OptionalSeen       int
	MayMissObserved    int
	LostBehindOOOMerge int
	lostSticky         map[string]map[int64]bool // samples once tolerated as lost behind a merged out-of-order block
	seriesMaxT         map[string]int64          // largest timestamp accepted per series so far
	inOrderSure        map[string]map[int64]bool // samples that were in-order for their series at append time
	Steps              []string
	// Stats
	Accepted, Rejected, OOOAccepted                    int
	Commits, Rollbacks, Deletes, Compactions, Restarts int
	BlocksSeen                                         int
	ErrClasses                                         map[string]int
	ZombiesObserved                                    int
	LastAppendErrs                                     []error // per sample of the last append op
	LastRec                                            AckRec
}

// SharedCtl, when set, is used by executors instead of installing their own hook controller
// (a crash-test child installs one controller for crash points and the executor's observers).
var SharedCtl *sched.Controller

// NewModelExec creates an executor without opening the DB (model replay in a crash-test parent).
func NewModelExec(dir string, cfg Config) *Exec {
	e := newExec(dir, cfg)
	return e
}

// OpenDB opens (or re-opens) the real DB of a model executor.
func (e *Exec) OpenDB() error {
	if err := e.open(); err != nil {
		return err
	}
	e.installObserver()
	return nil
}

func newExec(dir string, cfg Config) *Exec {
	e := &Exec{Dir: dir, Cfg: cfg, Model: tsdbx.Expect{}, Zombies: map[string]map[int64]map[string]bool{}, maybeOOO: map[string]map[int64]bool{}, ErrClasses: map[string]int{}, undead: map[string]map[int64]map[string]bool{}, orphan: map[string]map[int64]int{}, oooBlocks: map[string][2]int64{}, DeletedVals: map[string]map[int64]map[string]bool{}, Ghosts: map[string]map[int64]bool{}, deleted: map[string][][2]int64{}}
	e.Series = gen.SimpleSeries(cfg.NumSeries)
	return e
}

func NewExec(dir string, cfg Config) (*Exec, error) {
	e := newExec(dir, cfg)
	if err := e.open(); err != nil {
		return nil, err
	}
	e.installObserver()
	return e, nil
}

// installObserver watches the out-of-order blocks at the moment they are loaded (inside
// DB.Compact they may be merged away again before Compact returns).
func (e *Exec) installObserver() {
	if e.ctl != nil {
		return
	}
	if SharedCtl != nil {
		e.ctl = SharedCtl
		e.sharedCtl = true
	} else {
		e.ctl = sched.Install()
	}
	e.ctl.OnHit(func(site string, _ *sched.Actor) {
		if site == "tsdb.compactOOO.afterReload" && e.DB != nil {
			e.scanOOOBlocks()
		}
	})
}

func (e *Exec) scanOOOBlocks() {
	for _, b := range e.DB.Blocks() {
		if m := b.Meta(); m.Compaction.FromOutOfOrder() && m.Compaction.Level == 1 {
			e.oooMu.Lock()
			e.oooBlocks[m.ULID.String()] = [2]int64{m.MinTime, m.MaxTime}
			e.oooMu.Unlock()
		}
	}
}

func (e *Exec) open() error {
	e.Reg = prometheus.NewRegistry()
	db, err := tsdb.Open(e.Dir, tsdbx.NopLogger(), e.Reg, e.Cfg.Options(), nil)
	if err != nil {
		return err
	}
	db.DisableCompactions()
	e.DB = db
	return nil
}

func (e *Exec) Close() error {
	if e.ctl != nil {
		if !e.sharedCtl {
			e.ctl.Uninstall()
		}
		e.ctl = nil
	}
	if e.DB == nil {
		return nil
	}
	err := e.DB.Close()
	e.DB = nil
	return err
}

// Counter reads a counter/gauge (summed over label values) from the DB's registry.
func (e *Exec) Counter(name string) float64 {
	mfs, err := e.Reg.Gather()
	if err != nil {
		return math.NaN()
	}
	return SumMetric(mfs, name)
}

func SumMetric(mfs []*dto.MetricFamily, name string) float64 {
	t := 0.0
	for _, mf := range mfs {
		if mf.GetName() != name {
			continue
		}
		for _, m := range mf.Metric {
			if m.Counter != nil {
				t += m.Counter.GetValue()
			}
			if m.Gauge != nil {
				t += m.Gauge.GetValue()
			}
		}
	}
	return t
}

func ErrClass(err error) string {
	switch {
	case err == nil:
		return "nil"
	case errors.Is(err, storage.ErrOutOfBounds):
		return "out-of-bounds"
	case errors.Is(err, storage.ErrTooOldSample):
		return "too-old"
	case errors.Is(err, storage.ErrOutOfOrderSample):
		return "out-of-order"
	case errors.Is(err, storage.ErrDuplicateSampleForTimestamp):
		return "duplicate"
	default:
		s := err.Error()
		if len(s) > 60 {
			s = s[:60]
		}
		return "other:" + s
	}
}

// Apply executes one operation against the real DB and updates the model.  A returned error is
// an error of an operation that the model expects to succeed (maintenance, commit, reopen).
// AckRec is what the executor observed while applying an operation; together with the operation
// it determines the model update.  A crash-test child logs it, the parent replays the model.
type AckRec struct {
	Accepted      []bool `json:"acc,omitempty"` // per sample of an append: Append returned nil
	OOODelta      int    `json:"ooo,omitempty"` // growth of out_of_order_samples_appended_total over the commit
	HeadMaxBefore int64  `json:"hb,omitempty"`
	HeadMaxAfter  int64  `json:"ha,omitempty"`
}

// modelPre advances the per-sample state machines that depend on the operation kind only.
func (e *Exec) modelPre(op Op) {
	switch op.Kind {
	case "restart":
		e.Restarts++
		for _, m := range e.orphan {
			for t, st := range m {
				if st == 0 || st == 2 {
					m[t] = st + 1
				}
			}
		}
	case "compact", "compactHead", "compactStale":
		for _, m := range e.orphan {
			for t, st := range m {
				if st == 1 {
					m[t] = 2
				}
			}
		}
	case "compactOOO":
		for _, m := range e.orphan {
			for t, st := range m {
				if st < 3 {
					delete(m, t)
				}
			}
		}
	}
}

// ReplayModel applies only the model effects of an acknowledged operation (no DB involved).
func (e *Exec) ReplayModel(op Op, rec AckRec) {
	e.Steps = append(e.Steps, op.String())
	e.modelPre(op)
	switch op.Kind {
	case "append":
		if !op.Rollback {
			e.modelAppend(op, rec)
		}
	case "delete":
		e.modelDelete(op)
	}
}

func (e *Exec) Apply(op Op) error {
	e.Steps = append(e.Steps, op.String())
	e.modelPre(op)
	ctx := context.Background()
	switch op.Kind {
	case "append":
		return e.applyAppend(op)
	case "delete":
		var names []string
		for _, i := range op.SeriesSel {
			names = append(names, fmt.Sprint(i))
		}
		m := labels.MustNewMatcher(labels.MatchRegexp, "s", strings.Join(names, "|"))
		if err := e.DB.Delete(ctx, op.Mint, op.Maxt, m); err != nil {
			return fmt.Errorf("Delete: %w", err)
		}
		e.modelDelete(op)
	case "compact":
		e.Compactions++
		if err := e.DB.Compact(ctx); err != nil {
			return fmt.Errorf("Compact: %w", err)
		}
	case "compactOOO":
		e.Compactions++
		if err := e.DB.CompactOOOHead(ctx); err != nil {
			return fmt.Errorf("CompactOOOHead: %w", err)
		}
	case "compactStale":
		e.Compactions++
		if err := e.DB.CompactStaleHead(); err != nil {
			return fmt.Errorf("CompactStaleHead: %w", err)
		}
	case "cleanTombstones":
		if err := e.DB.CleanTombstones(); err != nil {
			return fmt.Errorf("CleanTombstones: %w", err)
		}
	case "mmap":
		e.DB.ForceHeadMMap()
	case "compactHead":
		h := e.DB.Head()
		hmin, hmax := h.MinTime(), h.MaxTime()
		if hmin > hmax { // empty head
			return nil
		}
		R := e.Cfg.BlockRange
		var maxt int64
		switch op.Mint {
		case 0, 2: // the range DB.Compact itself would pick (rangeForTimestamp: chunk cuts use the same formula)
			maxt = floorDiv(hmin, R)*R + R - 1
		default: // whole head (what "flush on shutdown" users of CompactHead do)
			maxt = hmax
		}
		_ = floorDiv
		e.Compactions++
		e.Steps[len(e.Steps)-1] = fmt.Sprintf("compactHead[%d,%d]", hmin, maxt)
		if err := e.DB.CompactHead(tsdb.NewRangeHead(h, hmin, maxt)); err != nil {
			return fmt.Errorf("CompactHead[%d,%d]: %w", hmin, maxt, err)
		}
	case "restart":
		if err := e.DB.Close(); err != nil {
			e.DB = nil
			return fmt.Errorf("Close: %w", err)
		}
		if e.OnRestartClosed != nil {
			e.OnRestartClosed()
		}
		if err := e.open(); err != nil {
			e.DB = nil
			return fmt.Errorf("reopen: %w", err)
		}
	}
	if e.DB != nil {
		if n := len(e.DB.Blocks()); n > e.BlocksSeen {
			e.BlocksSeen = n
		}
		e.scanOOOBlocks()
	}
	return nil
}

func floorDiv(a, b int64) int64 {
	q := a / b
	if (a%b != 0) && ((a < 0) != (b < 0)) {
		q--
	}
	return q
}

func (e *Exec) applyAppend(op Op) error {
	ctx := context.Background()
	headMax := e.DB.Head().MaxTime()
	oooBefore := e.Counter("prometheus_tsdb_head_out_of_order_samples_appended_total")
	var accepted []SampleOp
	e.LastAppendErrs = e.LastAppendErrs[:0]
	var commit func() error
	var rollback func() error
	if e.Cfg.UseV2 {
		app := e.DB.AppenderV2(ctx)
		for _, s := range op.Samples {
			_, err := app.Append(0, e.Series[s.Series], s.ST, s.T, s.F, s.H, s.FH, storage.AOptions{})
			e.noteAppend(s, err, &accepted)
		}
		commit, rollback = app.Commit, app.Rollback
	} else {
		app := e.DB.Appender(ctx)
		for _, s := range op.Samples {
			var err error
			if s.Kind == "f" {
				_, err = app.Append(0, e.Series[s.Series], s.T, s.F)
			} else {
				_, err = app.AppendHistogram(0, e.Series[s.Series], s.T, s.H, s.FH)
			}
			e.noteAppend(s, err, &accepted)
		}
		commit, rollback = app.Commit, app.Rollback
	}
	if op.Rollback {
		e.Rollbacks++
		if err := rollback(); err != nil {
			return fmt.Errorf("Rollback: %w", err)
		}
		return nil
	}
	if err := commit(); err != nil {
		return fmt.Errorf("Commit: %w", err)
	}
	rec := AckRec{OOODelta: int(e.Counter("prometheus_tsdb_head_out_of_order_samples_appended_total") - oooBefore), HeadMaxBefore: headMax, HeadMaxAfter: e.DB.Head().MaxTime()}
	for _, err := range e.LastAppendErrs {
		rec.Accepted = append(rec.Accepted, err == nil)
	}
	e.LastRec = rec
	e.modelAppend(op, rec)
	return nil
}

func (e *Exec) modelAppend(op Op, rec AckRec) {
	e.Commits++
	oooDelta, headMax, headMaxAfter := rec.OOODelta, rec.HeadMaxBefore, rec.HeadMaxAfter
	e.OOOAccepted += oooDelta
	for i, s := range op.Samples {
		if i >= len(rec.Accepted) || !rec.Accepted[i] {
			continue
		}
		k := e.Series[s.Series].String()
		for _, vk := range s.AllowedKeys() {
			e.Model.Add(k, s.T, vk)
		}
		// newer than everything this series was given before and not below the head's in-order window:
		// in-order for its series even when the conservative rule below (it only sees that the
		// transaction contained some out-of-order sample) calls it "maybe out-of-order"
		if prev, ok := e.seriesMaxT[k]; (!ok || s.T > prev) && s.T >= headMax-e.Cfg.BlockRange/2 {
			if e.inOrderSure == nil {
				e.inOrderSure = map[string]map[int64]bool{}
			}
			if e.inOrderSure[k] == nil {
				e.inOrderSure[k] = map[int64]bool{}
			}
			e.inOrderSure[k][s.T] = true
		}
		if prev, ok := e.seriesMaxT[k]; !ok || s.T > prev {
			if e.seriesMaxT == nil {
				e.seriesMaxT = map[string]int64{}
			}
			e.seriesMaxT[k] = s.T
		}
		if oooDelta > 0 && (s.T <= headMax || s.T < headMaxAfter) {
			if e.maybeOOO[k] == nil {
				e.maybeOOO[k] = map[int64]bool{}
			}
			e.maybeOOO[k][s.T] = true
			if e.orphan[k] == nil {
				e.orphan[k] = map[int64]int{}
			}
			e.orphan[k][s.T] = 0
			for _, d := range e.deleted[k] {
				if s.T >= d[0] && s.T <= d[1] {
					if e.Ghosts[k] == nil {
						e.Ghosts[k] = map[int64]bool{}
					}
					e.Ghosts[k][s.T] = true
				}
			}
		}
		if z := e.Zombies[k][s.T]; z != nil {
			// re-append onto a zombie timestamp: either value may come back
			for _, vk := range s.AllowedKeys() {
				z[vk] = true
			}
			// ... or none: the out-of-order head still holds the zombie, so an identical re-append
			// is a no-op there (the out-of-order counter does not move) and the sample stays
			// hidden behind the tombstone of the earlier delete, exactly like a ghost
			if e.maybeOOO[k] == nil {
				e.maybeOOO[k] = map[int64]bool{}
			}
			e.maybeOOO[k][s.T] = true
			if e.Ghosts[k] == nil {
				e.Ghosts[k] = map[int64]bool{}
			}
			e.Ghosts[k][s.T] = true
		}
	}
}

func (e *Exec) modelDelete(op Op) {
	e.Deletes++
	for _, i := range op.SeriesSel {
		k := e.Series[i].String()
		e.deleted[k] = append(e.deleted[k], [2]int64{op.Mint, op.Maxt})
		for t, vals := range e.Model[k] {
			if t >= op.Mint && t <= op.Maxt {
				delete(e.Ghosts[k], t)
				if e.DeletedVals[k] == nil {
					e.DeletedVals[k] = map[int64]map[string]bool{}
				}
				if e.DeletedVals[k][t] == nil {
					e.DeletedVals[k][t] = map[string]bool{}
				}
				for v := range vals {
					e.DeletedVals[k][t][v] = true
				}
				if e.maybeOOO[k][t] {
					if e.Zombies[k] == nil {
						e.Zombies[k] = map[int64]map[string]bool{}
					}
					if e.Zombies[k][t] == nil {
						e.Zombies[k][t] = map[string]bool{}
					}
					for v := range vals {
						e.Zombies[k][t][v] = true
					}
				}
				delete(e.Model[k], t)
			}
		}
	}
}

func (e *Exec) noteAppend(s SampleOp, err error, accepted *[]SampleOp) {
	e.LastAppendErrs = append(e.LastAppendErrs, err)
	e.ErrClasses[ErrClass(err)]++
	if err == nil {
		e.Accepted++
		*accepted = append(*accepted, s)
	} else {
		e.Rejected++
	}
}

// effective returns the expectation with observed zombies admitted.
func (e *Exec) effective(d tsdbx.Dump) tsdbx.Expect {
	if len(e.Zombies) == 0 && len(e.Ghosts) == 0 && len(e.DeletedVals) == 0 && len(e.orphan) == 0 && len(e.oooBlocks) == 0 && len(e.Optional) == 0 && len(e.MayMiss) == 0 && len(e.lostSticky) == 0 {
		return e.Model
	}
	m := e.Model.Clone()
	if len(e.Optional) > 0 || len(e.MayMiss) > 0 {
		for k := range e.Optional {
			for _, smp := range d[k] {
				if vals := e.Optional[k][smp.T]; vals != nil && vals[smp.ValKey()] && !m[k][smp.T][smp.ValKey()] {
					m.Add(k, smp.T, smp.ValKey())
					e.OptionalSeen++
				}
			}
		}
		for k, ts := range e.MayMiss {
			obs := map[int64]bool{}
			for _, smp := range d[k] {
				obs[smp.T] = true
			}
			for t := range ts {
				if !obs[t] && m[k][t] != nil {
					delete(m[k], t)
					e.MayMissObserved++
				}
			}
		}
	}
	// samples already seen lost behind a merged out-of-order block stay lost (the block that proved
	// the merge may since have been rewritten, e.g. by CleanTombstones, and lost its sources)
	for k, ts := range e.lostSticky {
		obs := map[int64]bool{}
		for _, s := range d[k] {
			obs[s.T] = true
		}
		for t := range ts {
			if !obs[t] && m[k][t] != nil {
				delete(m[k], t)
			}
		}
	}
	if e.Restarts > 0 && e.DB != nil && len(e.oooBlocks) > 0 {
		// ranges of out-of-order source blocks that were merged into a block without the hint
		var cut [][2]int64
		for _, b := range e.DB.Blocks() {
			bm := b.Meta()
			if bm.Compaction.FromOutOfOrder() || bm.Compaction.Level < 2 {
				continue
			}
			for _, src := range bm.Compaction.Sources {
				if rg, ok := e.oooBlocks[src.String()]; ok {
					cut = append(cut, rg)
				}
			}
		}
		if len(cut) > 0 {
			for k, ts := range m {
				obs := map[int64]bool{}
				for _, s := range d[k] {
					obs[s.T] = true
				}
				for t := range ts {
					if obs[t] || (e.maybeOOO[k][t] && !e.inOrderSure[k][t]) {
						continue
					}
					for _, rg := range cut {
						if t >= rg[0] && t < rg[1] {
							delete(ts, t)
							e.LostBehindOOOMerge++
							if e.lostSticky == nil {
								e.lostSticky = map[string]map[int64]bool{}
							}
							if e.lostSticky[k] == nil {
								e.lostSticky[k] = map[int64]bool{}
							}
							e.lostSticky[k][t] = true
							break
						}
					}
				}
			}
		}
	}
	for k, os := range e.orphan {
		var obs map[int64]bool
		for t, st := range os {
			if st < 3 || m[k][t] == nil {
				continue
			}
			if obs == nil {
				obs = map[int64]bool{}
				for _, s := range d[k] {
					obs[s.T] = true
				}
			}
			if !obs[t] {
				delete(m[k], t)
				e.OrphansMissing++
			}
		}
	}
	if len(e.DeletedVals) > 0 && e.Restarts > 0 && e.DB != nil {
		blocks := e.DB.Blocks()
		covered := func(t int64) bool {
			for _, b := range blocks {
				bm := b.Meta()
				if bm.Compaction.FromOutOfOrder() || bm.Compaction.FromStaleSeries() || bm.Compaction.FromSelectedSeries() {
					continue // such blocks do not raise the WAL replay cutoff
				}
				if bm.MinTime <= t && t < bm.MaxTime {
					return true
				}
			}
			return false
		}
		for k, ss := range d {
			for _, smp := range ss {
				if vals := e.DeletedVals[k][smp.T]; vals != nil && vals[smp.ValKey()] && m[k][smp.T] == nil {
					if u := e.undead[k][smp.T]; u != nil && u[smp.ValKey()] {
						m.Add(k, smp.T, smp.ValKey())
						continue
					}
					if !covered(smp.T) {
						m.Add(k, smp.T, smp.ValKey())
						e.Resurrected++
						if e.undead[k] == nil {
							e.undead[k] = map[int64]map[string]bool{}
						}
						if e.undead[k][smp.T] == nil {
							e.undead[k][smp.T] = map[string]bool{}
						}
						e.undead[k][smp.T][smp.ValKey()] = true
					}
				}
			}
		}
	}
	for k, gs := range e.Ghosts {
		obs := map[int64]bool{}
		for _, s := range d[k] {
			obs[s.T] = true
		}
		for t := range gs {
			if !obs[t] && m[k][t] != nil {
				// hidden by the earlier tombstone: tolerated, counted
				delete(m[k], t)
				e.GhostsMissing++
			}
		}
	}
	for k, zs := range e.Zombies {
		obs := map[int64]string{}
		for _, s := range d[k] {
			obs[s.T] = s.ValKey()
		}
		for t, vals := range zs {
			if v, ok := obs[t]; ok && vals[v] {
				m.Add(k, t, v)
				if !e.Model[k][t][v] {
					e.ZombiesObserved++
				}
			}
		}
	}
	return m
}

// Check queries the DB (sample- and chunk-level, full range and one sub-range) and compares
// with the model.  It returns "" or a first-difference description.
func (e *Exec) Check(r *rand.Rand) string {
	full := [2]int64{math.MinInt64, math.MaxInt64}
	ranges := [][2]int64{full}
	if r != nil {
		R := e.Cfg.BlockRange
		lo := e.Cfg.Base - 3*R + r.Int64N(10*R)
		hi := lo + r.Int64N(6*R)
		ranges = append(ranges, [2]int64{lo, hi})
		// a range cutting exactly at a block boundary
		b := floorDiv(lo, R) * R
		ranges = append(ranges, [2]int64{b, b + R - 1 + int64(r.IntN(2))})
	}
	for _, rg := range ranges {
		if diff := e.checkRange(rg[0], rg[1]); diff != "" {
			return diff
		}
	}
	return ""
}

func (e *Exec) checkRange(mint, maxt int64) string {
	q, err := e.DB.Querier(mint, maxt)
	if err != nil {
		return fmt.Sprintf("Querier(%d,%d): %v", mint, maxt, err)
	}
	defer q.Close() // also on a panic inside repo code, so that DB.Close does not wait forever
	d, _, err := tsdbx.DumpQuerier(q)
	if err != nil {
		return fmt.Sprintf("Select over [%d,%d]: %v", mint, maxt, err)
	}
	if diff := tsdbx.Compare(e.effective(d), d, mint, maxt); diff != "" {
		return fmt.Sprintf("sample query [%d,%d]: %s", mint, maxt, diff)
	}
	cq, err := e.DB.ChunkQuerier(mint, maxt)
	if err != nil {
		return fmt.Sprintf("ChunkQuerier(%d,%d): %v", mint, maxt, err)
	}
	defer cq.Close()
	cd, _, err := tsdbx.DumpChunkQuerier(cq)
	if err != nil {
		return fmt.Sprintf("chunk Select over [%d,%d]: %v", mint, maxt, err)
	}
	// chunk queriers may return whole chunks overlapping the range: trim before comparing
	for k, ss := range cd {
		var t []tsdbx.Sample
		for _, s := range ss {
			if s.T >= mint && s.T <= maxt {
				t = append(t, s)
			}
		}
		cd[k] = t
	}
	if diff := tsdbx.Compare(e.effective(cd), cd, mint, maxt); diff != "" {
		return fmt.Sprintf("chunk query [%d,%d]: %s", mint, maxt, diff)
	}
	return ""
}

// History renders the executed steps for witnesses.
func (e *Exec) History() string { return strings.Join(e.Steps, " ; ") }

// Diagnose renders where data currently lives (per block: range, compaction info, samples per
// series with tombstones applied; head bounds) – appended to witnesses.
func (e *Exec) Diagnose() string {
	if e.DB == nil {
		return "(db closed)"
	}
	var sb strings.Builder
	h := e.DB.Head()
	fmt.Fprintf(&sb, "head: min=%d max=%d minOOO=%d maxOOO=%d series=%d\n", h.MinTime(), h.MaxTime(), h.MinOOOTime(), h.MaxOOOTime(), h.NumSeries())
	if q, err := tsdb.NewBlockQuerier(tsdb.NewRangeHead(h, math.MinInt64, math.MaxInt64), math.MinInt64, math.MaxInt64); err == nil {
		d, _, _ := tsdbx.DumpQuerier(q)
		q.Close()
		fmt.Fprintf(&sb, "  in-order head: %s", strings.ReplaceAll(d.Brief(), "\n", " | "))
		sb.WriteString("\n")
	}
	if tr, err := h.Tombstones(); err == nil {
		tr.Iter(func(ref storage.SeriesRef, ivs tombstones.Intervals) error {
			fmt.Fprintf(&sb, "  head tombstone ref=%d %v\n", ref, ivs)
			return nil
		})
	}
	fmt.Fprintf(&sb, "  head refs: %v\n", h.VerifSeriesRefs())
	for _, b := range e.DB.Blocks() {
		m := b.Meta()
		fmt.Fprintf(&sb, "block %s [%d,%d) level=%d sources=%d hints=%v tombstones=%d\n", m.ULID, m.MinTime, m.MaxTime, m.Compaction.Level, len(m.Compaction.Sources), m.Compaction.Hints, m.Stats.NumTombstones)
		q, err := tsdb.NewBlockQuerier(b, math.MinInt64, math.MaxInt64)
		if err != nil {
			fmt.Fprintf(&sb, "  querier: %v\n", err)
			continue
		}
		d, _, err := tsdbx.DumpQuerier(q)
		q.Close()
		fmt.Fprintf(&sb, "  %s err=%v\n", strings.ReplaceAll(d.Brief(), "\n", " | "), err)
	}
	return sb.String()
}

// DiskSummary decodes the WBL (samples and m-map markers) and lists the head chunk files.
func DiskSummary(dir string) string {
	var sb strings.Builder
	for _, sub := range []string{"wbl", "wal"} {
		d := dir + "/" + sub
		sr, err := wlog.NewSegmentsReader(d)
		if err != nil {
			fmt.Fprintf(&sb, "%s: %v\n", sub, err)
			continue
		}
		r := wlog.NewReader(sr)
		dec := record.NewDecoder(labels.NewSymbolTable(), tsdbx.NopLogger())
		n := 0
		for r.Next() {
			rec := r.Record()
			n++
			switch dec.Type(rec) {
			case record.Samples, record.SamplesV2:
				ss, _ := dec.Samples(rec, nil)
				if sub == "wbl" {
					for _, s := range ss {
						fmt.Fprintf(&sb, "%s#%d sample ref=%d t=%d | ", sub, n, s.Ref, s.T)
					}
				}
			case record.MmapMarkers:
				ms, _ := dec.MmapMarkers(rec, nil)
				for _, m := range ms {
					fmt.Fprintf(&sb, "%s#%d mmapmarker ref=%d mmapref=%d | ", sub, n, m.Ref, m.MmapRef)
				}
			case record.HistogramSamples, record.FloatHistogramSamples, record.CustomBucketsHistogramSamples, record.CustomBucketsFloatHistogramSamples:
				if sub == "wbl" {
					fmt.Fprintf(&sb, "%s#%d histrec type=%v | ", sub, n, dec.Type(rec))
				}
			}
		}
		fmt.Fprintf(&sb, "\n%s: %d records err=%v\n", sub, n, r.Err())
		sr.Close()
	}
	if es, err := os.ReadDir(dir + "/chunks_head"); err == nil {
		for _, e := range es {
			fi, _ := e.Info()
			fmt.Fprintf(&sb, "chunks_head/%s %d bytes\n", e.Name(), fi.Size())
		}
	}
	return sb.String()
}

// AllowOptional marks (series,t) as possibly present with one of vals.
func (e *Exec) AllowOptional(series string, t int64, vals ...string) {
	if e.Optional == nil {
		e.Optional = map[string]map[int64]map[string]bool{}
	}
	if e.Optional[series] == nil {
		e.Optional[series] = map[int64]map[string]bool{}
	}
	if e.Optional[series][t] == nil {
		e.Optional[series][t] = map[string]bool{}
	}
	for _, v := range vals {
		e.Optional[series][t][v] = true
	}
}

// AllowMissing marks a model sample as possibly absent.
func (e *Exec) AllowMissing(series string, t int64) {
	if e.MayMiss == nil {
		e.MayMiss = map[string]map[int64]bool{}
	}
	if e.MayMiss[series] == nil {
		e.MayMiss[series] = map[int64]bool{}
	}
	e.MayMiss[series][t] = true
}

// WBLOnlySamples lists the out-of-order samples that, as far as the model knows, still live
// only in the WBL / out-of-order head (not yet out-of-order compacted).
func (e *Exec) WBLOnlySamples() map[string][]int64 {
	out := map[string][]int64{}
	for k, m := range e.orphan {
		for t := range m {
			out[k] = append(out[k], t)
		}
	}
	return out
}

// IsMaybeOOO reports whether the model classified the accepted sample as (possibly) out-of-order.
// IsInOrderSure reports whether the sample was newer than everything its series had been given
// before when it was appended (in-order for its series, whatever IsMaybeOOO says).
func (e *Exec) IsInOrderSure(k string, t int64) bool { return e.inOrderSure[k][t] }

func (e *Exec) IsMaybeOOO(series string, t int64) bool { return e.maybeOOO[series][t] }

func clone3(m map[string]map[int64]map[string]bool) map[string]map[int64]map[string]bool {
	out := map[string]map[int64]map[string]bool{}
	for k, a := range m {
		out[k] = map[int64]map[string]bool{}
		for t, b := range a {
			out[k][t] = map[string]bool{}
			for v := range b {
				out[k][t][v] = true
			}
		}
	}
	return out
}

func clone2[V any](m map[string]map[int64]V) map[string]map[int64]V {
	out := map[string]map[int64]V{}
	for k, a := range m {
		out[k] = map[int64]V{}
		for t, v := range a {
			out[k][t] = v
		}
	}
	return out
}

// CloneModel returns a model-only executor for another directory holding a copy of this
// executor's data: the model and all classification state are deep-copied, no DB is attached.
func (e *Exec) CloneModel(dir string) *Exec {
	x := newExec(dir, e.Cfg)
	x.Model = e.Model.Clone()
	x.Zombies = clone3(e.Zombies)
	x.DeletedVals = clone3(e.DeletedVals)
	x.undead = clone3(e.undead)
	x.maybeOOO = clone2(e.maybeOOO)
	x.Ghosts = clone2(e.Ghosts)
	x.orphan = clone2(e.orphan)
	if len(e.seriesMaxT) > 0 {
		x.seriesMaxT = map[string]int64{}
		for k, v := range e.seriesMaxT {
			x.seriesMaxT[k] = v
		}
	}
	if len(e.inOrderSure) > 0 {
		x.inOrderSure = clone2(e.inOrderSure)
	}
	if len(e.lostSticky) > 0 {
		x.lostSticky = map[string]map[int64]bool{}
		for k, ts := range e.lostSticky {
			x.lostSticky[k] = map[int64]bool{}
			for t := range ts {
				x.lostSticky[k][t] = true
			}
		}
	}
	for k, v := range e.deleted {
		x.deleted[k] = append([][2]int64(nil), v...)
	}
	e.oooMu.Lock()
	for k, v := range e.oooBlocks {
		x.oooBlocks[k] = v
	}
	e.oooMu.Unlock()
	x.Steps = append([]string(nil), e.Steps...)
	x.Restarts = e.Restarts
	return x
}
