module verif

go 1.25.10

require (
	github.com/anishathalye/porcupine v1.3.0
	github.com/prometheus/prometheus v0.0.0
	golang.org/x/text v0.40.0
)

require (
	github.com/cespare/xxhash/v2 v2.3.0 // indirect
	github.com/grafana/regexp v0.0.0-20250905093917-f7b3be9d1853 // indirect
	github.com/prometheus/client_model v0.6.2 // indirect
	github.com/prometheus/common v0.70.1 // indirect
	google.golang.org/protobuf v1.36.12 // indirect
)

replace github.com/prometheus/prometheus => /repo
