module verif

go 1.25.10

require (
	github.com/anishathalye/porcupine v1.3.0
	github.com/prometheus/common v0.70.1
	github.com/prometheus/prometheus v0.0.0
	golang.org/x/text v0.40.0
)

require (
	github.com/beorn7/perks v1.0.1 // indirect
	github.com/cespare/xxhash/v2 v2.3.0 // indirect
	github.com/dennwc/varint v1.0.0 // indirect
	github.com/grafana/regexp v0.0.0-20250905093917-f7b3be9d1853 // indirect
	github.com/munnerz/goautoneg v0.0.0-20191010083416-a7dc8b61c822 // indirect
	github.com/prometheus/client_golang v1.24.1 // indirect
	github.com/prometheus/client_model v0.6.2 // indirect
	github.com/prometheus/procfs v0.21.1 // indirect
	go.uber.org/atomic v1.11.0 // indirect
	golang.org/x/sys v0.47.0 // indirect
	google.golang.org/protobuf v1.36.12 // indirect
)

replace github.com/prometheus/prometheus => /repo
