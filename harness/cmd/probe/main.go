package main

import (
	"context"
	"fmt"
	"math"
	"os"
	"os/exec"

	"github.com/prometheus/prometheus/model/labels"
	"github.com/prometheus/prometheus/tsdb"

	"verif/internal/tsdbx"
)

func main() {
	dir, _ := os.MkdirTemp("/var/tmp", "probe")
	defer os.RemoveAll(dir)
	o := tsdb.DefaultOptions()
	o.MinBlockDuration = 200
	o.MaxBlockDuration = 1800
	o.RetentionDuration = 0
	o.EnableMemorySnapshotOnShutdown = true
	o.SamplesPerChunk = 4
	open := func(d string) *tsdb.DB {
		db, err := tsdb.Open(d, tsdbx.NopLogger(), nil, o, nil)
		if err != nil {
			panic(err)
		}
		db.DisableCompactions()
		return db
	}
	db := open(dir)
	ls := labels.FromStrings("__name__", "m", "s", "0")
	add := func(t int64) {
		app := db.Appender(context.Background())
		_, err := app.Append(0, ls, t, float64(t))
		fmt.Println("append", t, err, app.Commit())
	}
	base := int64(-638)
	if len(os.Args) > 1 {
		base = 1000
	}
	add(base + 29)
	add(base + 7)
	db.Close()
	db = open(dir)
	add(base + 300)
	add(base + 401)
	add(base + 485)
	exec.Command("cp", "-r", dir, dir+".img").Run()
	defer os.RemoveAll(dir + ".img")
	db.Close()
	os.Remove(dir + ".img/lock")
	db2 := open(dir + ".img")
	q, _ := db2.Querier(math.MinInt64, math.MaxInt64)
	d, _, err := tsdbx.DumpQuerier(q)
	q.Close()
	fmt.Println("after crash reopen:", d, err)
	db2.Close()
}
