package main

import (
	"context"
	"fmt"
	"math"
	"os"

	"github.com/prometheus/prometheus/model/labels"
	"github.com/prometheus/prometheus/tsdb"

	"verif/internal/tsdbx"
)

func main() {
	dir, _ := os.MkdirTemp("/var/tmp", "probe")
	defer os.RemoveAll(dir)
	o := tsdb.DefaultOptions()
	o.MinBlockDuration = 1000
	o.MaxBlockDuration = 9000
	o.RetentionDuration = 0
	db, err := tsdb.Open(dir, tsdbx.NopLogger(), nil, o, nil)
	if err != nil {
		panic(err)
	}
	db.DisableCompactions()
	ls := labels.FromStrings("__name__", "m", "s", "0")
	app := db.Appender(context.Background())
	app.Append(0, ls, 225, 1)
	app.Commit()
	app = db.Appender(context.Background())
	app.Append(0, ls, 251, 2)
	app.Commit()
	fmt.Println(db.CompactHead(tsdb.NewRangeHead(db.Head(), 225, 438)))
	app = db.Appender(context.Background())
	app.Append(0, ls, 1327, 3)
	app.Commit()
	dump := func(tag string) {
		q, _ := db.Querier(math.MinInt64, math.MaxInt64)
		d, _, err := tsdbx.DumpQuerier(q)
		q.Close()
		fmt.Println(tag, d, err)
	}
	dump("before")
	m := labels.MustNewMatcher(labels.MatchRegexp, "s", "0|1")
	fmt.Println(db.Delete(context.Background(), math.MinInt64, math.MaxInt64, m))
	dump("after")
	for _, b := range db.Blocks() {
		fmt.Println(b.Meta().MinTime, b.Meta().MaxTime, b.Meta().Stats)
	}
	db.Close()
}
