//go:build !only || only_c39

package main

import _ "verif/props/c39"
