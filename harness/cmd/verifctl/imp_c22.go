//go:build !only || only_c22

package main

import _ "verif/props/c22"
