//go:build !only || only_c08

package main

import _ "verif/props/c08"
