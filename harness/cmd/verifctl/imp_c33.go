//go:build !only || only_c33

package main

import _ "verif/props/c33"
