//go:build !only || only_c31

package main

import _ "verif/props/c31"
