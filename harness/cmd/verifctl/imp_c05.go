//go:build !only || only_c05

package main

import _ "verif/props/c05"
