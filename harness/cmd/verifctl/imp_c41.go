//go:build !only || only_c41

package main

import _ "verif/props/c41"
