//go:build !only || only_c26

package main

import _ "verif/props/c26"
