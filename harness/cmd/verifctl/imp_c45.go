//go:build !only || only_c45

package main

import _ "verif/props/c45"
