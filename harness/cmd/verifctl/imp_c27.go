//go:build !only || only_c27

package main

import _ "verif/props/c27"
