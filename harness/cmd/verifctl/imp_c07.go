//go:build !only || only_c07

package main

import _ "verif/props/c07"
