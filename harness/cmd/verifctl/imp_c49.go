//go:build !only || only_c49

package main

import _ "verif/props/c49"
