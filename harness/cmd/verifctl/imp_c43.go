//go:build !only || only_c43

package main

import _ "verif/props/c43"
