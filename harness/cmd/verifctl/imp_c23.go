//go:build !only || only_c23

package main

import _ "verif/props/c23"
