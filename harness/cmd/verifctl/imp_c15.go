//go:build !only || only_c15

package main

import _ "verif/props/c15"
