//go:build !only || only_c10

package main

import _ "verif/props/c10"
