//go:build !only || only_c13

package main

import _ "verif/props/c13"
