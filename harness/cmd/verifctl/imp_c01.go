//go:build !only || only_c01

package main

import _ "verif/props/c01"
