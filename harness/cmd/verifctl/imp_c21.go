//go:build !only || only_c21

package main

import _ "verif/props/c21"
