//go:build !only || only_c30

package main

import _ "verif/props/c30"
