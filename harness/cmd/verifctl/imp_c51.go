//go:build !only || only_c51

package main

import _ "verif/props/c51"
