//go:build !only || only_c24

package main

import _ "verif/props/c24"
