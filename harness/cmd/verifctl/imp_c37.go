//go:build !only || only_c37

package main

import _ "verif/props/c37"
