//go:build !only || only_c40

package main

import _ "verif/props/c40"
