//go:build !only || only_c28

package main

import _ "verif/props/c28"
