//go:build !only || only_c16

package main

import _ "verif/props/c16"
