//go:build !only || only_c46

package main

import _ "verif/props/c46"
