//go:build !only || only_c53

package main

import _ "verif/props/c53"
