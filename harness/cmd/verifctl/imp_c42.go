//go:build !only || only_c42

package main

import _ "verif/props/c42"
