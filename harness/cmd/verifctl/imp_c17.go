//go:build !only || only_c17

package main

import _ "verif/props/c17"
