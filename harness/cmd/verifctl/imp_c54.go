//go:build !only || only_c54

package main

import _ "verif/props/c54"
