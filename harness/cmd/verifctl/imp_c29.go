//go:build !only || only_c29

package main

import _ "verif/props/c29"
