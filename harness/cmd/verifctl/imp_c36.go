//go:build !only || only_c36

package main

import _ "verif/props/c36"
