//go:build !only || only_c47

package main

import _ "verif/props/c47"
