// verifctl: supervisor, worker and replay driver for the runtime-monitoring checks.
package main

import (
	"encoding/json"
	"fmt"
	"os"
	"strconv"
	"strings"

	"verif/internal/core"
)

func usage() {
	fmt.Fprintln(os.Stderr, `usage:
  verifctl run <Cxx> <quick|thorough>
  verifctl worker <Cxx> <tier> <seed> <variant> <start> <stride> <n> <outfile>
  verifctl replay <witness.json>
  verifctl variants <Cxx>
  verifctl list
  verifctl manifest`)
	os.Exit(2)
}

func main() {
	if len(os.Args) < 2 {
		usage()
	}
	switch os.Args[1] {
	case "run":
		if len(os.Args) < 4 {
			usage()
		}
		p := core.Lookup(os.Args[2])
		if p == nil {
			fmt.Println("unknown property", os.Args[2])
			os.Exit(2)
		}
		os.Exit(core.Supervise(p, core.Tier(os.Args[3])))
	case "worker":
		if len(os.Args) < 10 {
			usage()
		}
		p := core.Lookup(os.Args[2])
		if p == nil {
			os.Exit(3)
		}
		seed, _ := strconv.ParseInt(os.Args[4], 10, 64)
		start, _ := strconv.Atoi(os.Args[6])
		stride, _ := strconv.Atoi(os.Args[7])
		n, _ := strconv.Atoi(os.Args[8])
		core.WorkerMain(p, core.Tier(os.Args[3]), seed, os.Args[5], start, stride, n, os.Args[9])
	case "replay":
		if len(os.Args) < 3 {
			usage()
		}
		os.Exit(core.Replay(os.Args[2]))
	case "variants":
		p := core.Lookup(os.Args[2])
		if p == nil {
			os.Exit(2)
		}
		fmt.Println(strings.Join(p.Variants, " "))
	case "list":
		for _, p := range core.All() {
			fmt.Println(p.ID, p.Level, strings.Join(p.Variants, ","))
		}
	case "manifest":
		b, _ := json.MarshalIndent(core.Manifest(), "", " ")
		fmt.Println(string(b))
	default:
		if f := core.Subcommands[os.Args[1]]; f != nil {
			os.Exit(f(os.Args[2:]))
		}
		usage()
	}
}
