//go:build !only || only_c44

package main

import _ "verif/props/c44"
