//go:build !only || only_c48

package main

import _ "verif/props/c48"
