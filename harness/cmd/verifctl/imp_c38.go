//go:build !only || only_c38

package main

import _ "verif/props/c38"
