//go:build !only || only_c32

package main

import _ "verif/props/c32"
