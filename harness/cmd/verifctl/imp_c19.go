//go:build !only || only_c19

package main

import _ "verif/props/c19"
