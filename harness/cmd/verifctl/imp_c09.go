//go:build !only || only_c09

package main

import _ "verif/props/c09"
