//go:build !only || only_c06

package main

import _ "verif/props/c06"
