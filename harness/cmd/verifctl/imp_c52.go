//go:build !only || only_c52

package main

import _ "verif/props/c52"
