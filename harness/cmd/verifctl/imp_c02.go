//go:build !only || only_c02

package main

import _ "verif/props/c02"
