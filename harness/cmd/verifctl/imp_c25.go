//go:build !only || only_c25

package main

import _ "verif/props/c25"
