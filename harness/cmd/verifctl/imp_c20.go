//go:build !only || only_c20

package main

import _ "verif/props/c20"
