//go:build !only || only_c11

package main

import _ "verif/props/c11"
