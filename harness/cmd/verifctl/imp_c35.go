//go:build !only || only_c35

package main

import _ "verif/props/c35"
