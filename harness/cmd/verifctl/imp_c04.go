//go:build !only || only_c04

package main

import _ "verif/props/c04"
