//go:build !only || only_c14

package main

import _ "verif/props/c14"
