//go:build !only || only_c12

package main

import _ "verif/props/c12"
