//go:build !only || only_c34

package main

import _ "verif/props/c34"
