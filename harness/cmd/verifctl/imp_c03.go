//go:build !only || only_c03

package main

import _ "verif/props/c03"
