//go:build !only || only_c50

package main

import _ "verif/props/c50"
