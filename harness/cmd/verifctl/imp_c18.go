//go:build !only || only_c18

package main

import _ "verif/props/c18"
