#!/bin/bash
# ./run.sh <Cxx> <quick|thorough>      run one property check (rebuilds from /repo's working tree)
# ./run.sh replay <witness.json>       re-execute one recorded case
# ./run.sh all <quick|thorough>        run every registered check sequentially
set -u
cd "$(dirname "$0")"
export VERIF_ROOT="$(pwd)"
. ./env.sh
mkdir -p bin evidence replays

# VERIF_ONLY=1: development mode, link only the property being run (tags only,only_cNN) into
# bin/only/<id>/ so that a broken sibling package cannot break this build.
BINDIR=bin
TAGS=verif
if [ -n "${VERIF_ONLY:-}" ] && [[ "${1:-}" == C* ]]; then
  lc=$(echo "$1" | tr 'A-Z' 'a-z')
  BINDIR=bin/only/$1
  TAGS=verif,only,only_$lc
  mkdir -p "$BINDIR"
  export VERIF_BIN_DIR="$VERIF_ROOT/$BINDIR"
fi

build_variant() { # $1 = variant
  local out=$BINDIR/verifctl flags=(-tags $TAGS)
  case "$1" in
    default) ;;
    race)   out=$BINDIR/verifctl-race;   flags=(-race -tags $TAGS) ;;
    slice)  out=$BINDIR/verifctl-slice;  flags=(-tags $TAGS,slicelabels) ;;
    dedupe) out=$BINDIR/verifctl-dedupe; flags=(-tags $TAGS,dedupelabels) ;;
    asan)   out=$BINDIR/verifctl-asan;   flags=(-asan -tags $TAGS) ;;
    promtool)
      ( cd /repo && GOFLAGS= GOWORK=off flock "$VERIF_ROOT/.build.lock" go build -mod=mod -o "$VERIF_ROOT/$BINDIR/promtool" ./cmd/promtool ) >"$BINDIR/build-promtool.log" 2>&1 \
        || { echo "BUILD-FAILED variant=promtool (see $BINDIR/build-promtool.log)"; tail -20 "$BINDIR/build-promtool.log"; return 1; }
      return 0 ;;
    *) echo "unknown variant $1"; return 1 ;;
  esac
  local lock="$VERIF_ROOT/.build.lock"
  [ "$BINDIR" != bin ] && lock="$VERIF_ROOT/$BINDIR/.build.lock"
  ( cd harness && flock "$lock" go build "${flags[@]}" -o "../$out" ./cmd/verifctl ) >"$BINDIR/build-$1.log" 2>&1 \
    || { echo "BUILD-FAILED variant=$1 (see $BINDIR/build-$1.log)"; tail -30 "$BINDIR/build-$1.log"; return 1; }
}

case "${1:-}" in
  replay)
    build_variant default || exit 2
    exec bin/verifctl replay "$2" ;;
  all)
    rc=0
    build_variant default || exit 2
    for id in $(bin/verifctl list | cut -d' ' -f1); do
      "$0" "$id" "${2:-quick}" || rc=$?
    done
    exit $rc ;;
  build)
    build_variant "${2:-default}"; exit $? ;;
  C*)
    id=$1; tier=${2:-${VERIF_TIER:-quick}}
    build_variant default || exit 2
    for v in $($BINDIR/verifctl variants "$id"); do build_variant "$v" || exit 2; done
    exec $BINDIR/verifctl run "$id" "$tier" ;;
  *) echo "usage: $0 <Cxx> <quick|thorough> | replay <path> | all <tier>"; exit 2 ;;
esac
