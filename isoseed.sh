#!/bin/bash
# iso_seedrun.sh <seed id> <Cxx> [VERIF_SEED] : run a check against a seeded copy of the repository inside a
# private mount namespace (/repo and /verif are bind-mounted copies), leaving the real trees alone.
id=$1; prop=$2; vs=${3:-1}
R=/var/tmp/iso/repo-$id; V=/var/tmp/iso/verif-$id
mkdir -p /var/tmp/iso
rm -rf $R $V
git -C /repo worktree add --detach $R HEAD >/dev/null 2>&1 || { echo "worktree failed"; exit 2; }
( cd $R && git apply /verif/seeded/$id/patch.diff ) || { echo "apply failed"; exit 2; }
mkdir -p $V && rsync -a --exclude .git --exclude bin --exclude replays --exclude evidence /verif/ $V/
unshare -m bash -c "mount --bind $R /repo && mount --bind $V /verif && cd /verif && VERIF_SEED=$vs VERIF_ONLY=1 ./run.sh $prop quick" > /var/tmp/iso/$id-$prop-s$vs.log 2>&1
rc=$?
echo "seed=$id check=$prop VERIF_SEED=$vs exit=$rc $(grep -E 'violation kinds' /var/tmp/iso/$id-$prop-s$vs.log | cut -c1-200)"
git -C /repo worktree remove --force $R; rm -rf $V
