#!/bin/bash
vs=$1
for d in /verif/seeded/*/; do id=$(basename $d); /verif/isoseed.sh $id $id $vs; done
echo "sweep $vs done"
