# sourced by run.sh / setup.sh: offline Go toolchain for /repo (go 1.25.10)
export PATH=/root/go/pkg/mod/golang.org/toolchain@v0.0.1-go1.25.10.linux-amd64/bin:$PATH
export GOTOOLCHAIN=local GOFLAGS=-mod=mod GOPROXY=off GOSUMDB=off GOWORK=off
export VERIF_ROOT=${VERIF_ROOT:-/verif}
