#!/bin/bash
# seedcheck.sh <id> <worktree> <go package path> <demo -run regex> : confirm a seeded change
# (demo fails with it / passes without it / package tests pass with it), then store it under seeded/<id>/
set -u
id=$1; wt=$2; pkg=$3; rx=$4
export PATH=/root/go/pkg/mod/golang.org/toolchain@v0.0.1-go1.25.10.linux-amd64/bin:$PATH GOTOOLCHAIN=local GOPROXY=off GOSUMDB=off
cd "$wt" || exit 2
git apply --check -R SEEDED/patch.diff 2>/dev/null || { echo "patch not applied in worktree?"; }
echo "== demo WITH change (expect FAIL)"; go test -count=1 -run "$rx" "$pkg" 2>&1 | tail -3
git apply -R SEEDED/patch.diff || exit 2
echo "== demo WITHOUT change (expect ok)"; go test -count=1 -run "$rx" "$pkg" 2>&1 | tail -3
git apply SEEDED/patch.diff || exit 2
if [ "${5:-}" != "skiptests" ]; then
  mv $(git ls-files --others --exclude-standard | grep -i "seeded.*_test.go\|demo.*_test.go" | grep -v "^SEEDED/") /var/tmp/ 2>/dev/null
  echo "== package tests WITH change (expect ok)"; go test -count=1 ${6:-} "$pkg" 2>&1 | tail -3
fi
mkdir -p /verif/seeded/$id && cp SEEDED/* /verif/seeded/$id/
