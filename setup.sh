#!/bin/bash
# Builds every harness binary offline from files on disk (warm build cache for the checks).
set -u
cd "$(dirname "$0")"
export VERIF_ROOT="$(pwd)"
. ./env.sh
mkdir -p bin evidence replays
rc=0
./run.sh build default || rc=1
for v in $(bin/verifctl list | cut -d' ' -f3 | tr ',' '\n' | sort -u); do
  [ -n "$v" ] && { ./run.sh build "$v" || rc=1; }
done
bin/verifctl list | wc -l
exit $rc
